"""Contracts for core::FpBase<N> / core::Fp<N,...> linear layer (include/core/fp.hpp) -- BV back end.
Oracle: integers modulo q / r, the primes taken from bvspec (derived from the BLS parameter x)."""
from bvspec import *
from units import BVUnit
import bigint as BI

P = ["C02", "C18", "C20"]
FP = {384: "Fp<384, fq_modulus_var, fq_R_var, fq_R2_var, fq_inv_var>", 256: "Fp<256, fr_modulus_var, fr_R_var, fr_R2_var, fr_inv_var>"}


def FB(n):
    return "FpBase<%d>" % n


def V(n, p):
    return "VAL%d(&%s->val)" % (n, p)


def O(n, p):
    return "OLD%d(&%s->val)" % (n, p)


def M(n):
    return "SPEC_MOD%d" % n


def pre_mod(n):
    return req(fresh("p"), "VAL%d(p) == %s" % (n, M(n)))


def fb_add(n):
    return pre_mod(n) + alias_out_a_b() + req("%s < %s" % (V(n, "a"), M(n)), "%s < %s" % (V(n, "b"), M(n))) + \
        assigns("__CPROVER_object_whole(self)") + \
        ens("%s < %s" % (V(n, "self"), M(n)),
            "%s == %s + %s || %s + %s == %s + %s" % (V(n, "self"), O(n, "a"), O(n, "b"), V(n, "self"), M(n), O(n, "a"), O(n, "b")))


def fb_sub(n):
    return pre_mod(n) + alias_out_a_b() + req("%s < %s" % (V(n, "a"), M(n)), "%s < %s" % (V(n, "b"), M(n))) + \
        assigns("__CPROVER_object_whole(self)") + \
        ens("%s < %s" % (V(n, "self"), M(n)),
            "%s + %s == %s || %s + %s == %s + %s" % (V(n, "self"), O(n, "b"), O(n, "a"), V(n, "self"), O(n, "b"), O(n, "a"), M(n)))


def fb_mul2(n):
    return pre_mod(n) + alias_out_a() + req("%s < %s" % (V(n, "a"), M(n))) + assigns("__CPROVER_object_whole(self)") + \
        ens("%s < %s" % (V(n, "self"), M(n)),
            "%s == (%s << 1) || %s + %s == (%s << 1)" % (V(n, "self"), O(n, "a"), V(n, "self"), M(n), O(n, "a")))


def fb_neg(n):
    return pre_mod(n) + alias_out_a() + req("%s < %s" % (V(n, "a"), M(n))) + assigns("__CPROVER_object_whole(self)") + \
        ens("%s < %s" % (V(n, "self"), M(n)),
            "(%s == 0 && %s == 0) || (%s != 0 && %s + %s == %s)" % (O(n, "a"), V(n, "self"), O(n, "a"), V(n, "self"), O(n, "a"), M(n)))


def fb_reduce(n):
    return pre_mod(n) + req(fresh("a"), fresh("self")) + assigns("__CPROVER_object_whole(self)") + \
        ens("(OLD%d(a) < %s) ==> (%s == OLD%d(a))" % (n, M(n), V(n, "self"), n),
            "(OLD%d(a) >= %s) ==> (%s + %s == OLD%d(a))" % (n, M(n), V(n, "self"), M(n), n))


# ---- Fp<N,p,...>: same statements with the modulus bound to the library's constant ----
def strip_p(c):
    return "".join(l + "\n" for l in c.splitlines() if "(p" not in l.replace("(position", ""))


def units():
    us = []
    for n, tier in ((384, "quick"), (256, "quick")):
        W = n // 64
        bi = {BI.B(n) + "::add": BI.c_add(n), BI.B(n) + "::subtract": BI.c_sub(n), BI.B(n) + "::compare": BI.c_compare(n),
              BI.B(n) + "::copy<%d>" % n: BI.c_copy(n), BI.B(n) + "::is_zero": BI.c_is_zero(n),
              BI.B(n) + "::shift_left_in_word<1>": BI.c_shl1(n)}
        fb = {FB(n) + "::add": fb_add(n), FB(n) + "::subtract": fb_sub(n), FB(n) + "::multiply2": fb_mul2(n),
              FB(n) + "::negate": fb_neg(n), FB(n) + "::reduce": fb_reduce(n)}
        def mk(t, uses, canary, **kw):
            cs = {FB(n) + "::" + t: fb[FB(n) + "::" + t]}
            cs.update({BI.B(n) + "::" + u: bi[BI.B(n) + "::" + u] for u in uses})
            return BVUnit(FB(n) + "::" + t, cs, P, replace=[BI.B(n) + "::" + u for u in uses], unwind=W + 2, tier=tier, canary=canary, **kw)
        us.append(mk("add", ["add", "compare", "subtract"], ("< " + M(n) + ")", "< " + M(n) + " - 1)")))
        us.append(mk("subtract", ["add", "subtract"], ("< " + M(n) + ")", "< " + M(n) + " - 1)")))
        us.append(mk("multiply2", ["shift_left_in_word<1>", "compare", "subtract"], ("< " + M(n) + ")", "< " + M(n) + " - 1)")))
        us.append(mk("negate", ["is_zero", "copy<%d>" % n, "subtract"], ("< " + M(n) + ")", "< " + M(n) + " - 1)")))
        us.append(mk("reduce", ["compare", "copy<%d>" % n, "subtract"], ("+ " + M(n) + " == OLD", "+ " + M(n) + " + 1 == OLD")))
        # the field's predicates (one-line forwarders to BigInt, treated as abstract decisions by every unit above this layer); only the instances the
        # library instantiates exist in the AST
        eqc = req(fresh("b"), "__CPROVER_pointer_equals(a, b) || " + fresh("a")) + assigns() + ens("__CPROVER_return_value == (%s == %s)" % (V(n, "a"), V(n, "b")))
        izc = req(fresh("self")) + assigns() + ens("__CPROVER_return_value == (%s == 0)" % V(n, "self"))
        import bvspec as _bs
        mont_one = _bs.lit(pow(2, n, {384: _bs.Q, 256: _bs.R}[n]), n // 64, "uv%d" % n)          # the Montgomery form of 1: R mod p
        ioc = req(fresh("self")) + assigns() + ens("__CPROVER_return_value == (%s == JPV_MONT_ONE)" % V(n, "self"))
        for t, c_, uses_, can in (("equal", eqc, {BI.B(n) + "::equal": BI.c_equal(n)}, ("== (", "!= (")), ("is_zero", izc, {BI.B(n) + "::is_zero": BI.c_is_zero(n)}, ("== 0)", "== 1)")),
                                  ("is_one", ioc, {BI.B(n) + "::equal": BI.c_equal(n)}, ("== JPV_MONT_ONE", "== 1 + JPV_MONT_ONE"))):
            q_ = FP[n] + "::" + t
            u_ = BVUnit(q_, dict({q_: c_}, **uses_), P + ["C04", "C05"], replace=list(uses_), unwind=W + 2, tier=tier, canary=can,
                        note="predicate forwarder: its truth value is what the RING / GROUP units branch on")
            u_.optional = True          # skipped when the working tree does not instantiate it
            u_.spec_prelude = "#define JPV_MONT_ONE %s\n" % mont_one
            us.append(u_)
        if n == 384:
            cmpc = (req(fresh("b"), "__CPROVER_pointer_equals(a, b) || " + fresh("a")) + assigns() +
                    ens("(__CPROVER_return_value == -1) == (%s < %s)" % (V(n, "a"), V(n, "b")), "(__CPROVER_return_value == 0) == (%s == %s)" % (V(n, "a"), V(n, "b")),
                        "(__CPROVER_return_value == 1) == (%s > %s)" % (V(n, "a"), V(n, "b"))))
            u_ = BVUnit("Fq::compare", {"Fq::compare": cmpc, BI.B(n) + "::compare": BI.c_compare(n)}, P + ["C09"], replace=[BI.B(n) + "::compare"], unwind=W + 2, tier=tier,
                        canary=("== -1) == (", "== 1) == ("), note="the order the encodings' sign flag is defined by (on the stored representation)")
            u_.optional = True
            us.append(u_)
        # Fp wrappers bind p to the library constant: the replaced callee's precondition VAL(p)==SPEC_MOD
        # becomes an obligation on the real constant
        for t in ("add", "subtract", "multiply2", "negate"):
            q = FP[n] + "::" + t
            us.append(BVUnit(q, {q: strip_p(fb[FB(n) + "::" + t]), FB(n) + "::" + t: fb[FB(n) + "::" + t]}, P,
                             replace=[FB(n) + "::" + t], unwind=W + 2, tier=tier, canary=("< " + M(n) + ")", "< " + M(n) + " - 1)")))
    return us


_units64 = units


def units():
    """+ the same contracts on the portable configuration with 32-bit words (C03): 384-bit and 256-bit instances of the quick tier"""
    from units import w32_clone
    us = _units64()
    return us + [w32_clone(u) for u in us if u.tier == "quick" and getattr(u, "tu_variant", None) is None]
