"""C02 (inversion): fp_inverse<Fp>(res, a) -- the binary extended Euclid on Montgomery representatives.

Contract (Fq and Fr instances, res distinct from / aliasing a):
    requires  a.val < p
    ensures   a.val == 0  ==>  res.val == 0
              a.val != 0  ==>  res.val * a.val == R^2 (mod p)      [ i.e. res is the Montgomery form of (a/R)^-1 ]
              res.val < p
with the loop invariant, at the head of all three loops,
    Inv:  b.val == K*u + p*tb,  c.val == K*v + p*tc  (tb, tc integers),  0 <= b.val, c.val < p,  0 <= u, v < 2^bits
where K is any integer with K * a.val == R^2 + p*s  (exists because p is prime and 0 < a.val < p; primality is a closed fact
checked on the dumped modulus).  Inv && (u == 1) gives res == K (mod p), Inv && (v == 1) likewise.

How it is decided: the real body (clang AST) is executed by symx at the integer level (BigInt leaves hold exact integer polynomials in
the symbols; comparisons, parities and carries fork the path and are recorded as linear path constraints, infeasible forks pruned with
z3).  The three loops are CUT: base run (entry state satisfies Inv), one run per loop for the inductive step (arbitrary state satisfying
Inv and the guard; one real iteration; Inv again), and the exit run (arbitrary Inv state with the guard false; the real epilogue; the
postcondition).  "X is a multiple of p" is established by an explicit certificate  m*X == p*Y + sum_i c_i*rel_i  (m in {1,2}, coprime
to p; Y with integer coefficients; rel_i the recorded equalities and the ghost facts), found by linear algebra and then RE-CHECKED as
an exact polynomial identity; so nothing rests on the search.  Termination is not proved (it needs gcd(u,v) == 1)."""
import re
from fractions import Fraction
from poly import Poly
from symx import Interp, Leaf, Obj, Cell, POISON, SymxError, CutDone, loops_of, locals_of, for_parts, run_iteration
from groupdom import GroupDomain, P as PP, z3_query, path_feasible, _norm, _smt_term
from scen import ScenUnit, guarded, Abandon
import units as U
import bvspec

P = ["C02"]
FIELDS = {"Fq": ("Fq", 384, bvspec.Q), "Fr": ("Fr", 256, bvspec.R)}


class InvDomain(GroupDomain):
    def __init__(self, drop, **kw):
        GroupDomain.__init__(self, drop_leaf=drop, **kw)
        self.halves = {}
        self.prune = True

    def _feasible(self, extra):
        rng = {}
        for (p, _) in self.constraints + extra:
            for v in PP(p).vars():
                rng.setdefault(v, self.ranges.get(v, (0, 1 << 384)))
        st, _ = z3_query(rng, self.constraints + extra, [], 30)
        return st != "unsat"

    def decide_rel(self, I, p, label, rel_true, rel_false):
        p = PP(p)
        if p.is_const():
            return GroupDomain.decide_rel(self, I, p, label, rel_true, rel_false)
        ft, ff = self._feasible([(p, rel_true)]), self._feasible([(p, rel_false)])
        if ft and not ff:
            self.constraints.append((p, rel_true))
            return True
        if ff and not ft:
            self.constraints.append((p, rel_false))
            return False
        if not ft and not ff:
            raise Abandon()
        d = I.path.decide(("scalar", label, repr(p)[:80]), (True, False))
        self.constraints.append((p, rel_true if d else rel_false))
        return d

    def halve(self, I, v):
        """v == 2*h + bit; forks on the bit (pruned when the path constraints decide it)"""
        v = PP(v)
        if v.is_const():
            c = v.const_value()
            return c >> 1, c & 1
        key = v
        if key in self.halves:
            return self.halves[key]
        h = self.fresh_scalar("half", 0, 1 << 384)
        opts = [bit for bit in (0, 1) if self._feasible([(v - h * 2 - bit, "==0")])]
        if not opts:
            raise Abandon()
        bit = opts[0] if len(opts) == 1 else I.path.decide(("parity", repr(key)[:80]), (0, 1))
        self.constraints.append((v - h * 2 - bit, "==0"))
        self.halves[key] = (h, bit)
        return h, bit

    def big_method(self, I, f, this, args):
        n = f.name
        if n in ("is_odd", "is_even"):
            h, bit = self.halve(I, self.sval(this))
            return bit if n == "is_odd" else 1 - bit
        if n.startswith("shift_right_in_word"):
            if int(f.targs[0]) != 1:
                raise SymxError("shift_right_in_word<%s>" % f.targs[0])
            h, bit = self.halve(I, self.sval(args[0]))
            this.val = _norm(h)
            return bit << 63
        if n == "is_one":
            return 1 if self.decide_rel(I, PP(self.sval(this)) - 1, "is_one", "==0", "!=0") else 0
        if n == "compare":
            d = PP(self.sval(args[0])) - PP(self.sval(args[1]))
            if self.decide_rel(I, d, "compare<", "<0", ">=0"):
                return -1
            return 0 if self.decide_rel(I, d, "compare=", "==0", "!=0") else 1
        return GroupDomain.big_method(self, I, f, this, args)

    def contract_for(self, I, f, this, args):
        if this is None and f.name == "compare" and f.record is not None and f.record.qname.startswith("BigInt<"):
            return self.big_method
        return GroupDomain.contract_for(self, I, f, this, args)


# ---------------------------------------------------------------------------
# certificates
def _solve(rows, ncols):
    """rows: list of (dict col->Fraction, rhs Fraction); returns a particular solution (free variables 0) or None"""
    rows = [(dict(r), b) for r, b in rows]
    piv = []
    used = set()
    for col in range(ncols):
        pr = None
        for i, (r, b) in enumerate(rows):
            if i not in used and r.get(col, 0) != 0:
                pr = i
                break
        if pr is None:
            continue
        used.add(pr)
        r, b = rows[pr]
        k = r[col]
        r = {c: x / k for c, x in r.items()}
        b = b / k
        rows[pr] = (r, b)
        for i, (r2, b2) in enumerate(rows):
            if i != pr and r2.get(col, 0) != 0:
                m = r2[col]
                nr = dict(r2)
                for c, x in r.items():
                    nr[c] = nr.get(c, 0) - m * x
                    if nr[c] == 0:
                        del nr[c]
                rows[i] = (nr, b2 - m * b)
        piv.append((pr, col))
    for i, (r, b) in enumerate(rows):
        if i not in used and b != 0 and not r:
            return None
        if i not in used and b != 0:
            return None
    sol = [Fraction(0)] * ncols
    for pr, col in piv:
        sol[col] = rows[pr][1]
    return sol


def multiple_of_p(X, p, rels, K="K"):
    """certificate that the integer-valued polynomial X is a multiple of p under the equalities rels (each == 0):
    m*X == p*Y + sum c_{i,mu} * mu * rel_i   with m in {1, 2}, mu in {1, K}, Y an integer-coefficient polynomial of degree <= 1 (plus K-multiples).
    Returns (m, Y) or None.  The identity is re-checked exactly."""
    X = PP(X)
    # linear equalities with a unit-coefficient variable are applied as substitutions first (sound: the variable equals the expression)
    rels = [PP(r) for r in rels]
    changed = True
    while changed:
        changed = False
        for i, r in enumerate(rels):
            if r.is_zero() or r.degree() != 1:
                continue
            cands = [(m[0][0], c) for m, c in r.t.items() if m and abs(c) == 1]
            cands.sort(key=lambda vc: (vc[0].startswith("half"), vc[0]))
            if not cands:
                continue
            v, c = cands[0]
            expr = Poly.var(v) - r * c               # v == expr
            X = X.subs({v: expr})
            rels = [x.subs({v: expr}) for j, x in enumerate(rels) if j != i]
            changed = True
            break
    # then the remaining equalities that can be solved for a variable (coefficient +-1, the variable occurring nowhere else in it)
    changed = True
    while changed:
        changed = False
        for i, r in enumerate(rels):
            cands = []
            for m, c in r.t.items():
                if len(m) == 1 and m[0][1] == 1 and abs(c) == 1 and sum(1 for m2 in r.t if any(v == m[0][0] for v, _ in m2)) == 1:
                    cands.append((m[0][0], c))
            cands.sort(key=lambda vc: (vc[0].startswith("half") or vc[0] in (K, "s"), vc[0]))
            if not cands:
                continue
            v, c = cands[0]
            expr = Poly.var(v) - r * c
            X = X.subs({v: expr})
            rels = [x.subs({v: expr}) for j, x in enumerate(rels) if j != i]
            changed = True
            break
    rels = [r for r in rels if not r.is_zero()]
    if X.is_zero():
        return 1, Poly()
    syms = sorted(set(X.vars()) | {v for r in rels for v in PP(r).vars()})
    mus = [Poly.const(1), Poly.var(K)]
    nus = [Poly.const(1)] + [Poly.var(s) for s in syms]
    gens = [mu * PP(r) for r in rels for mu in mus]
    for m in (1, 2):
        cols = [g for g in gens] + [nu * p for nu in nus]
        mons = sorted({mn for g in cols for mn in g.t} | set(X.t), key=repr)
        rows = []
        for mn in mons:
            row = {j: Fraction(g.t[mn]) for j, g in enumerate(cols) if mn in g.t}
            rows.append((row, Fraction(m * X.t.get(mn, 0))))
        sol = _solve(rows, len(cols))
        if sol is None:
            continue
        ys = sol[len(gens):]
        if any(y.denominator != 1 for y in ys):
            continue
        Y = Poly()
        for y, nu in zip(ys, nus):
            Y = Y + nu * int(y)
        # exact re-check with rational multipliers cleared
        den = 1
        for c in sol[:len(gens)]:
            den = den * c.denominator // __import__("math").gcd(den, c.denominator)
        lhs = (X * m - Y * p) * den
        for c, g in zip(sol[:len(gens)], gens):
            lhs = lhs - g * int(c * den)
        if lhs.is_zero():
            return m, Y
    return None


def miller_rabin(n, bases=range(2, 66)):
    d, s = n - 1, 0
    while d % 2 == 0:
        d //= 2
        s += 1
    for a in bases:
        x = pow(a, d, n)
        if x in (1, n - 1):
            continue
        for _ in range(s - 1):
            x = x * x % n
            if x == n - 1:
                break
        else:
            return False
    return True


# ---------------------------------------------------------------------------
def gen_inverse(tu, fname):
    F, bits, p = FIELDS[fname]
    import jast
    q = [x for x in tu.by_qname if x == "fp_inverse(%s &, const %s &)" % (fname, fname) and tu.by_qname[x].body is not None]
    if not q:
        raise jast.ExtractionError("fp_inverse instance for %s not found" % fname)
    f = tu.func(q[0])
    loops = loops_of(f)
    if len(loops) != 3:
        raise jast.ExtractionError("fp_inverse: expected 3 loops, found %d" % len(loops))
    names = locals_of(f)

    def refs(n, acc):
        if n.get("kind") == "DeclRefExpr" and n.get("referencedDecl", {}).get("name") in ("u", "v", "b", "c"):
            acc.add(n["referencedDecl"]["name"])
        for c_ in n.get("inner", []) or []:
            refs(c_, acc)
        return acc
    # which pair each halving loop works on is read off the loop itself (u,b or v,c), not its position
    pair_of = {}
    for ix in (1, 2):
        r_ = refs(loops[ix], set())
        if r_ == {"u", "b"}:
            pair_of[ix] = "u"
        elif r_ == {"v", "c"}:
            pair_of[ix] = "v"
        else:
            raise jast.ExtractionError("fp_inverse: inner loop %d works on %s (expected the pair u,b or v,c)" % (ix, sorted(r_)))
    if sorted(pair_of.values()) != ["u", "v"]:
        raise jast.ExtractionError("fp_inverse: the two inner loops work on the same pair")
    R2 = pow(2, 2 * bits, p)
    K = Poly.var("K")
    MODES = ["base", "step-outer", "step-halve-u", "step-halve-v", "exit"]

    def run_mode(mode, alias):
        def run(path):
            dom = InvDomain((tu.canon(F),), consts=U.SHARED.get("consts"))
            I = Interp(tu, dom)
            I.path = path
            a = I.new_object(F)
            res = a if alias else I.new_object(F)
            A = dom.input_scalar("a", 0, p)
            a.f["val"].val = A
            facts = [K * A - R2 - Poly.var("s") * p]           # definition of K (a != 0 on every path that reaches the loops)
            st = {}
            # gcd(a, p) == 1 for 0 < a < p, p prime (closed fact): Bezout witnesses exist at loop entry (u == a, v == p)
            st["bez"] = (Poly.var("Xe") * A + Poly.var("Ye") * p - 1, Poly.var("Xe"), Poly.var("Ye"))

            def leafs(env):
                return env[names["u"]], env[names["v"]], env[names["b"]].f["val"], env[names["c"]].f["val"]

            def havoc(env, tag, which="uv"):
                """arbitrary state satisfying Inv (only the named loop's frame is replaced: u,b and / or v,c)"""
                u, v, b, c = leafs(env)
                if "u" in which:
                    u.val, b.val = dom.fresh_scalar("u" + tag, 1, 1 << bits), dom.fresh_scalar("b" + tag, 0, p)
                if "v" in which:
                    v.val, c.val = dom.fresh_scalar("v" + tag, 1, 1 << bits), dom.fresh_scalar("c" + tag, 0, p)
                tb, tc = Poly.var("tb" + tag), Poly.var("tc" + tag)
                st["facts"] = facts + [PP(b.val) - K * PP(u.val) - tb * p, PP(c.val) - K * PP(v.val) - tc * p]
                X, Y = Poly.var("X" + tag), Poly.var("Y" + tag)
                st["bez"] = (X * PP(u.val) + Y * PP(v.val) - 1, X, Y)     # termination ghost: gcd(u, v) == 1 by Bezout witnesses

            def lin_query(goal_terms, extra_vars=()):
                rng = {}
                for (q_, _) in dom.constraints:
                    for v_ in PP(q_).vars():
                        rng.setdefault(v_, dom.ranges.get(v_, (0, 1 << bits)))
                for v_ in extra_vars:
                    rng.setdefault(v_, dom.ranges.get(v_, (-(1 << (bits + 2)), 1 << (bits + 2))))
                return z3_query(rng, dom.constraints, goal_terms, 30)[0]

            def entails(poly, rel, what):
                """(what, status): the path constraints entail  poly rel 0  (linear integer arithmetic)"""
                poly = PP(poly)
                neg = {">=0": "(< %s 0)", "<0": "(>= %s 0)", "==0": "(not (= %s 0))"}[rel]
                if poly.is_const():
                    c_ = poly.const_value()
                    ok = (c_ >= 0) if rel == ">=0" else (c_ < 0) if rel == "<0" else (c_ == 0)
                    return (what, "ok" if ok else "fail", repr(poly), None)
                if poly.degree() > 1:
                    return (what, "undecided", "non-linear %r" % poly, None)
                r_ = lin_query([neg % _smt_term(poly)], poly.vars())
                return (what, "ok" if r_ == "unsat" else "fail" if r_ == "sat" else "undecided", "" if r_ == "unsat" else repr(poly), None)

            def apply_linear(polys):
                """substitute the path's linear equalities that have a unit-coefficient variable (the variable equals the expression)"""
                rels = [PP(x) for (x, r) in dom.constraints if r == "==0"]
                polys = list(polys)
                changed = True
                while changed:
                    changed = False
                    for i, r in enumerate(rels):
                        if r.is_zero() or r.degree() != 1:
                            continue
                        cands = [(m[0][0], c_) for m, c_ in r.t.items() if m and abs(c_) == 1]
                        cands.sort(key=lambda vc: (vc[0].startswith("half") or vc[0].startswith("odd"), vc[0]))
                        if not cands:
                            continue
                        v_, c_ = cands[0]
                        expr = Poly.var(v_) - r * c_
                        polys = [x.subs({v_: expr}) for x in polys]
                        rels = [x.subs({v_: expr}) for j, x in enumerate(rels) if j != i]
                        changed = True
                        break
                return polys

            def bezout_obs(u_, v_, tag):
                """gcd(u, v) == 1 is kept: witnesses for the new state are integer combinations of the old ones"""
                fact, X, Y = st["bez"]
                for Xc, Yc, how in ((X, Y, "same"), (X * 2, Y, "2X, Y"), (X, Y * 2, "X, 2Y"), (X, X + Y, "X, X+Y"), (X + Y, Y, "X+Y, Y")):
                    G, F_ = apply_linear([Xc * PP(u_) + Yc * PP(v_) - 1, fact])
                    if (G - F_).is_zero():
                        return ("%s: gcd(u, v) == 1 (Bezout witnesses)" % tag, "ok", how, None)
                return ("%s: gcd(u, v) == 1 (Bezout witnesses)" % tag, "fail", "no integer combination of the previous witnesses works for u = %r, v = %r" % (PP(u_), PP(v_)), None)

            def bezout_infeasible():
                """u == v on this path and u >= 2 contradict X*u + Y*v == 1 (u would divide 1)"""
                if "bez" not in st:
                    return False
                fact = st["bez"][0]
                for (q_, r_) in dom.constraints:
                    q_ = PP(q_)
                    if r_ != "==0" or len(q_.t) != 2 or q_.degree() != 1 or () in q_.t:
                        continue
                    (m1, c1), (m2, c2) = sorted(q_.t.items())
                    if c1 + c2 != 0 or abs(c1) != 1:
                        continue
                    s1, s2 = m1[0][0], m2[0][0]
                    F_ = fact.subs({s1: Poly.var(s2)})
                    if abs(F_.t.get((), 0)) == 1 and all(any(v_ == s2 for (v_, _) in m) for m in F_.t if m != ()):
                        if lin_query(["(< %s 2)" % _smt_term(Poly.var(s2))], [s2]) == "unsat":
                            return True
                return False

            def inv_obs(env, tag, head=False):
                u, v, b, c = leafs(env)
                rels = list(st.get("facts", facts)) + [PP(x) for (x, r) in dom.constraints if r == "==0"]
                obs = []
                for nm, x, y in (("b", b, u), ("c", c, v)):
                    cert = multiple_of_p(PP(x.val) - K * PP(y.val), p, rels)
                    obs.append(("%s: %s.val == K*%s (mod p)" % (tag, nm, "u" if nm == "b" else "v"), "ok" if cert else "fail", ("no certificate for X = %r under %r" % (PP(x.val) - K * PP(y.val), rels)) if not cert else "m=%d" % cert[0], None))
                    dom.side = []
                    dom.range_obligation(I, x.val, p, "%s: %s.val < p" % (tag, nm))
                    dom.range_obligation(I, y.val, 1 << bits, "%s: %s fits" % (tag, "u" if nm == "b" else "v"))
                    obs += [(w_, s_, m_, None) for (w_, s_, m_) in dom.side]
                    # termination part of Inv: u, v >= 1 (so the halving loops cannot spin on 0) and gcd(u, v) == 1
                    obs.append(entails(PP(y.val) - 1, ">=0", "%s: %s >= 1" % (tag, "u" if nm == "b" else "v")))
                obs.append(bezout_obs(u.val, v.val, tag))
                if head:
                    # outer-loop head only: u and v are not both even (after the subtraction exactly one is; at entry v == p)
                    r_ = lin_query(["(= %s (* 2 |jpv_m1|))" % _smt_term(PP(u.val)), "(= %s (* 2 |jpv_m2|))" % _smt_term(PP(v.val))],
                                   list(PP(u.val).vars()) + list(PP(v.val).vars()) + ["jpv_m1", "jpv_m2"])
                    obs.append(("%s: u, v not both even" % tag, "ok" if r_ == "unsat" else "fail" if r_ == "sat" else "undecided", "", None))
                return obs

            def finish(obs):
                if not path_feasible(dom) or bezout_infeasible():
                    raise Abandon()
                raise CutDone(obs + [(w_, s_, m_, None) for (w_, s_, m_) in dom.side if s_ != "ok"])

            def guard(I_, n, env):
                init, cond, inc, body = for_parts(n)
                if not cond.get("kind"):
                    return True                 # for (;;)
                return I_.truth(I_.rv(I_.ev(cond, env)), n)

            def cut_outer(I_, n, env):
                if mode == "base":
                    st["facts"] = facts
                    finish(inv_obs(env, "base", head=True))
                havoc(env, "0")
                u, v, b, c = leafs(env)
                if mode == "step-outer":
                    # Inv at the outer head includes "u, v not both even": one run per disjunct
                    odd = I_.path.decide(("inv", "which of u, v is odd"), ("u", "v"))
                    g = dom.fresh_scalar("odd", 0, 1 << bits)
                    dom.constraints.append((PP((u if odd == "u" else v).val) - g * 2 - 1, "==0"))
                    st["M"] = PP(u.val) + PP(v.val)
                    went = run_iteration(I_, n, env)
                    if not went:
                        raise Abandon()
                    obs = inv_obs(env, "outer step", head=True)
                    u, v, b, c = leafs(env)
                    obs.append(entails(st["M"] - PP(u.val) - PP(v.val) - 1, ">=0", "outer step: the variant u + v strictly decreases (and stays >= 2)"))
                    finish(obs)
                if mode == "exit":
                    # an exit is either the guard being false (the real epilogue follows) or a `return` inside the body before any inner loop
                    if not guard(I_, n, env):
                        return
                    init, cond, inc, body = for_parts(n)
                    I_.exec(body, env)          # a return statement unwinds through here to the caller of I.call; the inner cuts abandon the path
                    raise Abandon()
                # inner-loop steps: enter the body (guard true), the inner handlers take over
                went = run_iteration(I_, n, env)
                if not went:
                    raise Abandon()             # guard false: nothing to show for the inner loops on this path
                raise SymxError("inner cut not reached")

            def cut_inner(which):
                def h(I_, n, env):
                    if mode == "step-outer":
                        # a loop whose guard is false on entry is skipped: the state is untouched (this is what keeps "u != 1" for an odd u)
                        if not guard(I_, n, env):
                            return
                        # entry: Inv holds (same predicate); then an arbitrary Inv state of this loop's frame (u,b or v,c) with the guard false,
                        # not above the entry value (the halving step below shows both)
                        obs_in = inv_obs(env, "entry of halving loop %s" % which)
                        st.setdefault("pending", []).extend(obs_in)
                        u, v, b, c = leafs(env)
                        before = PP((u if which == "u" else v).val)
                        havoc(env, which, which)
                        u, v, b, c = leafs(env)
                        dom.constraints.append((before - PP((u if which == "u" else v).val), ">=0"))
                        if guard(I_, n, env):
                            raise Abandon()
                        return
                    if mode == "step-halve-" + which:
                        havoc(env, which)
                        u, v, b, c = leafs(env)
                        pre = dict(u=PP(u.val), v=PP(v.val), b=PP(b.val), c=PP(c.val))
                        went = run_iteration(I_, n, env)
                        if not went:
                            raise Abandon()
                        obs = inv_obs(env, "halving step (%s)" % which)
                        u, v, b, c = leafs(env)
                        mine, other, oc = (u, v, c) if which == "u" else (v, u, b)
                        oname, ocname = ("v", "c") if which == "u" else ("u", "b")
                        obs.append(entails(pre[which] - PP(mine.val) - 1, ">=0", "halving step (%s): the variant %s strictly decreases" % (which, which)))
                        same = (PP(other.val) - pre[oname]).is_zero() and (PP(oc.val) - pre[ocname]).is_zero()
                        obs.append(("halving step (%s): frame -- %s and %s untouched" % (which, oname, ocname), "ok" if same else "fail", "", None))
                        finish(obs)
                    if mode.startswith("step-halve-") and mode != "step-halve-" + which:
                        # the other halving loop comes first in the body: pass through it by its contract
                        havoc(env, which)
                        if guard(I_, n, env):
                            raise Abandon()
                        return
                    if mode == "exit":
                        raise Abandon()         # not an exit path
                    raise SymxError("unexpected inner cut in mode " + mode)
                return h

            I.loop_cuts[loops[0]["id"]] = cut_outer
            I.loop_cuts[loops[1]["id"]] = cut_inner(pair_of[1])
            I.loop_cuts[loops[2]["id"]] = cut_inner(pair_of[2])
            try:
                I.call(f, None, [res, a], force_body=True)
            except CutDone as e:
                return st.get("pending", []) + e.obs
            # the function returned: either the zero shortcut or the epilogue after the exit cut
            if not path_feasible(dom):
                raise Abandon()
            rv = res.f["val"].val
            obs = [(w_, s_, m_, None) for (w_, s_, m_) in dom.side if s_ != "ok"]
            if mode == "exit":
                if "facts" not in st:
                    raise Abandon()             # the a == 0 shortcut: decided in the base run
                rels = list(st["facts"]) + [PP(x) for (x, r) in dom.constraints if r == "==0"]
                # res == K (mod p)  and  K*a == R^2 (mod p)   ==>   res*a == R^2 (mod p)
                c1 = multiple_of_p(PP(rv) - K, p, rels)
                obs.append(("exit: res.val == K (mod p), hence res.val * a.val == R^2 (mod p)", "ok" if c1 else "fail", "" if c1 else "no certificate", None))
                dom.side = []
                dom.range_obligation(I, rv, p, "exit: res.val < p")
                obs += [(w_, s_, m_, None) for (w_, s_, m_) in dom.side]
                return obs
            if mode == "base":
                # returned without reaching the loops: must be the a == 0 case, with res == 0
                z = z3_query({"a": (0, p)}, dom.constraints, ["(not (= a 0))"], 30)[0] == "unsat"
                obs.append(("zero: the shortcut is taken only for a.val == 0", "ok" if z else "fail", "", None))
                rz = PP(rv).is_zero() or (PP(rv).degree() <= 1 and z3_query({v: dom.ranges.get(v, (0, 1 << bits)) for v in set(PP(rv).vars()) | {"a"}}, dom.constraints + [(PP(rv), "!=0")], [], 30)[0] == "unsat")
                obs.append(("zero: res.val == 0", "ok" if rz else "fail", repr(rv), None))
                return obs
            raise Abandon()
        return run

    for alias in (False, True):
        for mode in MODES:
            yield "%s %s%s" % (fname, mode, " [res=a]" if alias else ""), guarded(run_mode(mode, alias))

    def closed(path):
        chk = lambda w, ok: (w, "ok" if ok else "fail", "", None)
        return [chk("%s modulus passes Miller-Rabin for 64 bases (K exists for every a != 0 when p is prime)" % fname, miller_rabin(p)), chk("%s modulus is odd (halving certificate: m = 2 is coprime to p)" % fname, p % 2 == 1)]
    yield "%s closed facts" % fname, guarded(closed)


def _replay(rec, unit, result, fresh, tu, wd, cx):
    """native: the real fp_inverse on corner operands and a spread of others; oracle = the contract, evaluated with Python integers"""
    import replay as R_
    fname = "Fq" if "<Fq>" in unit.label else "Fr"
    F, bits, p = FIELDS[fname]
    R2 = pow(2, 2 * bits, p)
    one = pow(2, bits, p)
    cands = [0, 1, 2, 3, one, p - one, p - 1, p - 2, R2, (one * 2) % p, (p + 1) // 2] + [pow(7, k, p) for k in range(5, 40, 3)]
    nw = bits // 64
    lines = [R_.unity_source(), "#include <stdio.h>", "#include <string.h>", "using namespace embedded_pairing; using namespace embedded_pairing::core; using namespace embedded_pairing::bls12_381;",
             "static void out(const char* n, int k, const %s& x){ printf(\"%%s%%d\", n, k); uint64_t w[%d]; memcpy(w, &x.val, sizeof w); for(int i=0;i<%d;i++) printf(\" %%llu\", (unsigned long long)w[i]); printf(\"\\n\"); }" % (fname, nw, nw),
             "#include <signal.h>", "#include <unistd.h>", "static volatile int jpv_cur = -1;",
             "static void jpv_hang(int){ char m[32]; int n = snprintf(m, sizeof m, \"hang %d\\n\", jpv_cur); fflush(stdout); if (write(1, m, n)) {} _exit(0); }",
             "int main(){ signal(SIGALRM, jpv_hang);"]
    for k, v in enumerate(cands):
        ws = ", ".join("%dULL" % ((v >> (64 * i)) & (2**64 - 1)) for i in range(nw))
        lines.append("  jpv_cur = %d; alarm(10);" % k)
        lines.append("  { %s a, r; uint64_t w[%d] = {%s}; memcpy(&a.val, w, sizeof w); fp_inverse(r, a); out(\"r\", %d, r); fp_inverse(a, a); out(\"s\", %d, a); }" % (fname, nw, ws, k, k))
    lines.append("  return 0; }")
    native, err = R_.run_native("\n".join(lines), wd, unit.name()[:40] + "_native")
    rec["native_driver_error"] = err
    if native is None:
        return False
    if native.get("hang"):
        v = cands[native["hang"][0]]
        rec["native_finding"] = "real fp_inverse<%s> does not return within 10 s on a.val = %d (it takes microseconds on every operand for which it terminates)" % (fname, v)
        rec["confirmed_on_real_code"] = True
        return True
    for k, v in enumerate(cands):
        for tag in ("r", "s"):
            ws = native.get("%s%d" % (tag, k))
            if ws is None:
                continue
            r = sum(x << (64 * i) for i, x in enumerate(ws))
            ok = (r == 0) if v == 0 else ((r * v - R2) % p == 0)
            if not ok or r >= p:
                rec["native_finding"] = "real fp_inverse<%s>%s on a.val = %d returns res.val = %d: %s" % (fname, " (res aliases a)" if tag == "s" else "", v, r,
                                        "not below p" if r >= p and ok else ("inverse of zero is not zero" if v == 0 else "res.val * a.val != R^2 (mod p)"))
                rec["confirmed_on_real_code"] = True
                return True
    rec["confirmed_on_real_code"] = False
    return False


def units():
    out = []
    for fname in ("Fq", "Fr"):
        out.append(ScenUnit("fp_inverse<%s>: res*a == R^2 (mod p), inverse of zero is zero, result below p (loop cuts, certificates)" % fname, P,
                            (lambda tu, fname=fname: gen_inverse(tu, fname)), targets=[],
                            contracts_used=["BigInt add / subtract / compare / is_one / parity / shift_right_in_word<1> exact at the integer level (C02 BV units)"],
                            note="partial correctness; termination needs gcd(u,v)==1 and is not proved"))
        out[-1].replay_hook = _replay
    return out
