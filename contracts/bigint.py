"""Contracts for core::BigInt<N> (include/core/bigint.hpp) -- BV back end.

Postconditions are integer facts about the little-endian reading VALn() of the word
array; frames are `assigns`; alias patterns are the ones the C++ signature permits
(__restrict operands must be distinct from the written object)."""
import re
from bvspec import *
from units import BVUnit

P = ["C02"]


def B(n):
    return "BigInt<%d>" % n


def c_add(n):
    exact = (n % 128 == 0)
    post = ("VAL%d(self) + ((uv%d)__CPROVER_return_value << %d) == OLD%d(a) + OLD%d(b)" % (n, n, n, n, n)) if exact else \
           ("VAL%d(self) == ((OLD%d(a) + OLD%d(b)) & (((uv%d)1 << %d) - 1))" % (n, n, n, n, n))
    return alias_out_a_b() + assigns("__CPROVER_object_whole(self)") + ens(post)


def c_sub(n):
    exact = (n % 128 == 0)
    post = ("VAL%d(self) + OLD%d(b) == OLD%d(a) + ((uv%d)__CPROVER_return_value << %d)" % (n, n, n, n, n)) if exact else \
           ("VAL%d(self) == ((OLD%d(a) - OLD%d(b)) & (((uv%d)1 << %d) - 1))" % (n, n, n, n, n))
    return alias_out_a_b() + assigns("__CPROVER_object_whole(self)") + ens(post)


def c_compare(n):
    return req(fresh("b"), "__CPROVER_pointer_equals(a, b) || " + fresh("a")) + assigns() + ens(
        "(__CPROVER_return_value == -1) == (VAL%d(a) < VAL%d(b))" % (n, n),
        "(__CPROVER_return_value == 0) == (VAL%d(a) == VAL%d(b))" % (n, n),
        "(__CPROVER_return_value == 1) == (VAL%d(a) > VAL%d(b))" % (n, n))


def c_equal(n):
    return req(fresh("b"), "__CPROVER_pointer_equals(a, b) || " + fresh("a")) + assigns() + ens(
        "__CPROVER_return_value == (VAL%d(a) == VAL%d(b))" % (n, n))


def c_is_zero(n):
    return req(fresh("self")) + assigns() + ens("__CPROVER_return_value == (VAL%d(self) == 0)" % n)


def c_is_one(n):
    return req(fresh("self")) + assigns() + ens("__CPROVER_return_value == (VAL%d(self) == 1)" % n)


def c_is_even(n):
    return req(fresh("self")) + assigns() + ens("__CPROVER_return_value == ((self->words[0] & 1) == 0)")


def c_is_odd(n):
    return req(fresh("self")) + assigns() + ens("__CPROVER_return_value == ((self->words[0] & 1) == 1)")


def c_bit(n):
    return req(fresh("self"), "0 <= position && position < %d" % n) + assigns() + ens(
        "__CPROVER_return_value == (((VAL%d(self) >> position) & 1) == 1)" % n)


def c_copy(n):
    return alias_out_a() + assigns("__CPROVER_object_whole(self)") + ens("VAL%d(self) == OLD%d(a)" % (n, n))


def c_shl1(n):
    return alias_out_a() + assigns("__CPROVER_object_whole(self)") + ens(
        "__CPROVER_return_value <= 1",
        "VAL%d(self) + ((uv%d)__CPROVER_return_value << %d) == (OLD%d(a) << 1)" % (n, n, n, n))


def c_shr1(n, wb=64):
    """the shifted-out bit is returned in the top bit of a word_t (wb = its width in the configuration)"""
    return alias_out_a() + assigns("__CPROVER_object_whole(self)") + ens(
        "(__CPROVER_return_value & 0x%xULL) == 0" % ((1 << (wb - 1)) - 1),
        "(VAL%d(self) << 1) + (__CPROVER_return_value >> %d) == OLD%d(a)" % (n, wb - 1, n))


def units():
    us = []
    for n, tier in ((384, "quick"), (256, "quick"), (128, "thorough"), (512, "thorough")):
        W = n // 64
        mk = lambda t, c, canary, **kw: BVUnit(B(n) + "::" + t, {B(n) + "::" + t: c}, P + kw.pop("props", []), unwind=kw.pop("unwind", W + 2), tier=tier, canary=canary, **kw)
        us.append(mk("add", c_add(n), ("OLD%d(a) + OLD%d(b)" % (n, n), "OLD%d(a) + OLD%d(b) + 1" % (n, n)), props=["C18"]))
        us.append(mk("subtract", c_sub(n), ("== OLD%d(a)" % n, "== 1 + OLD%d(a)" % n), props=["C18"], strip_restrict=True,
                     note="proved also for out = b (beyond the __restrict interface) because FpBase::negate(out = a) calls it that way"))
        if n in (384, 256):
            us.append(mk("compare", c_compare(n), ("== -1) ==", "== 1) =="), unwind=W + 2))
            us.append(mk("equal", c_equal(n), ("== (VAL", "!= (VAL"), unwind=n // 8 + 2))
            us.append(mk("is_zero", c_is_zero(n), ("== 0)", "== 1)")))
            us.append(mk("is_odd", c_is_odd(n), ("== 1)", "== 0)")))
            us.append(mk("bit", c_bit(n), ("& 1) == 1", "& 1) == 0")))
            us.append(mk("shift_left_in_word<1>", c_shl1(n), ("<< 1)", "<< 2)"), props=["C18"]))
            us.append(mk("shift_right_in_word<1>", c_shr1(n), ("== OLD", "== 1 + OLD"), props=["C18"]))
    for n in (384, 256):
        us.append(BVUnit(B(n) + "::copy<%d>" % n, {B(n) + "::copy<%d>" % n: c_copy(n)}, P + ["C18"], unwind=n // 8 + 2, canary=("== OLD", "!= OLD")))
    us.append(BVUnit("BigInt<384>::is_one", {"BigInt<384>::is_one": c_is_one(384)}, P, unwind=8, canary=("== 1)", "== 2)")))
    us.append(BVUnit("BigInt<384>::is_even", {"BigInt<384>::is_even": c_is_even(384)}, P, unwind=8, canary=("== 0)", "== 1)")))
    us.append(BVUnit("BigInt<256>::is_one", {"BigInt<256>::is_one": c_is_one(256)}, P, unwind=8, canary=("== 1)", "== 2)"), tier="thorough"))
    return us


_units64 = units


def units():
    """+ the same contracts on the portable configuration with 32-bit words (C03): 384-bit and 256-bit instances of the quick tier"""
    from units import w32_clone
    us = _units64()
    out = []
    for u in us:
        if u.tier == "quick" and getattr(u, "tu_variant", None) is None:
            c = w32_clone(u)
            if "shift_right_in_word<1>" in u.target:
                n = int(re.search(r"BigInt<(\d+)>", u.target).group(1))
                c.contracts = {k: (c_shr1(n, 32) if k == u.target else v) for k, v in u.contracts.items()}
                c.canary = None
            out.append(c)
    return us + out
