"""C03 (bounded, thorough tier): the library's own test suite rebuilt from the working tree in the two portable configurations the shipped build never
runs -- DISABLE_ASM with 64-bit words, and DISABLE_ASM without unsigned __int128 (32-bit words) -- must print only PASS lines.  Evidence at the level of
the test suite's sampling, nothing more; the proofs are the per-routine units."""
import os, subprocess, tempfile, shutil
from scen import ScenUnit, guarded
from jast import REPO, ExtractionError

P = ["C03"]


def gen(tu):
    for tag, flags in (("portable, 64-bit words (-DDISABLE_ASM)", "-DDISABLE_ASM"), ("portable, 32-bit words (-DDISABLE_ASM -U__SIZEOF_INT128__)", "-DDISABLE_ASM -U__SIZEOF_INT128__")):
        def run(path, tag=tag, flags=flags):
            wd = tempfile.mkdtemp(prefix="jpv.cfg.")
            try:
                # the working tree (not HEAD): copy the sources the tests' Makefile uses
                for d in ("include", "src", "tests"):
                    shutil.copytree(os.path.join(REPO, d), os.path.join(wd, d), symlinks=True, ignore=shutil.ignore_patterns("bin", "*.o", "*.a", "test"))
                tdir = os.path.join(wd, "tests")
                lib = os.path.join(tdir, "lib")
                if os.path.islink(lib) or not os.path.exists(lib):
                    if os.path.islink(lib):
                        os.unlink(lib)
                    os.symlink("..", lib)
                r = subprocess.run(["make", "-j8", "CXXFLAGS=-std=c++17 -I../include -O2 -fno-vectorize " + flags], cwd=tdir, capture_output=True, text=True, timeout=1500)
                if r.returncode != 0:
                    raise ExtractionError("test suite does not build in configuration %s: %s" % (tag, (r.stdout + r.stderr)[-600:]))
                obs = []
                for args in ([], ["wkdibe"]):
                    t = subprocess.run([os.path.join(tdir, "test")] + args, cwd=tdir, capture_output=True, text=True, timeout=1500)
                    out = t.stdout + t.stderr
                    np_, nf = out.count("PASS"), out.count("FAIL")
                    obs.append(("[%s] ./test %s: %d PASS, %d FAIL, exit %d" % (tag, " ".join(args), np_, nf, t.returncode), "ok" if (nf == 0 and np_ > 0 and t.returncode == 0) else "fail", out[-400:] if nf else "", None))
                return obs
            finally:
                shutil.rmtree(wd, ignore_errors=True)
        yield tag, guarded(run)


def gen_sanitized(tu):
    """C17 (bounded, thorough): the pinned suite under ASan + UBSan in the portable configuration, and under -funsigned-char (the ARM targets' char
    signedness) -- C++-level undefined behaviour that the extracted-C units cannot model (object lifetime, union members, vptr-free here) is at least
    exercised on the suite's inputs"""
    cfgs = (("portable, 64-bit words, AddressSanitizer + UndefinedBehaviorSanitizer", "clang++", "-DDISABLE_ASM -fsanitize=address,undefined -fno-sanitize-recover=undefined -g", "-fsanitize=address,undefined"),
            ("x86-64 assembly configuration compiled with -funsigned-char (char signedness of the ARM targets)", "clang++", "-funsigned-char", ""))
    for tag, cxx, flags, ld in cfgs:
        def run(path, tag=tag, cxx=cxx, flags=flags, ld=ld):
            wd = tempfile.mkdtemp(prefix="jpv.san.")
            try:
                for d in ("include", "src", "tests"):
                    shutil.copytree(os.path.join(REPO, d), os.path.join(wd, d), symlinks=True, ignore=shutil.ignore_patterns("bin", "*.o", "*.a", "test"))
                tdir = os.path.join(wd, "tests")
                lib = os.path.join(tdir, "lib")
                if os.path.islink(lib) or not os.path.exists(lib):
                    if os.path.islink(lib):
                        os.unlink(lib)
                    os.symlink("..", lib)
                r = subprocess.run(["make", "-j8", "CXX=" + cxx, "CXXFLAGS=-std=c++17 -I../include -O1 -fno-vectorize " + flags, "LDFLAGS=" + ld], cwd=tdir, capture_output=True, text=True, timeout=2400)
                if r.returncode != 0:
                    raise ExtractionError("test suite does not build in configuration %s: %s" % (tag, (r.stdout + r.stderr)[-800:]))
                obs = []
                for args in ([], ["wkdibe"]):
                    t = subprocess.run([os.path.join(tdir, "test")] + args, cwd=tdir, capture_output=True, text=True, timeout=2400, env=dict(os.environ, ASAN_OPTIONS="detect_leaks=0"))
                    out = t.stdout + t.stderr
                    np_, nf = out.count("PASS"), out.count("FAIL")
                    rep = ("runtime error:" in out) or ("AddressSanitizer" in out)
                    obs.append(("[%s] ./test %s: %d PASS, %d FAIL, sanitizer report: %s, exit %d" % (tag, " ".join(args), np_, nf, rep, t.returncode),
                                "ok" if (nf == 0 and np_ > 0 and t.returncode == 0 and not rep) else "fail", out[-600:] if (nf or rep or t.returncode) else "", None))
                return obs
            finally:
                shutil.rmtree(wd, ignore_errors=True)
        yield tag, guarded(run)


def units():
    s_ = ScenUnit("the library's test suite under AddressSanitizer + UndefinedBehaviorSanitizer (portable configuration) and with -funsigned-char: only PASS lines, no report", ["C17"], gen_sanitized,
                  tier="thorough", kind="bounded", bound="the pinned suite's own sampling (71 + 8 tests)", targets=[], note="bounded dynamic evidence for the C++-level UB classes the extracted-C units do not model; scratch build outside /repo and /verif")
    s_.back_end = "NATIVE"
    return _units0() + [s_]


def _units0():
    u = ScenUnit("the library's test suite rebuilt in the portable 64-bit-word and 32-bit-word configurations: only PASS lines", P, gen, tier="thorough", kind="bounded",
                 bound="the pinned suite's own sampling (71 + 8 tests)", targets=[], note="bounded evidence; scratch build outside /repo and /verif, removed afterwards")
    u.back_end = "NATIVE"
    return [u]
