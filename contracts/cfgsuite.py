"""C03 (bounded, thorough tier): the library's own test suite rebuilt from the working tree in the two portable configurations the shipped build never
runs -- DISABLE_ASM with 64-bit words, and DISABLE_ASM without unsigned __int128 (32-bit words) -- must print only PASS lines.  Evidence at the level of
the test suite's sampling, nothing more; the proofs are the per-routine units."""
import os, subprocess, tempfile, shutil
from scen import ScenUnit, guarded
from jast import REPO, ExtractionError

P = ["C03"]


def gen(tu):
    for tag, flags in (("portable, 64-bit words (-DDISABLE_ASM)", "-DDISABLE_ASM"), ("portable, 32-bit words (-DDISABLE_ASM -U__SIZEOF_INT128__)", "-DDISABLE_ASM -U__SIZEOF_INT128__")):
        def run(path, tag=tag, flags=flags):
            wd = tempfile.mkdtemp(prefix="jpv.cfg.")
            try:
                # the working tree (not HEAD): copy the sources the tests' Makefile uses
                for d in ("include", "src", "tests"):
                    shutil.copytree(os.path.join(REPO, d), os.path.join(wd, d), symlinks=True, ignore=shutil.ignore_patterns("bin", "*.o", "*.a", "test"))
                tdir = os.path.join(wd, "tests")
                lib = os.path.join(tdir, "lib")
                if os.path.islink(lib) or not os.path.exists(lib):
                    if os.path.islink(lib):
                        os.unlink(lib)
                    os.symlink("..", lib)
                r = subprocess.run(["make", "-j8", "CXXFLAGS=-std=c++17 -I../include -O2 -fno-vectorize " + flags], cwd=tdir, capture_output=True, text=True, timeout=1500)
                if r.returncode != 0:
                    raise ExtractionError("test suite does not build in configuration %s: %s" % (tag, (r.stdout + r.stderr)[-600:]))
                obs = []
                for args in ([], ["wkdibe"]):
                    t = subprocess.run([os.path.join(tdir, "test")] + args, cwd=tdir, capture_output=True, text=True, timeout=1500)
                    out = t.stdout + t.stderr
                    np_, nf = out.count("PASS"), out.count("FAIL")
                    obs.append(("[%s] ./test %s: %d PASS, %d FAIL, exit %d" % (tag, " ".join(args), np_, nf, t.returncode), "ok" if (nf == 0 and np_ > 0 and t.returncode == 0) else "fail", out[-400:] if nf else "", None))
                return obs
            finally:
                shutil.rmtree(wd, ignore_errors=True)
        yield tag, guarded(run)


def units():
    u = ScenUnit("the library's test suite rebuilt in the portable 64-bit-word and 32-bit-word configurations: only PASS lines", P, gen, tier="thorough", kind="bounded",
                 bound="the pinned suite's own sampling (71 + 8 tests)", targets=[], note="bounded evidence; scratch build outside /repo and /verif, removed afterwards")
    u.back_end = "NATIVE"
    return [u]
