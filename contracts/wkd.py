"""C11-C14: WKD-IBE (src/wkdibe/api.cpp) at the GROUP rung.

Oracle (written from the scheme, BBG-HIBE with wildcards, and the documentation in
lang/go/wkdibe/wkdibe.go -- NOT from the code):

  params : g (G2), g1 = alpha*g, g2, g3, hsig, h_0..h_{l-1} (G1), pairing = e(g2, g1)
  msk    : alpha*g2
  WF(sk, P, rho)  for a slot pattern P in {free, fixed(id), hidden}^l :
           a0 = alpha*g2 + rho*(g3 + sum_{i fixed} id_i*h_i),  a1 = rho*g,
           b  = [(i, rho*h_i) : i free, ascending],  l = #free,
           bsig = rho*hsig if signatures else O
  pattern after an attribute list (keygen from the all-free pattern):
           listed with a value -> fixed(value); listed as omitFromKeys -> hidden;
           not listed -> unchanged, except that a free slot becomes hidden under omitAllFromKeysUnlessPresent
  permitted lists for a parent pattern: fixed slots repeated with an equal-mod-r value, hidden slots
  absent or hidden again, free slots: any of the three.

Every obligation is an equality of formal group elements (polynomial identity mod r, plus z3 for the
integer side conditions of the 256-bit scalar code), for ALL values of the symbols."""
import itertools
from poly import Poly
from symx import Interp, Leaf, Obj, Arr, Cell, Ptr, POISON, Finding
from groupdom import GroupDomain, Lin, pair, residual_check, path_feasible, R_ORDER, TWO256, P as PP
from scen import ScenUnit, guarded
import units as U

NS = "wkdibe::"
FREE, FIXED, HIDDEN = "free", "fixed", "hidden"
ALPHA = Poly.var("alpha")


class World:
    """formal public parameters + helpers to build argument objects for the real functions"""

    def __init__(self, tu, path, l, sig):
        self.tu, self.l, self.sig = tu, l, sig
        self.dom = GroupDomain(consts=U.SHARED.get("consts"))
        self.I = Interp(tu, self.dom)
        self.I.path = path
        self.I.scopes = ["wkdibe"]
        self.g = Lin.gen("g")
        self.g2, self.g3 = Lin.gen("g2"), Lin.gen("g3")
        self.hsig = Lin.gen("hsig") if sig else Lin()
        self.h = [Lin.gen("h%d" % i) for i in range(l)]
        self.inputs = set()

    # -- scalars --
    def _junk(self):
        self._nj = getattr(self, "_nj", 0) + 1
        return self._nj

    def id_(self, name):
        self.inputs.add(name)
        return self.dom.input_scalar(name)

    def rnd(self, name):
        self.dom.ranges[name] = (0, R_ORDER)
        return Poly.var(name)

    # -- objects --
    def new(self, t):
        return self.I.new_object(t)

    def gleaf(self, t, v):
        o = self.new(t)
        o.val = v
        return o

    def params(self):
        p = self.new(NS + "Params")
        p.f["g"].val = self.g
        p.f["g1"].val = self.g.scale(ALPHA)
        p.f["g2"].val = self.g2
        p.f["g3"].val = self.g3
        p.f["pairing"].val = pair(self.g2, self.g.scale(ALPHA))
        p.f["hsig"].val = self.hsig
        p.f["signatures"].v = 1 if self.sig else 0
        p.f["l"].v = self.l
        p.f["h"].v = Ptr(Arr("G1", [self.gleaf("G1", x) for x in self.h]), 0)
        return p

    def msk(self):
        m = self.new(NS + "MasterKey")
        m.f["g2alpha"].val = self.g2.scale(ALPHA)
        return m

    def attrs(self, items, omit_all, flagged=()):
        """items: [(idx, value Poly | None for omitFromKeys)] ascending; `flagged`: indices whose entry carries omitFromKeys together with a
        NON-ZERO id (the C++ API allows it; the flag concerns keys only, so encrypt / sign / verify / precompute must treat the entry like any other)"""
        arr = []
        for (idx, v) in items:
            a = self.new(NS + "Attribute")
            a.f["idx"].v = idx
            a.f["omitFromKeys"].v = 1 if (v is None or idx in flagged) else 0
            # an omitFromKeys entry's id is NOT assumed to be 0 (that is only the Go binding's convention): it is an arbitrary value the key
            # functions must ignore -- a fresh symbol no expected result mentions
            a.f["id"].val = self.id_("ignored_id%d_%d" % (idx, self._junk())) if v is None else v
            arr.append(a)
        al = self.new(NS + "AttributeList")
        al.f["attrs"].v = Ptr(Arr(NS + "Attribute", arr), 0)
        al.f["length"].v = len(items)
        al.f["omitAllFromKeysUnlessPresent"].v = 1 if omit_all else 0
        return al

    def prod(self, fixed):
        """g3 + sum id_i h_i"""
        acc = self.g3
        for i, v in fixed:
            acc = acc + self.h[i].scale(v)
        return acc

    def key(self, pattern, rho, cap=None, blank=False):
        """a well-formed key object for `pattern` with randomness rho (or a blank output object)"""
        free = [i for i, s in enumerate(pattern) if s[0] == FREE]
        k = self.new(NS + "SecretKey")
        cap = len(free) if cap is None else cap
        slots = [self.new(NS + "FreeSlot") for _ in range(cap)]
        k.f["b"].v = Ptr(Arr(NS + "FreeSlot", slots), 0) if cap else None
        if blank:
            return k
        fixed = [(i, s[1]) for i, s in enumerate(pattern) if s[0] == FIXED]
        k.f["a0"].val = self.g2.scale(ALPHA) + self.prod(fixed).scale(rho)
        k.f["a1"].val = self.g.scale(rho)
        k.f["l"].v = len(free)
        k.f["signatures"].v = 1 if self.sig else 0
        k.f["bsig"].val = self.hsig.scale(rho)
        for s, i in zip(slots, free):
            s.f["idx"].v = i
            s.f["hexp"].val = self.h[i].scale(rho)
        return k

    def call(self, name, *args):
        f = self.tu.func(NS + name)
        return self.I.call(f, None, list(args))

    # -- obligations --
    def same(self, oid, got, want, cx=None):
        """group-element equality for all symbol values under the path constraints"""
        if got is POISON or not isinstance(got, Lin):
            return (oid, "fail", "component never written / not a group element: %r" % (got,), cx)
        st, model = residual_check(self.dom, got - want, self.inputs)
        if st == "ok":
            return (oid, "ok", "== %r" % (want,), None)
        if st == "refuted":
            c = dict(cx or {})
            c["model"] = {k: str(v) for k, v in (model or {}).items()}
            c["got"], c["want"] = repr(got)[:600], repr(want)[:600]
            return (oid, "fail", "code - spec = %s ; inputs %s" % (repr(got - want)[:300], c["model"]), c)
        return (oid, "undecided", str(model), None)

    def eq_int(self, oid, got, want, cx=None):
        if got is POISON:
            return (oid, "fail", "never written (spec %r)" % (want,), cx)
        return (oid, "ok", "== %r" % (want,), None) if got == want else (oid, "fail", "got %r, spec %r" % (got, want), cx)

    def wf(self, key, pattern, rho, cx=None, prefix="key"):
        """obligations: key is WF(pattern, rho)"""
        obs = []
        free = [i for i, s in enumerate(pattern) if s[0] == FREE]
        fixed = [(i, s[1]) for i, s in enumerate(pattern) if s[0] == FIXED]
        obs.append(self.eq_int(prefix + ".l", key.f["l"].v, len(free), cx))
        obs.append(self.eq_int(prefix + ".signatures", key.f["signatures"].v, 1 if self.sig else 0, cx))
        obs.append(self.same(prefix + ".a0", key.f["a0"].val, self.g2.scale(ALPHA) + self.prod(fixed).scale(rho), cx))
        obs.append(self.same(prefix + ".a1", key.f["a1"].val, self.g.scale(rho), cx))
        obs.append(self.same(prefix + ".bsig", key.f["bsig"].val, self.hsig.scale(rho), cx))
        if key.f["l"].v == len(free):
            arr = key.f["b"].v.arr.items if key.f["b"].v is not None else []
            for j, i in enumerate(free):
                obs.append(self.eq_int(prefix + ".b[%d].idx" % j, arr[j].f["idx"].v, i, cx))
                obs.append(self.same(prefix + ".b[%d].hexp" % j, arr[j].f["hexp"].val, self.h[i].scale(rho), cx))
        return obs

    def rho_of(self, key):
        """the randomness of an output key, read off a1 = rho*g"""
        a1 = key.f["a1"].val
        if not isinstance(a1, Lin) or set(a1.t) - {"g"}:
            return None
        return a1.coeff("g")


# ---------------------------------------------------------------------------
# pattern algebra (specification side)
def apply_list(pattern, items, omit_all):
    listed = dict(items)
    out = []
    for i, s in enumerate(pattern):
        if i in listed:
            v = listed[i]
            if s[0] == FIXED:
                out.append(s)                                   # repeated with an equal value
            elif s[0] == HIDDEN:
                out.append((HIDDEN,))
            else:
                out.append((HIDDEN,) if v is None else (FIXED, v))
        else:
            out.append((HIDDEN,) if (s[0] == FREE and omit_all) else s)
    return out


def shapes(l):
    return list(itertools.product((FREE, FIXED, HIDDEN), repeat=l))


def mk_pattern(w, shape, tag="p"):
    return [(s, w.id_("%s%d" % (tag, i))) if s == FIXED else (s,) for i, s in enumerate(shape)]


def permitted_lists(w, pattern, tag="q", must_list_fixed=True, eqmod=False):
    """all permitted attribute-list shapes for a parent pattern: per slot a choice"""
    per_slot = []
    for i, s in enumerate(pattern):
        if s[0] == FIXED:
            v = s[1] + (R_ORDER if eqmod else 0)
            ch = [("val", v)] if must_list_fixed else [("val", v), ("absent", None)]
        elif s[0] == HIDDEN:
            ch = [("absent", None), ("hide", None)]
        else:
            ch = [("absent", None), ("hide", None), ("val", "new")]
        per_slot.append(ch)
    for combo in itertools.product(*per_slot):
        items = []
        for i, (k, v) in enumerate(combo):
            if k == "absent":
                continue
            if isinstance(v, str) and v == "new":
                v = w.id_("%s%d" % (tag, i))
            items.append((i, None if k == "hide" else v))
        yield combo, items


def ctag(combo):
    return "".join({"absent": "-", "hide": "h", "val": "v"}[k] for k, _ in combo)


def stag(shape):
    return "".join({FREE: "F", FIXED: "X", HIDDEN: "H"}[s] for s in shape)


# ---------------------------------------------------------------------------
def gen_keygen(which, L):
    def gen(tu):
        for l in range(0, L + 1):
            for sig in (0, 1):
                for shape in itertools.product(("absent", "hide", "val"), repeat=l):
                    for omit_all in (0, 1):
                        tag = "l=%d,sig=%d,list=%s,omitAll=%d" % (l, sig, "".join({"absent": "-", "hide": "h", "val": "v"}[k] for k in shape), omit_all)

                        def run(path, l=l, sig=sig, shape=shape, omit_all=omit_all):
                            w = World(tu, path, l, sig)
                            items = [(i, None if k == "hide" else w.id_("q%d" % i)) for i, k in enumerate(shape) if k != "absent"]
                            want = apply_list([(FREE,)] * l, items, omit_all)
                            nfree = sum(1 for s in want if s[0] == FREE)
                            sk = w.key(want, None, cap=nfree, blank=True)
                            cx = dict(op=which, l=l, sig=sig, items=[(i, None if v is None else repr(v)) for i, v in items], omit_all=omit_all)
                            if which == "keygen":
                                w.call("keygen", sk, w.params(), w.msk(), w.attrs(items, omit_all), Cell("rng"))
                                rho = w.rho_of(sk)
                                if rho is None or len(rho.vars()) != 1 or not rho.vars()[0].startswith("rnd#"):
                                    return [("a1.fresh-randomness", "fail", "a1 = %r is not (fresh randomness)*g" % (sk.f["a1"].val,), cx)]
                                obs = [("a1.fresh-randomness", "ok", "a1 = %r * g" % rho, None)]
                            else:
                                w.call("nondelegable_keygen", sk, w.params(), w.msk(), w.attrs(items, omit_all))
                                rho = Poly.const(1)
                                obs = []
                            return obs + w.wf(sk, want, rho, cx)
                        yield tag, guarded(run)
    return gen


def gen_qualify(which, L, eqmod=False):
    def gen(tu):
        for l in range(1, L + 1):
            for sig in (0, 1):
                for shape in shapes(l):
                    # enumerate list shapes with a throw-away world (symbols are recreated per run)
                    w0 = World(tu, None, l, sig)
                    p0 = mk_pattern(w0, shape)
                    for combo, _ in permitted_lists(w0, p0, eqmod=eqmod):
                        for omit_all in (0, 1):
                            tag = "l=%d,sig=%d,parent=%s,list=%s,omitAll=%d%s" % (l, sig, stag(shape), ctag(combo), omit_all, ",id+r" if eqmod else "")

                            def run(path, l=l, sig=sig, shape=shape, combo=combo, omit_all=omit_all):
                                w = World(tu, path, l, sig)
                                pat = mk_pattern(w, shape)
                                items = next(it for c, it in permitted_lists(w, pat, eqmod=eqmod) if c == combo)
                                want = apply_list(pat, items, omit_all)
                                nfree = sum(1 for s in want if s[0] == FREE)
                                rho = w.rnd("rho")
                                parent = w.key(pat, rho)
                                out = w.key(want, None, cap=nfree, blank=True)
                                cx = dict(op=which, l=l, sig=sig, parent=stag(shape), items=[(i, None if v is None else repr(v)) for i, v in items], omit_all=omit_all)
                                if which == "qualifykey":
                                    w.call("qualifykey", out, w.params(), parent, w.attrs(items, omit_all), Cell("rng"))
                                    r2 = w.rho_of(out)
                                    t = None if r2 is None else r2 - rho
                                    if t is None or len(t.vars()) != 1 or not t.vars()[0].startswith("rnd#") or t != Poly.var(t.vars()[0]):
                                        return [("a1.rerandomised", "fail", "a1 = %r is not (rho + fresh)*g" % (out.f["a1"].val,), cx)]
                                    obs = [("a1.rerandomised", "ok", "a1 = (rho + %r) * g" % t, None)]
                                else:
                                    w.call("nondelegable_qualifykey", out, w.params(), parent, w.attrs(items, omit_all))
                                    r2 = rho
                                    obs = []
                                return obs + w.wf(out, want, r2, cx)
                            yield tag, guarded(run)
    return gen


def units():
    us = []
    targets = lambda *n: [NS + x for x in n]
    lower = ["G1::multiply = (k mod r)*P (C06)", "Projective::add/copy = group law (C05)", "G2::multiply_frobenius = (k mod r)*Q (C06)", "PowersOfX::random: y uniform in [0,r), digits of y (C07)"]
    for (which, fn) in (("keygen", gen_keygen), ("nondelegable_keygen", gen_keygen)):
        us.append(ScenUnit("wkdibe::%s establishes WF (l<=3)" % which, ["C11", "C12", "C17"], fn(which, 3), kind="bounded", bound="slot count l <= 3 (all list shapes, both flags; values symbolic)",
                           targets=targets(which), contracts_used=lower))
        us.append(ScenUnit("wkdibe::%s establishes WF (l<=5)" % which, ["C11", "C12"], fn(which, 5), tier="thorough", kind="bounded", bound="slot count l <= 5",
                           targets=targets(which), contracts_used=lower))
    for which in ("qualifykey", "nondelegable_qualifykey"):
        us.append(ScenUnit("wkdibe::%s preserves WF (l<=3)" % which, ["C11", "C12", "C17"], gen_qualify(which, 3), kind="bounded", bound="slot count l <= 3 (all parent patterns x permitted lists x flags; values symbolic)",
                           targets=targets(which), contracts_used=lower))
        us.append(ScenUnit("wkdibe::%s preserves WF, ids repeated as id+r (l<=2)" % which, ["C11"], gen_qualify(which, 2, eqmod=True), kind="bounded", bound="slot count l <= 2",
                           targets=targets(which), contracts_used=lower))
        us.append(ScenUnit("wkdibe::%s preserves WF (l<=4)" % which, ["C11", "C12"], gen_qualify(which, 4), tier="thorough", kind="bounded", bound="slot count l <= 4",
                           targets=targets(which), contracts_used=lower))
    return us


# ---------------------------------------------------------------------------
# more scenario families
def _unpack_units(us):
    return us


def list_shapes(l, kinds=("absent", "val")):
    return list(itertools.product(kinds, repeat=l))


def mk_items(w, shape, tag):
    return [(i, None if k == "hide" else w.id_("%s%d" % (tag, i))) for i, k in enumerate(shape) if k != "absent"]


def fixed_of(pattern):
    return [(i, s[1]) for i, s in enumerate(pattern) if s[0] == FIXED]


def gen_adjust_nondelegable(L):
    """C14: adjust_nondelegable(NDQ(parent, from), parent, from, to) == NDQ(parent, to), component for component"""
    def gen(tu):
        for l in range(1, L + 1):
            for sig in (0, 1):
                for shape in shapes(l):
                    w0 = World(tu, None, l, sig)
                    p0 = mk_pattern(w0, shape)
                    combos = [c for c, _ in permitted_lists(w0, p0)]
                    for cf in combos:
                        for ct in combos:
                            tag = "l=%d,sig=%d,parent=%s,from=%s,to=%s" % (l, sig, stag(shape), ctag(cf), ctag(ct))

                            def run(path, l=l, sig=sig, shape=shape, cf=cf, ct=ct):
                                w = World(tu, path, l, sig)
                                pat = mk_pattern(w, shape)
                                fr = next(it for c, it in permitted_lists(w, pat, tag="f") if c == cf)
                                to = next(it for c, it in permitted_lists(w, pat, tag="t") if c == ct)
                                rho = w.rnd("rho")
                                parent = w.key(pat, rho)
                                nfree_parent = sum(1 for s in pat if s[0] == FREE)
                                sk = w.key(apply_list(pat, fr, 0), rho, cap=nfree_parent)
                                want = apply_list(pat, to, 0)
                                cx = dict(op="adjust_nondelegable", l=l, sig=sig, parent=stag(shape), frm=[(i, None if v is None else repr(v)) for i, v in fr],
                                          to=[(i, None if v is None else repr(v)) for i, v in to])
                                w.call("adjust_nondelegable", sk, parent, w.attrs(fr, 0), w.attrs(to, 0))
                                return w.wf(sk, want, rho, cx)
                            yield tag, guarded(run)
    return gen


def gen_precompute(L):
    def gen(tu):
        for l in range(0, L + 1):
            for shape in list_shapes(l, ("absent", "val", "hideval")):
                tag = "l=%d,list=%s" % (l, "".join({"absent": "-", "val": "v", "hideval": "w"}[k] for k in shape))

                def run(path, l=l, shape=shape):
                    w = World(tu, path, l, 1)
                    items = [(i, w.id_("q%d" % i), k == "hideval") for i, k in enumerate(shape) if k != "absent"]
                    al = w.attrs([(i, v) for i, v, _ in items], 0)
                    for a, (_, _, hid) in zip(al.f["attrs"].v.arr.items, items):
                        a.f["omitFromKeys"].v = 1 if hid else 0
                    pre = w.new(NS + "Precomputed")
                    w.call("precompute", pre, w.params(), al)
                    return [w.same("prodexp", pre.f["prodexp"].val, w.prod([(i, v) for i, v, _ in items]), dict(op="precompute", l=l, items=[(i, repr(v)) for i, v, _ in items]))]
                yield tag, guarded(run)
    return gen


def gen_adjust_precomputed(L):
    """C14: adjust_precomputed(precompute(from), from, to) == precompute(to)"""
    def gen(tu):
        for l in range(0, L + 1):
            for sf in list_shapes(l):
                for st in list_shapes(l):
                    tag = "l=%d,from=%s,to=%s" % (l, "".join("-v"[k == "val"] for k in sf), "".join("-v"[k == "val"] for k in st))

                    def run(path, l=l, sf=sf, st=st):
                        w = World(tu, path, l, 1)
                        fr, to = mk_items(w, sf, "f"), mk_items(w, st, "t")
                        pre = w.new(NS + "Precomputed")
                        pre.f["prodexp"].val = w.prod(fr)
                        cx = dict(op="adjust_precomputed", l=l, frm=[(i, repr(v)) for i, v in fr], to=[(i, repr(v)) for i, v in to])
                        w.call("adjust_precomputed", pre, w.params(), w.attrs(fr, 0), w.attrs(to, 0))
                        return [w.same("prodexp", pre.f["prodexp"].val, w.prod(to), cx)]
                    yield tag, guarded(run)
    return gen


def gen_resample(L):
    def gen(tu):
        for l in range(0, L + 1):
            for sig in (0, 1):
                for shape in shapes(l):
                    for support in (0, 1):
                        tag = "l=%d,sig=%d,key=%s,support=%d" % (l, sig, stag(shape), support)

                        def run(path, l=l, sig=sig, shape=shape, support=support):
                            w = World(tu, path, l, sig)
                            pat = mk_pattern(w, shape)
                            rho = w.rnd("rho")
                            sk = w.key(pat, rho)
                            want = pat if support else [(HIDDEN,) if s[0] == FREE else s for s in pat]
                            out = w.key(want, None, blank=True)
                            pre = w.new(NS + "Precomputed")
                            pre.f["prodexp"].val = w.prod(fixed_of(pat))
                            cx = dict(op="resamplekey", l=l, sig=sig, key=stag(shape), support=support)
                            w.call("resamplekey", out, w.params(), pre, sk, Cell(support), Cell("rng"))
                            r2 = w.rho_of(out)
                            t = None if r2 is None else r2 - rho
                            if t is None or len(t.vars()) != 1 or not t.vars()[0].startswith("rnd#") or t != Poly.var(t.vars()[0]):
                                return [("a1.rerandomised", "fail", "a1 = %r is not (rho + fresh)*g" % (out.f["a1"].val,), cx)]
                            return [("a1.rerandomised", "ok", "a1 = (rho + %r) * g" % t, None)] + w.wf(out, want, r2, cx)
                        yield tag, guarded(run)
    return gen


def encrypt_real(w, items, M, precomputed=False):
    ct = w.new(NS + "Ciphertext")
    msg = w.gleaf("Fq12", M)
    if precomputed:
        pre = w.new(NS + "Precomputed")
        pre.f["prodexp"].val = w.prod(items)
        w.call("encrypt_precomputed", ct, msg, w.params(), pre, Cell("rng"))
    else:
        w.call("encrypt", ct, msg, w.params(), w.attrs(items, 0), Cell("rng"))
    return ct


def ct_obligations(w, ct, items, M, cx):
    b = ct.f["b"].val
    if not isinstance(b, Lin) or set(b.t) - {"g"}:
        return None, [("ct.b", "fail", "b = %r is not s*g" % (b,), cx)]
    s = b.coeff("g")
    if len(s.vars()) != 1 or not s.vars()[0].startswith("rnd#") or s != Poly.var(s.vars()[0]):
        return None, [("ct.b", "fail", "b = %r: s is not fresh randomness" % (b,), cx)]
    obs = [("ct.b", "ok", "b = %r * g" % s, None),
           w.same("ct.a", ct.f["a"].val, M + pair(w.g2, w.g.scale(ALPHA)).scale(s), cx),
           w.same("ct.c", ct.f["c"].val, w.prod(items).scale(s), cx)]
    return s, obs


def gen_encdec(L):
    """C11/C14: decrypt(encrypt(M, S), WF(P, rho)) == M whenever S = fixed(P); decrypt_master likewise for every S;
    ciphertext structure; precomputed encryption identical"""
    def gen(tu):
        for l in range(0, L + 1):
            for shape in shapes(l):
                for pre in (0, 1):
                    tag = "l=%d,key=%s,precomputed=%d" % (l, stag(shape), pre)

                    def run(path, l=l, shape=shape, pre=pre):
                        w = World(tu, path, l, 0)
                        pat = mk_pattern(w, shape)
                        S = fixed_of(pat)
                        M = Lin.gen("M")
                        cx = dict(op="encrypt/decrypt", l=l, key=stag(shape), precomputed=pre)
                        ct = encrypt_real(w, S, M, pre)
                        s, obs = ct_obligations(w, ct, S, M, cx)
                        if s is None:
                            return obs
                        out = w.new("Fq12")
                        w.call("decrypt", out, ct, w.key(pat, w.rnd("rho")))
                        obs.append(w.same("decrypt", out.val, M, cx))
                        out2 = w.new("Fq12")
                        w.call("decrypt_master", out2, ct, w.msk())
                        obs.append(w.same("decrypt_master", out2.val, M, cx))
                        return obs
                    yield tag, guarded(run)
    return gen


def nonzero(oid, lin, what, cx):
    """generic-group reading: the residual is a non-zero polynomial in the formal discrete logs"""
    if isinstance(lin, Lin) and not lin.is_zero():
        return (oid, "ok", "%s: residual %s is not identically zero" % (what, repr(lin)[:120]), None)
    return (oid, "fail", "%s: residual vanishes identically (%r)" % (what, lin), cx)


def gen_mismatch(L):
    """C12: a key whose fixed pattern differs from the ciphertext list does not recover M; every ciphertext
    component enters the result non-trivially"""
    def gen(tu):
        for l in range(1, L + 1):
            for shape in shapes(l):
                for sshape in list_shapes(l, ("absent", "same", "other")):
                    if any(k == "same" and s != FIXED for k, s in zip(sshape, shape)):
                        continue
                    matching = all(k == ("same" if s == FIXED else "absent") for k, s in zip(sshape, shape))
                    tag = "l=%d,key=%s,ct=%s" % (l, stag(shape), "".join({"absent": "-", "same": "=", "other": "x"}[k] for k in sshape))

                    def run(path, l=l, shape=shape, sshape=sshape, matching=matching):
                        w = World(tu, path, l, 0)
                        pat = mk_pattern(w, shape)
                        S = []
                        for i, k in enumerate(sshape):
                            if k == "same":
                                S.append((i, pat[i][1]))
                            elif k == "other":
                                S.append((i, w.id_("s%d" % i)))
                        M = Lin.gen("M")
                        cx = dict(op="decrypt-mismatch", l=l, key=stag(shape), ct=list(sshape))
                        ct = encrypt_real(w, S, M)
                        key = w.key(pat, w.rnd("rho"))
                        out = w.new("Fq12")
                        w.call("decrypt", out, ct, key)
                        if matching:
                            obs = [w.same("decrypt", out.val, M, cx)]
                            for comp, gen_ in (("a", "dA"), ("b", "dB"), ("c", "dC")):
                                ct2 = w.I.clone(ct)
                                ct2.f[comp].val = ct2.f[comp].val + Lin.gen(gen_)
                                o2 = w.new("Fq12")
                                w.call("decrypt", o2, ct2, key)
                                obs.append(nonzero("modified-" + comp, o2.val - out.val, "ciphertext component %s changed" % comp, cx))
                            return obs
                        return [nonzero("mismatch", out.val - M, "key pattern differs from the ciphertext list", cx)]
                    yield tag, guarded(run)
    return gen


def gen_hidden_fill(L):
    """C12: no qualification step gives a hidden slot a value: the resulting key does not open ciphertexts in which the slot is set"""
    def gen(tu):
        for l in range(1, L + 1):
            for shape in shapes(l):
                hidden = [i for i, s in enumerate(shape) if s == HIDDEN]
                for hi in hidden:
                    for op in ("qualifykey", "nondelegable_qualifykey", "adjust_nondelegable"):
                        tag = "l=%d,key=%s,fill=%d,op=%s" % (l, stag(shape), hi, op)

                        def run(path, l=l, shape=shape, hi=hi, op=op):
                            w = World(tu, path, l, 0)
                            pat = mk_pattern(w, shape)
                            v = w.id_("v")
                            items = sorted(fixed_of(pat) + [(hi, v)])
                            rho = w.rnd("rho")
                            parent = w.key(pat, rho)
                            nfree = sum(1 for s in pat if s[0] == FREE)
                            cx = dict(op="hidden-fill:" + op, l=l, key=stag(shape), slot=hi)
                            if op == "adjust_nondelegable":
                                out = w.key(pat, rho, cap=nfree)
                                w.call(op, out, parent, w.attrs(fixed_of(pat), 0), w.attrs(items, 0))
                            else:
                                out = w.key(pat, None, cap=nfree, blank=True)
                                if op == "qualifykey":
                                    w.call(op, out, w.params(), parent, w.attrs(items, 0), Cell("rng"))
                                else:
                                    w.call(op, out, w.params(), parent, w.attrs(items, 0))
                            M = Lin.gen("M")
                            ct = encrypt_real(w, items, M)
                            res = w.new("Fq12")
                            w.call("decrypt", res, ct, out)
                            return [nonzero("cannot-open", res.val - M, "hidden slot %d assigned through %s" % (hi, op), cx)]
                        yield tag, guarded(run)
    return gen


def gen_sign(L):
    """C13: sign on a WF key for a list extending the key's fixed pattern on free slots only -> verify accepts;
    structure of the signature; different message / list / altered component -> verify rejects (generic)"""
    def gen(tu):
        for l in range(0, L + 1):
            for shape in shapes(l):
                ext_choices = [[0, 1] if s == FREE else [0] for s in shape]
                for ext in itertools.product(*ext_choices):
                    for mode in ("list", "null", "precomputed", "list-flagged"):
                        if mode == "null" and any(ext):
                            continue
                        if mode == "list-flagged" and not any(ext):
                            continue
                        tag = "l=%d,key=%s,extend=%s,mode=%s" % (l, stag(shape), "".join(map(str, ext)), mode)

                        def run(path, l=l, shape=shape, ext=ext, mode=mode):
                            w = World(tu, path, l, 1)
                            pat = mk_pattern(w, shape)
                            S = sorted(fixed_of(pat) + [(i, w.id_("e%d" % i)) for i, e in enumerate(ext) if e])
                            m = w.id_("m")
                            rho = w.rnd("rho")
                            key = w.key(pat, rho)
                            sig = w.new(NS + "Signature")
                            msg = w.gleaf("BigInt<256>", m)
                            cx = dict(op="sign/verify", l=l, key=stag(shape), extend=list(ext), mode=mode)
                            if mode == "null":
                                pre = w.new(NS + "Precomputed")
                                pre.f["prodexp"].val = w.prod(S)
                                w.call("sign_precomputed", sig, w.params(), key, None, pre, msg, Cell("rng"))
                            elif mode == "precomputed":
                                pre = w.new(NS + "Precomputed")
                                pre.f["prodexp"].val = w.prod(S)
                                w.call("sign_precomputed", sig, w.params(), key, Ptr(w.attrs(S, 0)), pre, msg, Cell("rng"))
                            elif mode == "list-flagged":
                                # the extension entries carry omitFromKeys (and a non-zero id): irrelevant for signing
                                w.call("sign", sig, w.params(), key, Ptr(w.attrs(S, 0, flagged=[i for i, e in enumerate(ext) if e])), msg, Cell("rng"))
                            else:
                                w.call("sign", sig, w.params(), key, Ptr(w.attrs(S, 0)), msg, Cell("rng"))
                            a1 = sig.f["a1"].val
                            if not isinstance(a1, Lin) or set(a1.t) - {"g"}:
                                return [("sig.a1", "fail", "a1 = %r is not (rho+s)*g" % (a1,), cx)]
                            r2 = a1.coeff("g")
                            t = r2 - rho
                            if len(t.vars()) != 1 or not t.vars()[0].startswith("rnd#") or t != Poly.var(t.vars()[0]):
                                return [("sig.a1", "fail", "a1 = %r is not (rho + fresh)*g" % (a1,), cx)]
                            obs = [("sig.a1", "ok", "a1 = (rho + %r)*g" % t, None)]
                            obs.append(w.same("sig.a0", sig.f["a0"].val, w.g2.scale(ALPHA) + (w.prod(S) + w.hsig.scale(m)).scale(r2), cx))
                            ok = w.call("verify", w.params(), w.attrs(S, 0), sig, msg)
                            obs.append(w.eq_int("verify(valid)", ok, 1, cx))
                            pre = w.new(NS + "Precomputed")
                            pre.f["prodexp"].val = w.prod(S)
                            ok = w.call("verify_precomputed", w.params(), pre, sig, msg)
                            obs.append(w.eq_int("verify_precomputed(valid)", ok, 1, cx))
                            # rejections (generic)
                            ok = w.call("verify", w.params(), w.attrs(S, 0), sig, w.gleaf("BigInt<256>", w.id_("m2")))
                            obs.append(w.eq_int("verify(other message)", ok, 0, cx))
                            for i in range(l):
                                listed = dict(S)
                                if i in listed:
                                    S2 = [(j, (w.id_("x%d" % i) if j == i else v)) for j, v in S]
                                    S3 = [(j, v) for j, v in S if j != i]
                                    obs.append(w.eq_int("verify(list: slot %d removed)" % i, w.call("verify", w.params(), w.attrs(S3, 0), sig, msg), 0, cx))
                                else:
                                    S2 = sorted(S + [(i, w.id_("x%d" % i))])
                                obs.append(w.eq_int("verify(list: slot %d changed)" % i, w.call("verify", w.params(), w.attrs(S2, 0), sig, msg), 0, cx))
                            for comp, g_ in (("a0", "dA"), ("a1", "dB")):
                                s2 = w.I.clone(sig)
                                s2.f[comp].val = s2.f[comp].val + Lin.gen(g_)
                                obs.append(w.eq_int("verify(%s altered)" % comp, w.call("verify", w.params(), w.attrs(S, 0), s2, msg), 0, cx))
                            return obs
                        yield tag, guarded(run)
    return gen


def gen_sign_incompatible(L):
    """C13: a signature made with a key whose pattern is incompatible with the list (a hidden slot set, a fixed slot
    missing or changed) does not verify under that list"""
    def gen(tu):
        for l in range(1, L + 1):
            for shape in shapes(l):
                for i, s in enumerate(shape):
                    if s == FREE:
                        continue
                    for how in (("set-hidden",) if s == HIDDEN else ("drop-fixed", "change-fixed")):
                        tag = "l=%d,key=%s,slot=%d,%s" % (l, stag(shape), i, how)

                        def run(path, l=l, shape=shape, i=i, how=how):
                            w = World(tu, path, l, 1)
                            pat = mk_pattern(w, shape)
                            S = dict(fixed_of(pat))
                            if how == "drop-fixed":
                                del S[i]
                            else:
                                S[i] = w.id_("y%d" % i)
                            S = sorted(S.items())
                            m = w.id_("m")
                            key = w.key(pat, w.rnd("rho"))
                            sig = w.new(NS + "Signature")
                            msg = w.gleaf("BigInt<256>", m)
                            w.call("sign", sig, w.params(), key, Ptr(w.attrs(S, 0)), msg, Cell("rng"))
                            ok = w.call("verify", w.params(), w.attrs(S, 0), sig, msg)
                            return [w.eq_int("verify(incompatible key)", ok, 0, dict(op="sign-incompatible", l=l, key=stag(shape), slot=i, how=how))]
                        yield tag, guarded(run)
    return gen


def more_units():
    us = []
    T = lambda *n: [NS + x for x in n]
    lower = ["G1::multiply = (k mod r)*P (C06)", "Projective::add/copy/from_projective/negate = group law (C05)", "G2::multiply_frobenius = (k mod r)*Q (C06)",
             "Fq12::exponentiate_gt = a^k, Fq12::multiply on GT (C07)", "pairing / pairing_product bilinear (C01, C08)", "BigInt<256>::add/subtract/equal integer contracts (C02)"]
    B = lambda n: "slot count l <= %d (all shapes; values symbolic)" % n
    mk = lambda label, props, gen, n, tier="quick", targets=(): us.append(ScenUnit(label + " (l<=%d)" % n, props, gen(n), tier=tier, kind="bounded", bound=B(n), targets=T(*targets), contracts_used=lower))
    mk("wkdibe::adjust_nondelegable == nondelegable_qualifykey(parent, to)", ["C14", "C11", "C12"], gen_adjust_nondelegable, 2, targets=["adjust_nondelegable"])
    mk("wkdibe::adjust_nondelegable == nondelegable_qualifykey(parent, to)", ["C14", "C11"], gen_adjust_nondelegable, 3, tier="thorough", targets=["adjust_nondelegable"])
    mk("wkdibe::precompute == g3 + sum id_i h_i", ["C14", "C12", "C13"], gen_precompute, 3, targets=["precompute"])      # encrypt, sign and verify bind the attribute list through it
    mk("wkdibe::adjust_precomputed == precompute(to)", ["C14", "C12"], gen_adjust_precomputed, 3, targets=["adjust_precomputed"])      # a wrong product is a ciphertext for another identity
    mk("wkdibe::adjust_precomputed == precompute(to)", ["C14", "C12"], gen_adjust_precomputed, 4, tier="thorough", targets=["adjust_precomputed"])
    mk("wkdibe::resamplekey preserves WF", ["C11", "C14"], gen_resample, 3, targets=["resamplekey"])
    mk("wkdibe::encrypt/decrypt/decrypt_master round trip", ["C11", "C14"], gen_encdec, 3, targets=["encrypt", "encrypt_precomputed", "decrypt", "decrypt_master"])
    mk("wkdibe::decrypt with a mismatching key / modified ciphertext", ["C12"], gen_mismatch, 2, targets=["encrypt", "decrypt"])
    mk("wkdibe::decrypt with a mismatching key / modified ciphertext", ["C12"], gen_mismatch, 3, tier="thorough", targets=["encrypt", "decrypt"])
    mk("wkdibe: hidden slots cannot be filled", ["C12"], gen_hidden_fill, 3, targets=["qualifykey", "nondelegable_qualifykey", "adjust_nondelegable", "decrypt"])
    mk("wkdibe::sign/verify", ["C13", "C14"], gen_sign, 3, targets=["sign", "sign_precomputed", "verify", "verify_precomputed"])
    mk("wkdibe::sign/verify", ["C13", "C14"], gen_sign, 4, tier="thorough", targets=["sign", "sign_precomputed", "verify", "verify_precomputed"])
    mk("wkdibe::sign with an incompatible key", ["C13"], gen_sign_incompatible, 3, targets=["sign", "verify"])
    return us


_units0 = units


def units():
    return _units0() + more_units()
