"""C04 (and the tower part of C18): Fq2 / Fq6 / Fq12 against their defining polynomials.

Each level is checked over an ABSTRACT commutative base ring (exact polynomial identities over Z,
hence valid in F_q, F_q2, F_q6): level 2 over B with u^2 = -1, level 6 over B2 with v^3 = xi,
level 12 over B6 with w^2 = v.  The specs are generated from the defining polynomial by
schoolbook multiplication + reduction, not transcribed formula by formula."""
from poly import Poly
from ringdom import RingDomain, RingUnit, Ctx
import tower_ref as TR

P = ["C04", "C18"]
XI = Poly.var("xi")     # the non-residue u+1 of level 6, as an abstract constant of B2
V = Poly.var("v")       # the element v of Fq6, as an abstract constant of B6


def ext_mul(a, b, beta):
    """product of sum a_i t^i and sum b_j t^j modulo t^n = beta (n = len(a))"""
    n = len(a)
    out = [Poly() for _ in range(n)]
    for i in range(n):
        for j in range(len(b)):
            t = a[i] * b[j]
            if i + j >= n:
                t = t * beta
            out[(i + j) % n] = out[(i + j) % n] + t
    return out


LEVELS = {
    "Fq2": dict(leaf="Fq", comps=["c0", "c1"], beta=Poly.const(-1), nonres_self=[Poly.const(1), Poly.const(1)]),          # x(1+u)
    "Fq6": dict(leaf="Fq2", comps=["c0", "c1", "c2"], beta=XI, nonres_self=[Poly.const(0), Poly.const(1), Poly.const(0)]),  # x v
    "Fq12": dict(leaf="Fq6", comps=["c0", "c1"], beta=V, nonres_self=None),
}
_CONSTS = [None]


class LazyConsts:
    """resolved at first use inside a run (units.get_consts needs tu/workdir)"""


def dom(level, extra_leaf=(), obj_contracts=None):
    L = LEVELS[level]
    return lambda: RingDomain({L["leaf"], "BigInt<384>", "BigInt<256>", "BigInt<64>"} | set(extra_leaf),
                              nonres={"Fq2": XI, "Fq6": V}, consts=_CONSTS[0] or __import__("units").SHARED.get("consts"), obj_contracts=obj_contracts)


def vec(c, who, L):
    return [c.inp(who + "." + k) for k in L["comps"]]


def out(L, vals, who="this"):
    return {who + "." + k: v for k, v in zip(L["comps"], vals)}


def specs(level):
    L = LEVELS[level]
    beta = L["beta"]
    S = {}
    S["add"] = lambda c: out(L, [x + y for x, y in zip(vec(c, "a", L), vec(c, "b", L))])
    S["subtract"] = lambda c: out(L, [x - y for x, y in zip(vec(c, "a", L), vec(c, "b", L))])
    S["multiply2"] = lambda c: out(L, [x * 2 for x in vec(c, "a", L)])
    S["negate"] = lambda c: out(L, [-x for x in vec(c, "a", L)])
    S["copy"] = lambda c: out(L, vec(c, "a", L))
    S["multiply"] = lambda c: out(L, ext_mul(vec(c, "a", L), vec(c, "b", L), beta))
    S["square"] = lambda c: out(L, ext_mul(vec(c, "a", L), vec(c, "a", L), beta))
    if L["nonres_self"]:
        S["multiply_by_nonresidue"] = lambda c: out(L, ext_mul(vec(c, "a", L), L["nonres_self"], beta))
    return S


def spec_inverse(level):
    L = LEVELS[level]

    def s(c):
        a = vec(c, "a", L)
        # a * res = 1 : check res against the spec "the unique inverse" through  a*res - 1 == 0 (mod N t = 1)
        # the obligation is phrased on the product, so return expected PRODUCT components via the pseudo-paths
        return None
    return s


def inverse_unit(level, tier="quick"):
    """obligation: a * inverse(a) = 1 for a != 0 (norm invertible), and inverse(0) = 0"""
    L = LEVELS[level]

    class InvUnit(RingUnit):
        def __init__(self):
            RingUnit.__init__(self, level + "::inverse", P, dom(level), None, tier=tier,
                              contracts_used=["%s::%s" % (L["leaf"], m) for m in ("multiply", "square", "add", "subtract", "negate", "inverse", "multiply_by_nonresidue")])

        def run(self, tu, workdir):
            import ringdom
            # run generic machinery with a spec that post-multiplies
            def spec(c):
                a = vec(c, "a", L)
                return {"__product__": a}
            self.spec = spec
            return run_inverse(self, tu, workdir, L)
    return InvUnit()


def run_inverse(unit, tu, workdir, L):
    import time
    from symx import Interp, Leaf, POISON, Path, Finding, SymxError
    from ringdom import leaves_of, reduce_relations, param_names
    from jast import ExtractionError
    t0 = time.time()
    failed = []
    n_ob = n_ok = 0
    samples = []
    try:
        f = tu.func(unit.target)
        for pat in ({}, {"a": "this"}):
            ptag = "this=a" if pat else "distinct"
            for zero_input in (False, True):
                d = unit.dom_factory()
                I = Interp(tu, d)
                I.path = Path([])
                I.scopes = [f.record.qname]
                this = I.new_object(f.record.qname)
                a = this if pat else I.new_object(f.record.qname)
                for p, lf in leaves_of(a, "a", {}).items():
                    lf.val = Poly.const(0) if zero_input else Poly.var(p)
                pre = [a.f[k].val for k in L["comps"]]
                fin = None
                try:
                    I.call(f, this, [a])
                except Finding as e:
                    fin = e
                oid = "%s[%s]{%s}" % (unit.name(), ptag, "a=0" if zero_input else "a!=0")
                if fin is not None:
                    n_ob += 1
                    failed.append((oid + ".no-ub", str(fin), ""))
                    continue
                for (k, msg) in d.findings:
                    n_ob += 1
                    failed.append((oid + "." + k, msg, "/* restrict */" if k == "restrict" else ""))
                res = [this.f[k].val for k in L["comps"]]
                if zero_input:
                    for k, v in zip(L["comps"], res):
                        n_ob += 1
                        if isinstance(v, Poly) and v.is_zero():
                            n_ok += 1
                        else:
                            failed.append((oid + ".this." + k, "inverse(0) component is %r, spec 0" % (v,), ""))
                    continue
                prod = ext_mul(pre, res, L["beta"])
                want = [Poly.const(1)] + [Poly.const(0)] * (len(pre) - 1)
                for k, g, w in zip(L["comps"], prod, want):
                    n_ob += 1
                    dd = reduce_relations(g - w, d.relations)
                    if dd.is_zero():
                        n_ok += 1
                        samples.append("%s: (a * inverse(a)).%s == %r modulo N*inv(N)=1" % (oid, k, w))
                    else:
                        failed.append((oid + ".product." + k, "a*inverse(a) component differs: %s" % repr(dd)[:200], ""))
    except (SymxError, ExtractionError, KeyError) as e:
        import traceback
        return dict(unit=unit, status="undecided", reason=str(e), obligations=n_ob, discharged=n_ok, failed=[], wall_s=time.time() - t0, log=traceback.format_exc())
    return dict(unit=unit, status="fail" if failed else "pass", reason="", obligations=n_ob, discharged=n_ok, failed=failed, wall_s=time.time() - t0,
                log="\n".join(map(str, failed)), samples=samples)


def units():
    us = []
    for level in ("Fq2", "Fq6", "Fq12"):
        L = LEVELS[level]
        S = specs(level)
        used = ["%s::%s" % (L["leaf"], m) for m in ("add", "subtract", "multiply", "square", "multiply2", "negate", "copy", "multiply_by_nonresidue")]
        for m, sp in S.items():
            us.append(RingUnit(level + "::" + m, P, dom(level), sp, contracts_used=used))
        us.append(inverse_unit(level))
    # sparse products
    L6, L12 = LEVELS["Fq6"], LEVELS["Fq12"]
    us.append(RingUnit("Fq6::multiply_by_c1", P, dom("Fq6"),
                       lambda c: out(L6, ext_mul(vec(c, "a", L6), [Poly.const(0), c.inp("c1"), Poly.const(0)], XI))))
    us.append(RingUnit("Fq6::multiply_by_c01", P, dom("Fq6"),
                       lambda c: out(L6, ext_mul(vec(c, "a", L6), [c.inp("c0"), c.inp("c1"), Poly.const(0)], XI))))
    us.append(RingUnit("Fq12::multiply_by_c014", P + ["C01"], dom("Fq12", extra_leaf=["Fq2"]),
                       lambda c: out(L12, ext_mul(vec(c, "a", L12), [c.inp("c0") + c.inp("c1") * V, c.inp("c4") * V], V)),
                       note="callee contracts: Fq6::multiply_by_c01(a,c0,c1) = a*(c0 + c1 v), Fq6::multiply_by_c1(a,c4) = a*(c4 v)"))
    us.append(RingUnit("Fq12::conjugate", P, dom("Fq12"), lambda c: {"this.c0": c.inp("a.c0"), "this.c1": -c.inp("a.c1")}))
    us.append(RingUnit("Fq2::norm", P, dom("Fq2"), lambda c: {"result": c.inp("this.c0") * c.inp("this.c0") + c.inp("this.c1") * c.inp("this.c1")}))
    return us


# ---------------------------------------------------------------------------
# Frobenius maps: frobenius_map(a, k) == a^(q^k) for EVERY a and every unsigned k.
# The q-power map is F_q-linear, so it is decided by (1) the real code, executed symbolically over F_q leaves, computes an F_q-linear
# map of its input whose matrix entries are products of the table constants, and (2) that matrix, evaluated with the dumped table
# values, equals the matrix of x -> x^(q^k) computed in the reference tower (x^q by square-and-multiply on the basis, then k-fold
# composition).  Index reduction (power & 1, power % 6, power % 12) is covered by testing k beyond the table sizes.
def frobenius_units():
    from symx import Interp, Leaf, Cell
    from ringdom import leaves_of
    from scen import ScenUnit, guarded
    import tower_ref as TR
    import units as U

    DIM = {"Fq2": 2, "Fq6": 6, "Fq12": 12}
    LVL = {"Fq2": 2, "Fq6": 6, "Fq12": 12}
    cache = {}

    def ref_matrix(level):
        """columns: image of the i-th basis vector (flat coordinates) under x -> x^q"""
        if level not in cache:
            n = DIM[level]
            cols = []
            for i in range(n):
                e = TR.from_flat(LVL[level], [1 if j == i else 0 for j in range(n)])
                cols.append(list((e ** TR.Q).flat()))
            cache[level] = cols
        return cache[level]

    def apply(cols, vec):
        n = len(vec)
        return [sum(cols[i][r] * vec[i] for i in range(n)) % TR.Q for r in range(n)]

    def gen(level):
        def g(tu):
            f = tu.func(level + "::frobenius_map")
            n = DIM[level]
            for k in list(range(0, 26)) + [29, 35, 47, 1000002, 4294967294, 4294967295]:
                def run(path, k=k):
                    d = RingDomain({"Fq", "BigInt<384>"}, consts=U.SHARED.get("consts"))
                    I = Interp(tu, d)
                    I.path = path
                    I.scopes = [level]
                    this, a = I.new_object(level), I.new_object(level)
                    names = []
                    for p, lf in leaves_of(a, "a", {}).items():
                        lf.val = Poly.var(p)
                        names.append(p)
                    I.call(f, this, [a, Cell(k)])
                    outs = [lf.val for p, lf in leaves_of(this, "this", {}).items()]
                    # flat order of leaves_of matches tower_ref.flat(): c0.c0.c0, c0.c0.c1, ...
                    cols = ref_matrix(level)
                    obs = []
                    lin = True
                    M = [[0] * n for _ in range(n)]
                    for r, o in enumerate(outs):
                        if not isinstance(o, Poly):
                            return [("output written", "fail", repr(o), None)]
                        for mono, c in o.t.items():
                            avars = [(v, e) for (v, e) in mono if v in names]
                            kvars = [(v, e) for (v, e) in mono if v not in names]
                            if len(avars) != 1 or avars[0][1] != 1:
                                lin = False
                                continue
                            val = c % TR.Q
                            for (v, e) in kvars:
                                sv = d.sym_values.get(v)
                                if sv is None:
                                    lin = False
                                    continue
                                val = val * pow(sv.c[0], e, TR.Q) % TR.Q
                            M[names.index(avars[0][0])][r] = (M[names.index(avars[0][0])][r] + val) % TR.Q
                    obs.append(("frobenius_map(., %d) is an F_q-linear map of its input" % k, "ok" if lin else "fail", "", None))
                    order = {"Fq2": 2, "Fq6": 6, "Fq12": 12}[level]
                    ok = True
                    for i in range(n):
                        v = [1 if j == i else 0 for j in range(n)]
                        for _ in range(k % order):
                            v = apply(cols, v)
                        if M[i] != v:
                            ok = False
                    obs.append(("matrix of frobenius_map(., %d) == matrix of x -> x^(q^%d) (reference tower)" % (k, k), "ok" if ok else "fail", "", None))
                    return obs
                yield "%s power=%d" % (level, k), guarded(run)
        return g
    us = []
    for level in ("Fq2", "Fq6", "Fq12"):
        us.append(ScenUnit(level + "::frobenius_map == q^k-power map (all inputs, all powers)", ["C04"], gen(level), targets=[level + "::frobenius_map"],
                           contracts_used=["Fq::multiply / copy (C02)", "x -> x^q is F_q-linear (field theory)"]))
    return us


_tu0 = units


def units():
    return _tu0() + frobenius_units()


# ---------------------------------------------------------------------------
# Fq12::square_cyclotomic(a) == a^2 for every a of the cyclotomic subgroup G = { a : a^(q^4 - q^2 + 1) == 1 }.
# The real body is executed with the twelve F_q coordinates of a as indeterminates (RING back end, Fq leaves): S_j(x), quadratic.
# With the F_q-linear Frobenius matrices of the reference tower, R(x) = Frob^4(a) * a - Frob^2(a) is a vector of twelve quadratic polynomials
# that vanishes exactly on G (and at 0).  Decided: every coordinate of S(x) - a^2 is an F_q-linear combination of the R_i (linear algebra
# modulo q on the coefficient vectors; the combination is found and then re-checked), hence S == a^2 wherever R == 0.
def cyclotomic_units():
    from symx import Interp, Leaf, Cell
    from ringdom import leaves_of
    from scen import ScenUnit, guarded
    import tower_ref as TR
    import units as U
    Qm = TR.Q

    def mulq(x, y):
        return x * y

    def fq2_mul(a, b):
        return (a[0] * b[0] - a[1] * b[1], a[0] * b[1] + a[1] * b[0])

    def fq2_add(a, b):
        return (a[0] + b[0], a[1] + b[1])

    def fq2_nonres(a):                       # * (u + 1)
        return (a[0] - a[1], a[0] + a[1])

    def fq6_mul(a, b):
        t = [[fq2_mul(a[i], b[j]) for j in range(3)] for i in range(3)]
        c0 = fq2_add(t[0][0], fq2_nonres(fq2_add(t[1][2], t[2][1])))
        c1 = fq2_add(fq2_add(t[0][1], t[1][0]), fq2_nonres(t[2][2]))
        c2 = fq2_add(fq2_add(t[0][2], t[1][1]), t[2][0])
        return (c0, c1, c2)

    def fq6_add(a, b):
        return tuple(fq2_add(x, y) for x, y in zip(a, b))

    def fq6_nonres(a):                       # * v
        return (fq2_nonres(a[2]), a[0], a[1])

    def fq12_mul(a, b):
        return (fq6_add(fq6_mul(a[0], b[0]), fq6_nonres(fq6_mul(a[1], b[1]))), fq6_add(fq6_mul(a[0], b[1]), fq6_mul(a[1], b[0])))

    def nest(flat):
        f = list(flat)
        return tuple(tuple((f[6 * i + 2 * j], f[6 * i + 2 * j + 1]) for j in range(3)) for i in range(2))

    def flat(n):
        return [n[i][j][k] for i in range(2) for j in range(3) for k in range(2)]

    def gen(tu):
        f = tu.func("Fq12::square_cyclotomic")
        for alias in (False, True):
            def run(path, alias=alias):
                d = RingDomain({"Fq", "BigInt<384>"}, consts=U.SHARED.get("consts"))
                I = Interp(tu, d)
                I.path = path
                I.scopes = ["Fq12"]
                a = I.new_object("Fq12")
                this = a if alias else I.new_object("Fq12")
                names = []
                for p, lf in leaves_of(a, "a", {}).items():
                    lf.val = Poly.var(p)
                    names.append(p)
                X = [Poly.var(p) for p in names]
                I.call(f, this, [a])
                S = [lf.val for p, lf in leaves_of(this, "this", {}).items()]
                if len(S) != 12 or any(not isinstance(o, Poly) for o in S):
                    return [("all twelve coordinates written", "fail", repr(S)[:200], None)]
                if any(v not in names for o in S for v in o.vars()):
                    return [("square_cyclotomic is a polynomial map of the coordinates of a", "fail", "foreign symbols", None)]
                A = nest(X)
                A2 = flat(fq12_mul(A, A))
                # Frobenius matrices of the reference tower (columns: images of the basis vectors under x -> x^q)
                cols = []
                for i in range(12):
                    e = TR.from_flat(12, [1 if j == i else 0 for j in range(12)])
                    cols.append(list((e ** TR.Q).flat()))

                def frob(vec):
                    return [sum((vec[i] * cols[i][r] for i in range(12)), Poly()) for r in range(12)]
                F1 = frob(X)
                F2 = frob(F1)
                F4 = frob(frob(F2))
                prod = flat(fq12_mul(nest(F4), A))
                R = [prod[r] - F2[r] for r in range(12)]
                red = lambda p: {m: c % Qm for m, c in p.t.items() if c % Qm}
                Rv = [red(r) for r in R]
                obs = []
                mons = sorted({m for r in Rv for m in r} | {m for j in range(12) for m in red(S[j] - A2[j])}, key=repr)
                # Gaussian elimination modulo q: columns = R_i, rows = monomials
                for j in range(12):
                    Dj = red(S[j] - A2[j])
                    rows = [[Rv[i].get(m, 0) for i in range(12)] + [Dj.get(m, 0)] for m in mons]
                    lam = solve_mod(rows, 12, Qm)
                    ok = lam is not None
                    if ok:
                        chk = {}
                        for i in range(12):
                            for m, c in Rv[i].items():
                                chk[m] = (chk.get(m, 0) + lam[i] * c) % Qm
                        ok = {m: c for m, c in chk.items() if c} == Dj
                    obs.append(("coordinate %d of square_cyclotomic(a) - a^2 is an F_q-combination of the coordinates of Frob^4(a)*a - Frob^2(a)%s" % (j, " [out = a]" if alias else ""), "ok" if ok else "fail", "", None))
                # sanity of the relation itself on a concrete element of G: g = z^((q^12-1)/Phi) for a pseudo-random z
                import random
                rnd = random.Random(11)
                z = TR.from_flat(12, [rnd.randrange(Qm) for _ in range(12)])
                g = z ** ((Qm ** 12 - 1) // (Qm ** 4 - Qm ** 2 + 1))
                env = dict(zip(names, g.flat()))
                obs.append(("the relation vanishes on a concrete element of the subgroup and not on a random element", "ok" if all(r.eval(env, Qm) == 0 for r in R) and any(r.eval(dict(zip(names, z.flat())), Qm) != 0 for r in R) else "fail", "", None))
                return obs
            yield "square_cyclotomic%s" % (" [out = a]" if alias else ""), guarded(run)
    return [ScenUnit("Fq12::square_cyclotomic == squaring on the cyclotomic subgroup (all elements with a^(q^4-q^2+1) == 1)", ["C04", "C07"], gen, targets=["Fq12::square_cyclotomic"],
                     contracts_used=["Fq2 operations (C04 units) executed as real bodies over F_q leaves", "Frobenius = q-power map, F_q-linear (field theory)"])]


def solve_mod(rows, n, q):
    """rows: [coefficients of n unknowns..., rhs] modulo the prime q; returns a solution list or None"""
    rows = [[x % q for x in r] for r in rows]
    piv = []
    rr = 0
    for col in range(n):
        p = None
        for i in range(rr, len(rows)):
            if rows[i][col]:
                p = i
                break
        if p is None:
            continue
        rows[rr], rows[p] = rows[p], rows[rr]
        inv = pow(rows[rr][col], -1, q)
        rows[rr] = [(x * inv) % q for x in rows[rr]]
        for i in range(len(rows)):
            if i != rr and rows[i][col]:
                m = rows[i][col]
                rows[i] = [(x - m * y) % q for x, y in zip(rows[i], rows[rr])]
        piv.append((rr, col))
        rr += 1
    for i in range(rr, len(rows)):
        if rows[i][n]:
            return None
    sol = [0] * n
    for r, c in piv:
        sol[c] = rows[r][n]
    return sol


_tu1 = units


def units():
    return _tu1() + cyclotomic_units()


# ---------------------------------------------------------------------------
# The tower's PREDICATES (equal, is_zero, is_one): every unit above treats them as abstract decisions; here their bodies are put under contract.
#   F::equal(a, b)  <=>  every pair of corresponding F_q coordinates is equal        F::is_zero()  <=>  every coordinate is zero
# RING back end with F_q leaves: coordinates are distinct indeterminates, so each leaf-level test is a recorded decision about one polynomial.
# On every path:  a result `true` must rest on decisions that establish ALL n coordinate facts (a_i - b_i == 0, resp. a_i == 0, each for its own i);
# a result `false` must rest on a decision that refutes ONE of them.  A body that tests a coordinate twice and another one never, or compares
# a.c0 with b.c1, has a path whose verdict is not supported by its decisions.
def gen_tower_predicates(tu):
    from symx import Interp, Leaf, Obj
    from ringdom import leaves_of
    from scen import guarded
    for F in ("Fq2", "Fq6", "Fq12"):
        for pred in ("equal", "is_zero"):
            qs = [q for q in tu.by_qname if q == "%s::%s" % (F, pred) and tu.by_qname[q].body is not None]
            if not qs:
                continue
            f = tu.func(qs[0])

            def run(path, f=f, F=F, pred=pred):
                dom = RingDomain({"Fq"})
                I = Interp(tu, dom)
                I.path = path
                a, b = I.new_object(F), I.new_object(F)
                la, lb = leaves_of(a, "a", {}), leaves_of(b, "b", {})
                for k, (nm, lf) in enumerate(sorted(la.items())):
                    lf.val = Poly.var("a%d" % k)
                for k, (nm, lf) in enumerate(sorted(lb.items())):
                    lf.val = Poly.var("b%d" % k)
                n = len(la)
                before = len(path.trace)
                ret = I.call(f, None, [a, b]) if pred == "equal" else I.call(f, a, [])
                ret = 1 if I.rv(ret) else 0
                facts = {}
                for (lab, d) in path.trace[before:]:
                    if isinstance(lab, tuple) and lab and lab[0] == "is_zero":
                        facts[lab[2] if isinstance(lab[2], Poly) else lab[-1]] = bool(d)
                want = [(Poly.var("a%d" % k) - Poly.var("b%d" % k)) if pred == "equal" else Poly.var("a%d" % k) for k in range(n)]

                def known(p):
                    for q_, v in facts.items():
                        if isinstance(q_, Poly) and ((q_ - p).is_zero() or (q_ + p).is_zero()):
                            return v
                    return None
                ks = [known(p) for p in want]
                if ret:
                    ok = all(v is True for v in ks)
                    msg = "returns true although coordinates %s were never established %s" % ([k for k, v in enumerate(ks) if v is not True], "equal" if pred == "equal" else "zero")
                else:
                    ok = any(v is False for v in ks)
                    msg = "returns false although no coordinate was found %s" % ("different" if pred == "equal" else "non-zero")
                return [("%s::%s: the verdict rests on the right coordinate facts (%d coordinates)" % (F, pred, n), "ok" if ok else "fail", "" if ok else msg, None)]
            yield "%s::%s" % (F, pred), guarded(run)


_tu2 = units


def units():
    from scen import ScenUnit
    return _tu2() + [ScenUnit("tower predicates: Fq2 / Fq6 / Fq12 equal and is_zero decide every coordinate", ["C04", "C05", "C09"], gen_tower_predicates, max_paths=20000,
                              contracts_used=["Fq::equal / Fq::is_zero (C02: BigInt compare / is_zero, BV units)"],
                              note="the units of the upper layers treat these predicates as abstract decisions; this unit is where their bodies are enforced")]


# the curve layer's small accessors (one-liners every unit above treats as given): is_zero of both point forms, copy
def gen_curve_accessors(tu):
    from symx import Interp, Leaf, Obj, Cell
    from ringdom import leaves_of
    from scen import guarded
    for F in ("Fq", "Fq2"):
        pj = "Projective<%s>" % F
        af = [q.split("::")[0] for q in tu.by_qname if q.startswith("Affine<%s," % F) and q.endswith("::is_zero")]
        for T in [pj] + af[:1]:
            fz = tu.by_qname.get(T + "::is_zero")
            fc = tu.by_qname.get(T + "::copy")
            if fz is None or fz.body is None or fc is None or fc.body is None:
                continue

            def run_zero(path, T=T, fz=fz, proj=(T == pj)):
                dom = RingDomain({F})
                I = Interp(tu, dom)
                I.path = path
                o = I.new_object(T)
                for k, (nm, lf) in enumerate(sorted(leaves_of(o, "o", {}).items())):
                    if isinstance(lf, Leaf):
                        lf.val = Poly.var("%s" % nm.split(".")[-1])
                if not proj:
                    flag = I.path.decide(("input", "infinity flag"), (0, 1))
                    o.f["infinity"].v = flag
                before = len(path.trace)
                ret = 1 if I.rv(I.call(tu.func(T + "::is_zero"), o, [])) else 0
                if not proj:
                    return [("%s::is_zero == the infinity flag" % T, "ok" if ret == flag else "fail", "flag %d, returned %d" % (flag, ret), None)]
                facts = [(lab, d) for (lab, d) in path.trace[before:] if isinstance(lab, tuple) and lab and lab[0] == "is_zero"]
                ok = len(facts) == 1 and isinstance(facts[0][0][2], Poly) and ((facts[0][0][2] - Poly.var("z")).is_zero() or (facts[0][0][2] + Poly.var("z")).is_zero()) and bool(facts[0][1]) == bool(ret)
                return [("%s::is_zero <=> z == 0" % T, "ok" if ok else "fail", repr([(repr(l[2]), d) for l, d in facts]), None)]
            yield T + "::is_zero", guarded(run_zero)

            def run_copy(path, T=T):
                dom = RingDomain({F})
                I = Interp(tu, dom)
                I.path = path
                a, o = I.new_object(T), I.new_object(T)
                la = leaves_of(a, "a", {})
                for k, (nm, lf) in enumerate(sorted(la.items())):
                    if isinstance(lf, Leaf):
                        lf.val = Poly.var("a%d" % k)
                    else:
                        lf.v = 1
                for nm, lf in leaves_of(o, "a", {}).items():
                    if isinstance(lf, Leaf):
                        lf.val = Poly.var("old")
                    else:
                        lf.v = 0
                I.call(tu.func(T + "::copy"), o, [a])
                lo = leaves_of(o, "a", {})
                bad = [nm for nm in la if (isinstance(la[nm], Leaf) and not (lo[nm].val - la[nm].val).is_zero()) or (isinstance(la[nm], Cell) and lo[nm].v != la[nm].v)]
                return [("%s::copy copies every member" % T, "ok" if not bad else "fail", repr(bad), None)]
            yield T + "::copy", guarded(run_copy)


_tu3 = units


def units():
    from scen import ScenUnit
    return _tu3() + [ScenUnit("curve accessors: Projective / Affine is_zero and copy", ["C05", "C06", "C09"], gen_curve_accessors,
                              contracts_used=["F::is_zero (this module / C02)"], note="one-line members that every unit above takes as given")]
