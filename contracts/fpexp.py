"""C02 / C04 (exponentiation, Legendre symbol, square roots, cyclotomic map): exponent view and RING structure.

exponentiate_restrict: the square-and-multiply loop is cut at its head; in the exponent view of the multiplicative group
(multiply = +, square = *2, one = 0) the step obligation  acc' = 2*acc + bit  holds for every bit and every accumulator, so
res = a^power for every power (Horner).  The users fix the exponent constants, which are closed facts checked against the reference
primes:  legendre: (p-1)/2 and the 0 / 1 / -1 mapping (Euler's criterion: textbook);  Fq::square_root: (q+1)/4 (q = 3 mod 4: textbook);
Fq2::square_root: the Adj / Rodriguez-Henriquez algorithm 9 structure with (q-3)/4 and (q-1)/2;  Fr::square_root: Tonelli-Shanks
constants (r-1 = 2^32 t, (t+1)/2, a primitive 2^32-th root of unity);  map_to_cyclotomic: exponent (q^6-1)(q^2+1)."""
from poly import Poly
from symx import Interp, Leaf, Obj, Arr, Cell, Ptr, POISON, SymxError, CutDone, loops_of, locals_of, run_iteration, for_parts, loop_var
from groupdom import GroupDomain, LinZ, LinE
from groupdom import LinZ as Lin
from ringdom import RingDomain, leaves_of
from scen import ScenUnit, guarded
from bvspec import Q, R
import units as U
from scalarmul import lin_eq, run_cut, norm

FTYPES = {"Fq": 384, "Fr": 256, "Fq2": 384, "Fp<384, fq_modulus_var, fq_R_var, fq_R2_var, fq_inv_var>": 384, "Fp<256, fr_modulus_var, fr_R_var, fr_R2_var, fr_inv_var>": 256}


class ExpoDomain(GroupDomain):
    """multiplicative group of a field, written additively over formal bases"""

    def __init__(self, ftypes, **kw):
        GroupDomain.__init__(self, extra_leaf=tuple(ftypes), **kw)
        self.ftypes = set(ftypes)

    def zero(self, t):
        return Lin() if t in self.ftypes else GroupDomain.zero(self, t)

    def global_object(self, I, qn, ts):
        o = I.new_object(ts)
        if isinstance(o, Leaf) and o.type in self.ftypes:
            if qn.split("::")[-1] != "one":
                raise SymxError("field constant %s in the exponent view" % qn)
            o.val = Lin()
            return o
        return GroupDomain.global_object(self, I, qn, ts)

    def method(self, I, f, this, args):
        if this.type in self.ftypes:
            n = f.name
            v = lambda i: self.val(args[i])
            if n == "copy":
                this.val = v(0)
            elif n == "square":
                this.val = v(0).scale(2)
            elif n == "multiply":
                this.val = v(0) + v(1)
            else:
                raise SymxError("%s in the exponent view" % f.qname)
            return None
        return GroupDomain.method(self, I, f, this, args)


class SpyExpo(ExpoDomain):
    """+ a record of which exponent bits are read"""

    def __init__(self, *a, **kw):
        ExpoDomain.__init__(self, *a, **kw)
        self.queries = []

    def big_method(self, I, f, this, args):
        if f.name == "bit":
            self.queries.append(I.rv(args[0]))
        return ExpoDomain.big_method(self, I, f, this, args)


def exp_functions(tu):
    return sorted(q for q, f in tu.by_qname.items() if (q.startswith("exponentiate_restrict(") or q.startswith("exponentiate(")) and f.body is not None)


def ftype_of(f):
    return norm(f.param_type(0))


def gen_exponentiate(tu):
    for q in exp_functions(tu):
        f = tu.func(q)
        F = tu.canon(ftype_of(f))
        bits = int(__import__("re").search(r"BigInt<(\d+)>", f.param_type(2)).group(1))
        if q.startswith("exponentiate_restrict("):
            loop = loops_of(f)[0]
            names = locals_of(f)

            def counter_of(n):
                """the loop counter: the variable a for-init declares, else the integer local the loop condition reads"""
                try:
                    return loop_var(n)
                except SymxError:
                    pass
                init, cond, inc, body = for_parts(n)
                ids = []

                def walk(x):
                    if x.get("kind") == "DeclRefExpr" and x.get("referencedDecl", {}).get("kind") == "VarDecl" and x["referencedDecl"].get("type", {}).get("qualType") == "int":
                        ids.append(x["referencedDecl"]["id"])
                    for c_ in x.get("inner", []) or []:
                        walk(c_)
                walk(cond)
                if len(set(ids)) != 1:
                    raise SymxError("loop counter of exponentiate_restrict not identified")
                return ids[0]

            def run(path, f=f, F=F, bits=bits, loop=loop, names=names):
                dom = SpyExpo([F], consts=U.SHARED.get("consts"))
                I = Interp(tu, dom)
                I.path = path
                A = Lin.gen("a")
                res, a = I.new_object(F), I.new_object(F)
                a.val = A
                k = I.new_object("BigInt<%d>" % bits)
                k.val = 0

                # Loop contract, independent of how the loop is spelled (for / while, counter = index or index + 1): with m the exponent bit the
                # next iteration reads,   res == a^(power >> (m+1)),   found_one == (power >> (m+1) != 0);   the first iteration reads bit bits-1,
                # an iteration that read bit m >= 1 is followed by one that reads bit m-1, the one that read bit 0 is the last.
                def cut(I_, n, env):
                    init, cond, inc, body = for_parts(n)
                    if init.get("kind"):
                        I_.exec(init, env)
                    cv = counter_of(n)
                    c_init = env[cv].v
                    obs = [lin_eq("base: res == 1", res.val, Lin()), ("base: found_one == false", "ok" if env[names["found_one"]].v == 0 else "fail", "", None)]
                    mode = I_.path.decide(("cut", "mode"), ("base", "step", "exit"))
                    if mode == "base":
                        dom.queries = []
                        went = run_iteration(I_, n, env)
                        raise CutDone(obs + [("base: the first iteration reads bit bits-1 (and only that bit)", "ok" if went and dom.queries == [bits - 1] else "fail", repr(dom.queries), None)])
                    # the counter value at which bit m is read: c_init - (bits-1) + m   (offset fixed by the base case, which is checked above)
                    at = lambda m: c_init - (bits - 1) + m
                    if mode == "exit":
                        env[cv].v = at(0)
                        env[names["found_one"]].v = 1
                        res.val = A.scale(Poly.var("R"))
                        dom.queries = []
                        went = run_iteration(I_, n, env)
                        q1 = list(dom.queries)
                        dom.queries = []
                        again = run_iteration(I_, n, env)
                        raise CutDone([("exit: the iteration that reads bit 0 runs", "ok" if went and q1 == [0] else "fail", repr(q1), None),
                                       ("exit: it is the last one (guard false afterwards, no further bit read)", "ok" if (not again) and dom.queries == [] else "fail", repr(dom.queries), None)])
                    b = I_.path.decide(("cut", "bit"), (0, 1))
                    f1 = I_.path.decide(("cut", "found_one"), (0, 1))
                    i0 = I_.path.decide(("cut", "bit index"), tuple(range(1, bits)))     # every index: the counter is concrete control state
                    env[cv].v = at(i0)
                    env[names["found_one"]].v = f1
                    k.val = b << i0
                    Rr = Poly.var("R") if f1 else Poly.const(0)
                    res.val = A.scale(Rr)
                    dom.queries = []
                    went = run_iteration(I_, n, env)
                    q1 = list(dom.queries)
                    got, fo = res.val, env[names["found_one"]].v
                    dom.queries = []
                    k.val = 0
                    again = run_iteration(I_, n, env)
                    raise CutDone([("step: guard holds", "ok" if went else "fail", "", None),
                                   ("step: reads exactly bit m", "ok" if q1 == [i0] else "fail", "m = %d, read %r" % (i0, q1), None),
                                   lin_eq("step[bit=%d,found_one=%d]: acc' == acc^2 * a^bit" % (b, f1), got, A.scale(2 * Rr + b)),
                                   ("step: found_one'", "ok" if fo == (1 if (f1 or b) else 0) else "fail", "", None),
                                   ("step: the next iteration reads bit m-1", "ok" if again and dom.queries == [i0 - 1] else "fail", repr(dom.queries), None)])
                I.loop_cuts[loop["id"]] = cut
                return run_cut(I, f, None, [res, a, k])
            yield q[:60], guarded(run)
        else:
            for alias in (False, True):
                def run(path, f=f, F=F, bits=bits, alias=alias):
                    calls = []

                    def er(I_, f_, this, args):
                        args[0].val = I_.dom.val(args[1]).scale(I_.dom.sval(args[2]))
                        calls.append(args[0] is args[1])
                    er.raw = True
                    oc = {x: er for x in tu.by_qname if x.startswith("exponentiate_restrict(")}
                    unmet = []

                    def gt_only(I_, f_, this, args):
                        # contract of the target-group fast paths (C07): requires a in the order-r subgroup; ensures this == a^(k mod r).
                        # `exponentiate` is specified for EVERY field element, so its body cannot establish that precondition.
                        unmet.append(f_.qname)
                        this.val = I_.dom.val(args[0]).scale(I_.dom.sval(args[1]))
                    gt_only.raw = True
                    oc.update({x: gt_only for x in tu.by_qname if x.startswith("Fq12::exponentiate_gt")})
                    dom = ExpoDomain([F], consts=U.SHARED.get("consts"), obj_contracts=oc)
                    I = Interp(tu, dom)
                    I.path = path
                    a = I.new_object(F)
                    a.val = Lin.gen("a")
                    res = a if alias else I.new_object(F)
                    k = I.new_object("BigInt<%d>" % bits)
                    k.val = Poly.var("k")
                    I.call(f, None, [res, a, k], force_body=True)
                    return [lin_eq("exponentiate%s: res == a^k" % (" (res aliases a)" if alias else ""), res.val, Lin.gen("a").scale(Poly.var("k"))),
                            ("the __restrict callee is given distinct objects", "ok" if calls == [False] else "fail", repr(calls), None),
                            ("every callee's precondition is established for an arbitrary field element", "ok" if not unmet else "fail",
                             "calls %s, whose contract requires an element of the order-r target group" % ", ".join(unmet), None)]
                yield q[:50] + (" [res=a]" if alias else ""), guarded(run)


def gen_constants(tu):
    def run(path):
        dom = GroupDomain(consts=U.SHARED.get("consts"))
        c = dom.consts
        chk = lambda w, ok: (w, "ok" if ok else "fail", "", None)
        RQ, RR = pow(2, 384, Q), pow(2, 256, R)
        obs = [chk("Fq::square_root exponent == (q+1)/4, q == 3 (mod 4)", c.value("fq_qminusthreeoverfourplusone") == (Q + 1) // 4 and Q % 4 == 3),
               chk("Fq2::square_root exponents == (q-3)/4 and (q-1)/2", c.value("fq2_qminusthreeoverfour") == (Q - 3) // 4 and c.value("fq2_qminusoneovertwo") == (Q - 1) // 2)]
        t = c.value("fr_t_constant")
        obs.append(chk("Fr: r - 1 == 2^32 * t with t odd", (R - 1) == (t << 32) and t % 2 == 1))
        obs.append(chk("Fr: (t+1)/2 constant", c.value("fr_tplusoneovertwo") == (t + 1) // 2))
        z = c.value("fr_root_of_unity") * pow(RR, -1, R) % R          # out of Montgomery form
        obs.append(chk("Fr: root of unity has exact order 2^32", pow(z, 1 << 32, R) == 1 and pow(z, 1 << 31, R) != 1))
        obs.append(chk("Montgomery constants: fq_R == 2^384 mod q, fq_R2 == R^2 mod q, fq_inv * q == -1 (mod 2^64)", c.value("fq_R_var") == RQ and c.value("fq_R2_var") == RQ * RQ % Q and (c.value("fq_inv_var") * Q + 1) % (1 << 64) == 0 and c.value("fq_modulus_var") == Q))
        obs.append(chk("Montgomery constants: fr_R == 2^256 mod r, fr_R2 == R^2 mod r, fr_inv * r == -1 (mod 2^64)", c.value("fr_R_var") == RR and c.value("fr_R2_var") == RR * RR % R and (c.value("fr_inv_var") * R + 1) % (1 << 64) == 0 and c.value("fr_modulus_var") == R))
        return obs
    yield "closed facts", guarded(run)


def gen_legendre(tu):
    for q, p in (("Fp<384, fq_modulus_var, fq_R_var, fq_R2_var, fq_inv_var>::legendre", Q), ("Fp<256, fr_modulus_var, fr_R_var, fr_R2_var, fr_inv_var>::legendre", R)):
        def run(path, q=q, p=p):
            f = tu.func(q)
            F = f.record.qname
            d = RingDomain({F, "BigInt<384>", "BigInt<256>"}, consts=U.SHARED.get("consts"))
            seen = []

            def expo(I_, dd, f_, args):
                seen.append(dd.val(args[2]))
                args[0].val = dd.sym("pow", dd.val(args[1]), dd.val(args[2]))
            d.free_contracts["exponentiate"] = expo
            orig_big = d.big_method

            def big(I_, f_, this, args):
                if f_.name == "subtract":
                    this.val = d.val(args[0]) - d.val(args[1])
                    return 0
                if f_.name.startswith("shift_right_in_word"):
                    v = d.val(args[0])
                    this.val = v >> 1
                    return (v & 1) << 63
                return orig_big(I_, f_, this, args)
            d.big_method = big
            I = Interp(tu, d)
            I.path = path
            I.scopes = [F]
            this = I.new_object(F)
            this.val = Poly.var("a")
            ret = I.call(f, this, [], force_body=True)
            dec = dict((lab[1], dd) for (lab, dd) in path.trace if isinstance(lab, tuple) and lab[0] == "is_zero")
            z, o = dec.get("is_zero"), dec.get("is_one")
            want = 0 if z else (1 if o else -1)
            return [("exponent == (p-1)/2", "ok" if seen == [(p - 1) // 2] else "fail", repr(seen), None),
                    ("a^((p-1)/2) == 0 -> 0, == 1 -> 1, otherwise -1", "ok" if ret == want else "fail", "returned %r on path %r" % (ret, dec), None)]
        yield q[:40], guarded(run)


def gen_cyclotomic(tu):
    from pairing_c import ExpDomain, N12

    def run(path):
        dom = ExpDomain(consts=U.SHARED.get("consts"))
        I = Interp(tu, dom)
        I.path = path
        f = tu.func("Fq12::map_to_cyclotomic")
        this, a = I.new_object("Fq12"), I.new_object("Fq12")
        a.val = 1
        I.call(f, this, [a], force_body=True)
        want = ((Q ** 6 - 1) * (Q ** 2 + 1)) % N12
        return [("map_to_cyclotomic(a) == a^((q^6-1)(q^2+1))", "ok" if this.val == want else "fail", "", None)]
    yield "exponent view", guarded(run)


def _replay_exponentiate(rec, unit, result, fresh, tu, wd, cx):
    """native: the real unqualified call exponentiate(res, a, k) -- resolved by the compiler exactly as at a caller's site -- against repeated F::multiply,
    for the field type and exponent width named in the refuted obligation; a is an element with 2 in its first and last base-field coordinate"""
    import re, replay as R_
    m = None
    for f in fresh:
        m = re.search(r"\[exponentiate(?:_restrict)?\((\w+) &, const \w+ &, const BigInt<(\d+)", str(f[0]))
        if m:
            break
    if not m:
        return False
    F, bits = m.group(1), int(m.group(2))
    if bits < 64:
        bits = {"Fq": 384, "Fr": 256}.get(F, 256)      # the label is abbreviated; every instantiated width of this field type is tried below
    widths = sorted({int(x) for q in tu.by_qname for x in re.findall(r"^exponentiate(?:_restrict)?\(%s &, const %s &, const BigInt<(\d+)>" % (F, F), q)}) or [bits]
    base = "Fr" if F == "Fr" else "Fq"
    ks = [5, 0x1234567, (1 << 61) - 1]
    lines = [R_.unity_source(), "#include <stdio.h>", "#include <string.h>", "using namespace embedded_pairing; using namespace embedded_pairing::core; using namespace embedded_pairing::bls12_381;",
             "template <typename T> static void ref_pow(T& r, const T& a, uint64_t k){ r.copy(T::one); for (int i = 63; i >= 0; i--) { T t; t.multiply(r, r); r.copy(t); if ((k >> i) & 1) { t.multiply(r, a); r.copy(t); } } }",
             "int main(){ %s two; two.add(%s::one, %s::one); %s a; a.copy(%s::one); a.add(a, a); memcpy((char*)&a + sizeof(%s) - sizeof(%s), &two, sizeof(%s));" % (base, base, base, F, F, F, base, base)]
    n = 0
    for w in widths:
        for k in ks:
            lines.append("  { BigInt<%d> k; memset(&k, 0, sizeof k); uint64_t kv = %dULL; memcpy(&k, &kv, 8); %s got, want; exponentiate(got, a, k); ref_pow(want, a, kv); printf(\"r%d %%d\\n\", memcmp(&got, &want, sizeof got) == 0 ? 1 : 0); }" % (w, k, F, n))
            n += 1
    lines.append("  return 0; }")
    native, err = R_.run_native("\n".join(lines), wd, "exponentiate_native")
    rec["native_driver_error"] = err
    if native is None:
        return False
    n = 0
    for w in widths:
        for k in ks:
            if native.get("r%d" % n) == [0]:
                rec["native_finding"] = "real code: exponentiate(res, a, k) with a in %s (coordinates 2, 0, ..., 0, 2), k = %d held in a BigInt<%d> differs from the product of k copies of a (F::multiply)" % (F, k, w)
                rec["confirmed_on_real_code"] = True
                return True
            n += 1
    rec["confirmed_on_real_code"] = False
    return False


def units():
    lower = ["F::multiply / square / copy (field layer: C02, C04)", "Horner's rule (paper)"]
    e = ScenUnit("exponentiate_restrict / exponentiate == a^power (every instantiation; loop cut)", ["C02", "C04", "C18"], gen_exponentiate, contracts_used=lower)
    e.replay_hook = _replay_exponentiate
    return [e,
            ScenUnit("field constants: Montgomery parameters, square-root and Legendre exponents, Tonelli-Shanks constants", ["C02", "C04"], gen_constants, contracts_used=["native constant dump vs reference primes"]),
            ScenUnit("Fp::legendre: exponent (p-1)/2 and the 0 / 1 / -1 mapping", ["C02"], gen_legendre, contracts_used=lower + ["Euler's criterion (textbook)"]),
            ScenUnit("Fq12::map_to_cyclotomic exponent", ["C04"], gen_cyclotomic, contracts_used=["Fq12 operations on discrete logs (C04)"])]


# ---------------------------------------------------------------------------
# square roots: structure in the exponent view (real bodies, constant exponents executed bit by bit), incl. out = a where permitted
def gen_sqrt(tu):
    for alias in (False, True):
        def run(path, alias=alias):
            dom = ExpoDomain(["Fq"], consts=U.SHARED.get("consts"))
            I = Interp(tu, dom)
            I.path = path
            f = tu.func("Fq::square_root")
            a = I.new_object("Fq")
            a.val = Lin.gen("a")
            this = a if alias else I.new_object("Fq")
            I.call(f, this, [a], force_body=True)
            obs = [lin_eq("Fq::square_root%s == a^((q+1)/4)" % (" (out = a)" if alias else ""), this.val, Lin.gen("a").scale((Q + 1) // 4))]
            obs += [(k, "fail", m, None) for (k, m) in dom.findings]
            return obs
        yield "Fq::square_root" + (" [out=a]" if alias else ""), guarded(run)


def gen_doubleadd_wrappers(tu):
    from groupdom import Lin
    """Projective::multiply_doubleadd(base, k): the base is copied first, so out = base is fine (C18) and the restrict callee gets distinct objects"""
    for q in sorted(x for x in tu.by_qname if "::multiply_doubleadd(" in x and tu.by_qname[x].body is not None):
        f = tu.func(q)
        for alias in (False, True):
            def run(path, f=f, q=q, alias=alias):
                calls = []

                def restricted(I_, f_, this, args):
                    calls.append(this is args[0])
                    if this is args[0]:
                        I_.dom.findings.append(("restrict", "%s called with its __restrict base aliasing the written object" % f_.qname))
                    this.val = I_.dom.gval(args[0]).scale(I_.dom.sval(args[1]))
                restricted.raw = True
                oc = {x: restricted for x in tu.by_qname if "::multiply_doubleadd_restrict(" in x}
                dom = GroupDomain(consts=U.SHARED.get("consts"), obj_contracts=oc)
                I = Interp(tu, dom)
                I.path = path
                bt = norm(f.param_type(0))
                base = I.new_object(bt)
                base.val = Lin.gen("P")
                same_type = (I.canon(bt) == I.canon(f.record.qname)) or isinstance(base, Leaf) and base.type == I.new_object(f.record.qname).type
                if alias and not same_type:
                    return []
                this = base if alias else I.new_object(f.record.qname)
                k = I.new_object("BigInt<256>")
                k.val = Poly.var("k")
                I.call(f, this, [base, k, Cell(255)], force_body=True)
                obs = [lin_eq("multiply_doubleadd%s == k*P" % (" (out = base)" if alias else ""), this.val, Lin.gen("P").scale(Poly.var("k")))]
                obs += [(kd, "fail", m, None) for (kd, m) in dom.findings]
                return obs
            yield q[:70] + (" [out=base]" if alias else ""), guarded(run)


_xu0 = units


def units():
    return _xu0() + [ScenUnit("Fq::square_root == a^((q+1)/4), also in place", ["C02", "C18"], gen_sqrt, targets=["Fq::square_root"], contracts_used=["Fq::multiply / square / copy", "q = 3 mod 4: a^((q+1)/4) is a root of a square (textbook)"]),
                     ScenUnit("Projective::multiply_doubleadd copies the base (out = base allowed)", ["C06", "C18"], gen_doubleadd_wrappers, contracts_used=["multiply_doubleadd_restrict (loop-cut unit)"])]


# ---------------------------------------------------------------------------
# Fq2::square_root: the real body computes the Adj / Rodriguez-Henriquez formula (q = 3 mod 4):
#   a == 0 -> 0;   a1 = a^((q-3)/4), alpha = a1^2 * a, x0 = a1 * a;   alpha == -1 ? x = u * x0 : x = (1 + alpha)^((q-1)/2) * x0
# RING back end over an abstract commutative ring with `exponentiate` an uninterpreted power symbol: the returned expression is compared, as a
# polynomial in a, u and the power symbols, with the formula.  Why the formula is a root of every square a (paper, standard):
#   alpha = a^((q-1)/2), so alpha^(q+1) = a^((q^2-1)/2) = 1;  x0^2 = alpha * a;  u^2 = -1 gives the first case;
#   ((1+alpha)^((q-1)/2))^2 = (1+alpha)^q / (1+alpha) = (1 + alpha^-1) / (1 + alpha) = alpha^-1 gives the second.
def gen_fq2_sqrt(tu):
    from symx import Leaf, Obj
    f = tu.func("Fq2::square_root")
    E1, E2 = (Q - 3) // 4, (Q - 1) // 2
    expq = [q for q in tu.by_qname if q.startswith("exponentiate(") and "Fq2" in q]
    if not expq:
        import jast
        raise jast.ExtractionError("exponentiate instance for Fq2 not found")

    def cmul(x, y):
        return (x[0] * y[0] - x[1] * y[1], x[0] * y[1] + x[1] * y[0])

    def run(path):
        pows = []

        def expo(I_, f_, this, args):
            dd = I_.dom
            base = (dd.val(args[1].f["c0"]), dd.val(args[1].f["c1"]))
            k = dd.val(args[2])
            pows.append((base, k))
            args[0].f["c0"].val = dd.sym("pow.c0", base[0], base[1], k)
            args[0].f["c1"].val = dd.sym("pow.c1", base[0], base[1], k)
        expo.raw = True
        d = RingDomain({"Fq", "BigInt<384>"}, consts=U.SHARED.get("consts"), obj_contracts={q: expo for q in expq})
        I = Interp(tu, d)
        I.path = path
        I.scopes = ["Fq2"]
        this, a = I.new_object("Fq2"), I.new_object("Fq2")
        A = (Poly.var("a0"), Poly.var("a1"))
        a.f["c0"].val, a.f["c1"].val = A
        I.call(f, this, [a], force_body=True)
        out = (this.f["c0"].val, this.f["c1"].val)
        dec = {}
        for (lab, dd_) in path.trace:
            if isinstance(lab, tuple) and lab[0] == "is_zero":
                dec[_k(lab[2])] = dd_
        chk = lambda w, ok, m="": (w, "ok" if ok else "fail", "" if ok else m, None)

        def decided(p, val):
            return dec.get(_k(p)) == val or dec.get(_k(-p)) == val
        if not pows:
            return [chk("no power computed: only when a == 0 (both components decided zero), and then the root returned is a", decided(A[0], True) and decided(A[1], True) and out == A, repr(out)[:200])]
        obs = [chk("a != 0 on this path", not (decided(A[0], True) and decided(A[1], True))),
               chk("first power: a^((q-3)/4)", pows[0][0] == A and pows[0][1] == E1, repr(pows[0])[:200])]
        a1 = (d.sym("pow.c0", A[0], A[1], E1), d.sym("pow.c1", A[0], A[1], E1))
        alpha = cmul(cmul(a1, a1), A)
        x0 = cmul(a1, A)
        is_m1 = decided(alpha[0] + 1, True) and decided(alpha[1], True)
        not_m1 = decided(alpha[0] + 1, False) or decided(alpha[1], False)
        if len(pows) == 1:
            obs.append(chk("u-branch is taken only when alpha == -1 (both components decided: alpha.c0 + 1 == 0 and alpha.c1 == 0), alpha = a1^2 * a", is_m1, repr(sorted(dec.items(), key=repr))[:300]))
            obs.append(chk("u-branch: root == u * a1 * a", out == (-x0[1], x0[0]), repr(out)[:300]))
        else:
            b1 = (alpha[0] + 1, alpha[1])
            obs.append(chk("general branch is taken only when alpha != -1 (one of the two component equalities decided false)", not_m1 and not is_m1))
            obs.append(chk("general branch: second power is (1 + alpha)^((q-1)/2)", len(pows) == 2 and pows[1][0] == b1 and pows[1][1] == E2, repr(pows[1])[:300]))
            bb = (d.sym("pow.c0", b1[0], b1[1], E2), d.sym("pow.c1", b1[0], b1[1], E2))
            obs.append(chk("general branch: root == (1 + alpha)^((q-1)/2) * a1 * a", out == cmul(bb, x0), repr(out)[:300]))
        return obs
    yield "Fq2::square_root", guarded(run)


def _k(p):
    return frozenset(p.t.items()) if isinstance(p, Poly) else p


_xu1 = units


def units():
    return _xu1() + [ScenUnit("Fq2::square_root computes the Adj / Rodriguez-Henriquez formula (exponents, branch on alpha == -1, factor u)", ["C04", "C02"], gen_fq2_sqrt, targets=["Fq2::square_root"],
                              contracts_used=["Fq2 ring operations (C04)", "exponentiate == power (C02 loop-cut unit)", "the formula yields a root of every square when q == 3 (mod 4) (paper, in the module text)"])]
