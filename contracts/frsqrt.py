"""C02 (square root in the scalar field): Fr::square_root is Tonelli-Shanks with r - 1 = 2^32 * t, t odd.

Contract: for every non-zero square a, the returned x satisfies x^2 == a; square_root(0) == 0.  (For non-squares nothing is claimed.)

Deductive argument with a LOOP CUT on the outer loop, in the exponent view of F_r^* (cyclic): every value the function handles is
a^alpha * c0^gamma with c0 the library's 2^32-th root of unity (exact order 2^32: closed fact, contracts/fpexp.py), alpha an integer and
gamma an integer modulo 2^32 (symbolic polynomial).  Because a is a square, a^t lies in <c0^2>: a^t == c0^tau with tau even.
Invariant at the head of the outer loop (m the program variable, 1 <= m <= 32):
    this == a^((t+1)/2) * c0^g            c == c0^(2^(32-m) * kappa), kappa odd            t == c0^(tau + 2g) and tau + 2g == 2^(33-m) * eps  (mod 2^32)
The first and third give this^2 == a * t; the third says t lies in <c^2>.  is_one() on such a value is decided by the 2-adic valuation of
its exponent, which is syntactic once eps is written 2^(m-1-i) * odd for the order 2^i of t.  For every m in 2..32 and every i in 0..m-1 the REAL
loop body is executed once from the arbitrary invariant state (all symbols free) and must re-establish the invariant with m' = i (so m
strictly decreases: termination), or leave the loop when t == 1 with this^2 == a.  Base: the real prologue establishes it with m == 32.

Assumed callee contracts: exponentiate == power (C02 loop-cut unit), Fr::multiply / square (C02 word-level units), is_one / copy."""
import re
from poly import Poly
from symx import Interp, Leaf, Obj, Cell, POISON, SymxError, CutDone, loops_of, locals_of, for_parts, run_iteration
from ringdom import RingDomain
from scen import ScenUnit, guarded, Abandon
import units as U
import bvspec

P = ["C02"]
R = bvspec.R
TWO32 = 1 << 32
T_ODD = (R - 1) >> 32
FR = "Fr"


class El:
    """a^alpha * c0^gamma  (gamma: polynomial, taken modulo 2^32)"""
    __slots__ = ("alpha", "gamma")

    def __init__(self, alpha, gamma):
        self.alpha = alpha
        g = gamma if isinstance(gamma, Poly) else Poly.const(gamma)
        self.gamma = Poly({m: c % TWO32 for m, c in g.t.items() if c % TWO32})

    def __mul__(self, o):
        return El(self.alpha + o.alpha, self.gamma + o.gamma)

    def pow(self, k):
        return El(self.alpha * k, self.gamma * k)

    def __repr__(self):
        return "a^%d * c0^(%r)" % (self.alpha, self.gamma)


def always_odd(h):
    """h is odd for every integer assignment of its symbols: odd constant term, every other coefficient even"""
    return h.t.get((), 0) % 2 == 1 and all(c % 2 == 0 for m, c in h.t.items() if m)


def valuation_is_zero_mod(g, odd_syms=None):
    """g (normal form modulo 2^32) == 0 for all assignments: iff it is the zero polynomial -> True.
    g != 0 for all assignments: if g == 2^v * h with v < 32 and h always odd -> False.  Otherwise undecided (None).
    (Odd quantities are written 2x + 1 by the unit, so parity is syntactic.)"""
    if g.is_zero():
        return True
    v = min((c & -c).bit_length() - 1 for c in g.t.values())
    h = Poly({m: c >> v for m, c in g.t.items()})
    if v < 32 and always_odd(h):
        return False
    return None


class SylowDomain(RingDomain):
    def __init__(self, odd_syms, consts=None):
        RingDomain.__init__(self, {FR, "BigInt<256>"}, consts=consts)
        self.odd = set(odd_syms)
        self.asked = []

        def expo(I_, dd, f_, args):
            base, k = dd.val(args[1]), dd.val(args[2])
            if not isinstance(base, El) or not isinstance(k, int):
                raise SymxError("exponentiate on %r ^ %r" % (base, k))
            args[0].val = base.pow(k)
        self.free_contracts["exponentiate"] = expo

    def zero(self, t):
        return POISON

    def leaf_from_init(self, I, t, src):
        if isinstance(src, Leaf):
            src = src.val
        if t == FR and isinstance(src, int):
            # Fr c = {{{.val = fr_root_of_unity}}}: the raw (Montgomery) constant of the root of unity
            if src == self.consts.value("fr_root_of_unity"):
                return El(0, 1)
            raise SymxError("Fr initialised from an unknown constant")
        if isinstance(src, (El, int)):
            return src
        raise SymxError("leaf initialiser from %r" % (src,))

    def method(self, I, f, this, args):
        n = f.name
        if self.is_big(this.type):
            return self.big_method(I, f, this, args)
        A = lambda i: self.val(args[i], "%s arg %d" % (f.qname, i))
        if n == "copy":
            this.val = A(0)
        elif n == "multiply":
            this.val = A(0) * A(1)
        elif n == "square":
            this.val = A(0).pow(2)
        elif n == "is_zero":
            v = self.val(this)
            if isinstance(v, El):
                return 0                      # a^alpha * c0^gamma is a unit
            return I.path.decide(("is_zero", "a"), (0, 1))
        elif n == "is_one":
            v = self.val(this)
            if v.alpha != 0:
                raise SymxError("is_one on a value with an a-part: %r" % v)
            d = valuation_is_zero_mod(v.gamma, self.odd)
            if d is None:
                raise SymxError("is_one undecided for exponent %r" % v.gamma)
            self.asked.append((repr(v.gamma)[:80], d))
            return 1 if d else 0
        else:
            raise SymxError("no contract for %s in the exponent view" % f.qname)
        return None


def gen(tu):
    f = tu.func("Fr::square_root")
    loops = loops_of(f)
    names = locals_of(f)
    if len(loops) != 3:
        import jast
        raise jast.ExtractionError("Fr::square_root: expected the outer loop, the order loop and the squaring loop, found %d loops" % len(loops))
    outer = loops[0]
    chk = lambda w, ok, m="": (w, "ok" if ok else "fail", "" if ok else m, None)
    G, KAP, TAU = Poly.var("g"), Poly.var("k") * 2 + 1, Poly.var("tau2")      # kappa odd: written 2k + 1
    SODD = Poly.var("sigma") * 2 + 1

    def congr(x, y):
        d = x - y
        return all(c % TWO32 == 0 for c in d.t.values())

    def inv_obs(tag, this_v, c_v, t_v, m, tau):
        """the invariant for program state (this, c, t, m), with a^t == c0^tau"""
        obs = [chk("%s: this == a^((t+1)/2) * c0^g" % tag, isinstance(this_v, El) and this_v.alpha == (T_ODD + 1) // 2, repr(this_v)[:120]),
               chk("%s: 1 <= m <= 32" % tag, isinstance(m, int) and 1 <= m <= 32, repr(m))]
        if not (isinstance(this_v, El) and isinstance(c_v, El) and isinstance(t_v, El) and isinstance(m, int) and 1 <= m <= 32):
            return obs + [chk("%s: state has the expected shape" % tag, False, "%r %r %r" % (this_v, c_v, t_v))]
        # c == c0^(2^(32-m) * odd): exponent divisible by 2^(32-m) and the quotient odd for all symbol values
        cq = Poly({mn: cf for mn, cf in c_v.gamma.t.items()})
        sh = 32 - m
        div_ok = c_v.alpha == 0 and all(cf % (1 << sh) == 0 for cf in cq.t.values())
        odd_ok = False
        if div_ok:
            qp = Poly({mn: (cf >> sh) for mn, cf in cq.t.items()})
            # odd for every assignment: exactly one odd-coefficient term and it is a product of odd symbols / constant; all other coefficients even
            odd_ok = always_odd(qp)
        obs.append(chk("%s: c == c0^(2^(32-m) * odd)  (c has exact order 2^m)" % tag, div_ok and odd_ok, repr(c_v)[:160]))
        # t == c0^(tau + 2g'): relation this^2 == a * t
        obs.append(chk("%s: this^2 == a * t   (exponent of t == tau + 2 * exponent of this, modulo 2^32)" % tag, t_v.alpha == 0 and congr(t_v.gamma, tau + this_v.gamma * 2), "t %r, this %r" % (t_v, this_v)))
        obs.append(chk("%s: t lies in <c^2>  (exponent of t divisible by 2^(33-m), for all symbol values)" % tag, all(cf % (1 << min(32, 33 - m)) == 0 for cf in t_v.gamma.t.values()), repr(t_v)[:160]))
        return obs

    ODD = {"kappa", "sodd"}

    def run_base(path):
        d = SylowDomain(ODD, consts=U.SHARED.get("consts"))
        I = Interp(tu, d)
        I.path = path
        this, a = I.new_object(FR), I.new_object(FR)
        a.val = El(1, 0)
        tau = TAU * 2                                   # a^t == c0^tau, tau even because a is a square

        orig_expo = d.free_contracts["exponentiate"]

        def expo(I_, dd, f_, args):
            orig_expo(I_, dd, f_, args)
            v = args[0].val
            if v.alpha == T_ODD:                        # a^t is rewritten into its c0-power
                args[0].val = El(0, v.gamma + tau)
        d.free_contracts["exponentiate"] = expo

        def cut(I_, n, env):
            m = env[names["m"]].v
            raise CutDone(inv_obs("base", this.val, env[names["c"]].val, env[names["t"]].val, m, tau) + [chk("base: m == 32", m == 32, repr(m))])
        I.loop_cuts[outer["id"]] = cut
        try:
            I.call(f, this, [a], force_body=True)
        except CutDone as e:
            return e.obs
        return [chk("base: the prologue reaches the loop", False)]
    yield "base", guarded(run_base)

    def run_zero(path):
        d = SylowDomain(ODD, consts=U.SHARED.get("consts"))
        I = Interp(tu, d)
        I.path = path
        this, a = I.new_object(FR), I.new_object(FR)
        a.val = 0
        orig = d.method

        def method(I_, f_, this_, args_):
            if f_.name == "is_zero":
                return 1
            if f_.name == "copy":
                this_.val = args_[0].val
                return None
            return orig(I_, f_, this_, args_)
        d.method = method
        I.call(f, this, [a], force_body=True)
        return [chk("square_root(0) == 0", this.val == 0, repr(this.val))]
    yield "zero", guarded(run_zero)

    for m0 in range(1, 33):
        for i0 in range(0, m0):
            def run_step(path, m0=m0, i0=i0):
                d = SylowDomain(ODD, consts=U.SHARED.get("consts"))
                I = Interp(tu, d)
                I.path = path
                this, a = I.new_object(FR), I.new_object(FR)
                a.val = El(1, 0)
                # eps = 2^(m-1-i) * odd (order of t exactly 2^i, i >= 1) or 2^(m-1) * anything (t == 1)
                eps = (SODD * (1 << (m0 - 1 - i0))) if i0 >= 1 else (Poly.var("s") * (1 << (m0 - 1)))
                gt = eps * (1 << (33 - m0)) if m0 >= 2 or True else eps
                tau = gt - G * 2                         # so that exponent(t) == tau + 2g holds by construction
                state = {}

                def cut(I_, n, env):
                    if state.get("entered"):
                        # back at the head after one iteration: the invariant again, with the new m
                        m1 = env[names["m"]].v
                        raise CutDone(inv_obs("step m=%d,i=%d" % (m0, i0), this.val, env[names["c"]].val, env[names["t"]].val, m1, tau) +
                                      [chk("step m=%d,i=%d: m' == i (the order exponent of t), so m decreases" % (m0, i0), m1 == i0 and m1 < m0, repr(m1))])
                    state["entered"] = True
                    env[names["m"]].v = m0
                    this.val = El((T_ODD + 1) // 2, G)
                    env[names["c"]].val = El(0, KAP * (1 << (32 - m0)))
                    env[names["t"]].val = El(0, gt)
                    init, cond, inc, body = for_parts(n)
                    went = run_iteration(I_, n, env)
                    if not went:
                        # t == 1: the function returns this
                        ok = i0 == 0
                        raise CutDone([chk("exit m=%d: the loop is left exactly when t == 1" % m0, ok),
                                       chk("exit m=%d: this^2 == a  (tau + 2g == 0 modulo 2^32)" % m0, congr(tau + this.val.gamma * 2, Poly()), repr(this.val))])
                    # re-enter the loop statement: the handler is called again at the head
                    return cut(I_, n, env)
                I.loop_cuts[outer["id"]] = cut
                # skip the prologue's exponentiations: they are irrelevant for the step (state is overwritten at the cut)
                orig_expo = d.free_contracts["exponentiate"]
                d.free_contracts["exponentiate"] = lambda I_, dd, f_, args: setattr(args[0], "val", El(0, 0))
                try:
                    I.call(f, this, [a], force_body=True)
                except CutDone as e:
                    return e.obs
                return [chk("step: cut reached", False)]
            yield "step m=%d i=%d" % (m0, i0), guarded(run_step)


def _replay(rec, unit, result, fresh, tu, wd, cx):
    """native: the real Fr::square_root on squares whose 2-part has every possible order (z = w * c0^(2^j)), plus 0, 1, small squares;
    oracle: x^2 == a (mod r) with Python integers (Montgomery form undone in Python)"""
    import replay as R_, random
    rnd = random.Random(17)
    Rm = pow(2, 256, R)
    Rinv = pow(Rm, -1, R)
    c0 = (U.SHARED.get("consts").value("fr_root_of_unity") * Rinv) % R if U.SHARED.get("consts") else pow(7, T_ODD, R)
    zs = [0, 1, 2, 3, R - 1, c0] + [pow(c0, 1 << j, R) * rnd.randrange(1, R) % R for j in range(0, 32, 3)] + [pow(rnd.randrange(2, R), T_ODD, R) for _ in range(6)] + [rnd.randrange(R) for _ in range(12)]
    sq = [z * z % R for z in zs]
    lines = [R_.unity_source(), "#include <stdio.h>", "#include <string.h>", "using namespace embedded_pairing; using namespace embedded_pairing::core; using namespace embedded_pairing::bls12_381;",
             "int main(){"]
    for k, a in enumerate(sq):
        raw = a * Rm % R
        ws = ", ".join("%dULL" % ((raw >> (64 * i)) & (2**64 - 1)) for i in range(4))
        lines.append("  { Fr a, x; uint64_t w[4] = {%s}; memcpy(&a.val, w, sizeof w); x.square_root(a); memcpy(w, &x.val, sizeof w); printf(\"r%d %%llu %%llu %%llu %%llu\\n\", (unsigned long long)w[0], (unsigned long long)w[1], (unsigned long long)w[2], (unsigned long long)w[3]); }" % (ws, k))
    lines.append("  return 0; }")
    native, err = R_.run_native("\n".join(lines), wd, "frsqrt_native")
    rec["native_driver_error"] = err
    if native is None:
        return False
    for k, a in enumerate(sq):
        ws = native.get("r%d" % k)
        if ws is None:
            continue
        x = sum(v << (64 * i) for i, v in enumerate(ws)) * Rinv % R
        if x * x % R != a:
            rec["native_finding"] = "real Fr::square_root(%d) returns %d, whose square is %d" % (a, x, x * x % R)
            rec["confirmed_on_real_code"] = True
            return True
    rec["confirmed_on_real_code"] = False
    return False


def units():
    u = ScenUnit("Fr::square_root (Tonelli-Shanks): x^2 == a for every non-zero square, square_root(0) == 0; loop cut over all (m, order of t)", P, gen, targets=["Fr::square_root"],
                     contracts_used=["exponentiate == power (C02)", "Fr::multiply / square (C02)", "F_r^* cyclic of order 2^32 * t; the root-of-unity constant has exact order 2^32 (closed fact)"],
                     note="termination: m strictly decreases at every iteration (proved per step); for non-squares nothing is claimed")
    u.replay_hook = _replay
    return [u]
