"""C03: the x86-64 assembly routines satisfy THE SAME contracts as the portable C++ routines (so results and flags are bit-identical
whichever back end is built).  The machine code (objdump of the object assembled from /repo's .s file on every run) is lifted to C by
tools/asmlift.py; the contract text is literally the one used for the C++ function (contracts/bigint.py, contracts/fp.py), for out
aliased to the first operand or not; stack balance and callee-saved registers are additional obligations of the lifted code.
Covered: bigint.s (add, subtract, multiply2, fpbase add / subtract / multiply2).  Not covered: multiply.s, multiply_bmi2_adx.s
(768-bit multiply / square / Montgomery reduction), the CPUID probe, AArch64, ARMv6-M."""
import os, re, time, subprocess
from bvspec import *
import bvspec
import cbmcrun, cxx2c, asmlift
from jast import REPO, ExtractionError
import bigint as BI
import fp as FP

P = ["C03", "C02"]
SFILE = "src/core/arch/x86_64/bigint.s"
NS = "embedded_pairing_core_arch_x86_64_"
TYPES = ("typedef struct BigInt_384 BigInt_384; typedef struct FpBase_384 FpBase_384;\n"
         "struct BigInt_384 { uint64_t words[6]; } __attribute__((aligned(16)));\nstruct FpBase_384 { BigInt_384 val; };\n")

ROUTINES = {
    "bigint_384_add": dict(params=[("BigInt_384 *", "self", "ptr"), ("const BigInt_384 *", "a", "ptr"), ("const BigInt_384 *", "b", "ptr")], contract=lambda: BI.c_add(384), cpp="BigInt<384>::add",
                           oracle=lambda v: ((v["a"] + v["b"]) % 2**384, (v["a"] + v["b"]) >> 384)),
    "bigint_384_subtract": dict(params=[("BigInt_384 *", "self", "ptr"), ("const BigInt_384 *", "a", "ptr"), ("const BigInt_384 *", "b", "ptr")], contract=lambda: BI.c_sub(384), cpp="BigInt<384>::subtract",
                                oracle=lambda v: ((v["a"] - v["b"]) % 2**384, 1 if v["a"] < v["b"] else 0)),
    "bigint_384_multiply2": dict(params=[("BigInt_384 *", "self", "ptr"), ("const BigInt_384 *", "a", "ptr")], contract=lambda: BI.c_shl1(384), cpp="BigInt<384>::shift_left_in_word<1>",
                                 oracle=lambda v: ((2 * v["a"]) % 2**384, (2 * v["a"]) >> 384)),
    "fpbase_384_multiply2": dict(params=[("FpBase_384 *", "self", "ptr"), ("const FpBase_384 *", "a", "ptr"), ("const BigInt_384 *", "p", "ptr")], contract=lambda: FP.fb_mul2(384), cpp="FpBase<384>::multiply2", ret="void",
                                 oracle=lambda v: ((2 * v["a"]) % Q, None)),
    "fpbase_384_add": dict(params=[("FpBase_384 *", "self", "ptr"), ("const FpBase_384 *", "a", "ptr"), ("const FpBase_384 *", "b", "ptr"), ("const BigInt_384 *", "p", "ptr")], contract=lambda: FP.fb_add(384), cpp="FpBase<384>::add", ret="void",
                           oracle=lambda v: ((v["a"] + v["b"]) % Q, None)),
    "fpbase_384_subtract": dict(params=[("FpBase_384 *", "self", "ptr"), ("const FpBase_384 *", "a", "ptr"), ("const FpBase_384 *", "b", "ptr"), ("const BigInt_384 *", "p", "ptr")], contract=lambda: FP.fb_sub(384), cpp="FpBase<384>::subtract", ret="void",
                                oracle=lambda v: ((v["a"] - v["b"]) % Q, None)),
}


class AsmUnit:
    back_end = "BV(asm)"
    kind = "proof"
    bound = None
    replace = ()
    bodies = ()
    strip_restrict = False
    tier = "quick"

    def __init__(self, rname):
        self.rname = rname
        self.spec = ROUTINES[rname]
        self.label = "x86-64 asm %s%s  (contract of %s)" % (NS, rname, self.spec["cpp"])
        self.target = NS + rname
        self.props = P
        self.note = "machine code lifted from objdump of the assembled .s; same contract text as the portable routine; + stack balance, callee-saved registers"
        self.canary = ("< SPEC_MOD384)", "< SPEC_MOD384 - 1)") if rname.startswith("fpbase") else ("== ", "== 1 + ")

    def name(self):
        return re.sub(r"[^A-Za-z0-9]+", "_", "asm_" + self.rname)

    def build(self, workdir, contract):
        funcs = asmlift.disassemble(os.path.join(REPO, SFILE), workdir)
        ins = asmlift.routine(funcs, NS + self.rname)
        lf = asmlift.Lift(ins, NS + self.rname, self.spec["params"], ret=self.spec.get("ret", "uint64_t"))
        text = lf.lift().replace("@CONTRACT@", contract)
        names = [p[1] for p in self.spec["params"]]
        cap = []
        decl = []
        for (ty, nm, kd) in self.spec["params"]:
            decl.append("uint64_t jpv_w_%s[6];" % nm)
            cap += ["  jpv_w_%s[%d] = ((const uint64_t *)%s)[%d];" % (nm, i, nm, i) for i in range(6)]
        for i in range(len(names)):
            for j in range(i + 1, len(names)):
                decl.append("_Bool jpv_w_alias_%s_%s;" % (names[i], names[j]))
                cap.append("  jpv_w_alias_%s_%s = ((const void *)%s == (const void *)%s);" % (names[i], names[j], names[i], names[j]))
        ret = self.spec.get("ret", "uint64_t")
        sig = ", ".join("%s %s" % (p[0], p[1]) for p in self.spec["params"])
        wrapper = "%s %s__chk(%s)\n%s{\n  %s\n%s\n  %s%s(%s);\n}\n" % (ret, NS + self.rname, sig, contract, "\n  ".join(decl), "\n".join(cap), "return " if ret != "void" else "", NS + self.rname, ", ".join(names))
        harness = "void jpv_harness(void)\n{\n" + "".join("  %s %s;\n" % (p[0], p[1]) for p in self.spec["params"]) + "  %s__chk(%s);\n}\n" % (NS + self.rname, ", ".join(names))
        src = cxx2c.PRELUDE + TYPES + bvspec.prelude() + asmlift.PRELUDE + text.replace(contract, "") + wrapper + harness
        cfile = os.path.join(workdir, self.name() + ".c")
        open(cfile, "w").write(src)
        return cfile

    def run(self, tu, workdir):
        t0 = time.time()
        contract = self.spec["contract"]()
        try:
            cfile = self.build(workdir, contract)
        except ExtractionError as e:
            return dict(unit=self, status="undecided", reason="extraction: %s" % e, obligations=0, discharged=0, failed=[], wall_s=time.time() - t0, log=str(e))
        res = cbmcrun.run(cfile, workdir, self.name(), "jpv_harness", enforce=NS + self.rname + "__chk", unwind=4, timeout=900, extra=["--object-bits", "10"])
        res["unit"] = self
        res["cfile"] = cfile
        res["canary"] = None
        if res["status"] == "pass" and self.canary:
            k = contract.index("__CPROVER_ensures")
            c2 = contract[:k] + contract[k:].replace(self.canary[0], self.canary[1], 1)
            u2name = self.name() + "_canary"
            cfile2 = self.build(workdir, c2).replace(".c", "_canary.c")
            os.rename(os.path.join(workdir, self.name() + ".c"), cfile2)
            r2 = cbmcrun.run(cfile2, workdir, u2name, "jpv_harness", enforce=NS + self.rname + "__chk", unwind=4, timeout=900, extra=["--object-bits", "10"], checks=False)
            res["canary"] = r2["status"]
            res["wall_s"] += r2.get("wall_s", 0)
            if r2["status"] != "fail":
                res["status"], res["reason"] = "undecided", "vacuity canary was not refuted (%s)" % r2["status"]
        return res

    def replay_hook(self, rec, unit, result, fresh, tu, wd, wit):
        """run the REAL assembled routine on the witness; oracle: Python integers"""
        names = [p[1] for p in self.spec["params"]]
        vals = {}
        for nm in names:
            w = wit.get(nm)
            if not isinstance(w, dict):
                return False
            vals[nm] = sum(int(w[i]) << (64 * i) for i in range(6))
        rep = {}
        for i, a in enumerate(names):
            rep[a] = a
        for i, a in enumerate(names):
            for b in names[i + 1:]:
                if wit.get("alias_%s_%s" % (a, b)) == 1:
                    rep[b] = rep[a]
        lines = ["#include <stdio.h>", "#include <stdint.h>", "extern uint64_t %s%s(%s);" % (NS, self.rname, ", ".join("void *" for _ in names)), "int main(void) {"]
        for nm in names:
            if rep[nm] == nm:
                lines.append("  static uint64_t buf_%s[6] __attribute__((aligned(16))) = {%s};" % (nm, ", ".join("%dULL" % ((vals[nm] >> (64 * k)) & (2**64 - 1)) for k in range(6))))
        lines.append("  uint64_t r = %s%s(%s);" % (NS, self.rname, ", ".join("buf_" + rep[nm] for nm in names)))
        lines.append("  printf(\"ret %llu\\n\", (unsigned long long)r); printf(\"out\"); for (int i = 0; i < 6; i++) printf(\" %llu\", (unsigned long long)buf_" + rep["self"] + "[i]); printf(\"\\n\"); return 0; }")
        p = os.path.join(wd, "asm_native.c")
        open(p, "w").write("\n".join(lines))
        o = os.path.join(wd, "asm_native.o")
        r = subprocess.run(["as", os.path.join(REPO, SFILE), "-o", o], capture_output=True, text=True)
        r = subprocess.run(["clang", "-O0", "-w", p, o, "-o", p + ".exe"], capture_output=True, text=True)
        if r.returncode != 0:
            rec["native_driver_error"] = r.stderr[-800:]
            return False
        out = subprocess.run([p + ".exe"], capture_output=True, text=True, timeout=60).stdout
        got_ret = int(out.split("ret")[1].split()[0])
        got = sum(int(x) << (64 * i) for i, x in enumerate(out.split("out")[1].split()))
        inv = {nm: vals[rep[nm]] for nm in names}
        want, wret = self.spec["oracle"](inv)
        rec["native_run"] = dict(inputs={k: hex(v) for k, v in inv.items()}, alias={k: v for k, v in rep.items() if k != v}, result=hex(got), expected=hex(want), returned=got_ret, expected_return=wret)
        bad = got != want or (wret is not None and (got_ret & 0xff if False else got_ret) != wret)
        rec["confirmed_on_real_code"] = bool(bad)
        return bool(bad)


def units():
    return [AsmUnit(r) for r in ROUTINES]


# ---------------------------------------------------------------------------
# 768-bit products: the assembly against the deterministic sum-of-M contract shared with the portable BigInt::multiply
import fpmul as FM

MUL_ROUTINES = {
    ("multiply.s", "bigint_768_multiply"): dict(params=[("BigInt_768 *", "self", "ptr"), ("const BigInt_384 *", "a", "ptr"), ("const BigInt_384 *", "b", "ptr")], contract=lambda: FM.c_bigint_multiply(768, 384, 384), cpp="BigInt<768>::multiply<384>"),
    ("multiply_bmi2_adx.s", "bmi2_adx_bigint_768_multiply"): dict(params=[("BigInt_768 *", "self", "ptr"), ("const BigInt_384 *", "a", "ptr"), ("const BigInt_384 *", "b", "ptr")], contract=lambda: FM.c_bigint_multiply(768, 384, 384), cpp="BigInt<768>::multiply<384>"),
    ("multiply.s", "bigint_768_square"): dict(params=[("BigInt_768 *", "self", "ptr"), ("const BigInt_384 *", "a", "ptr")], contract=lambda: FM.c_bigint_square(768, 384), cpp="BigInt<768>::square"),
    ("multiply_bmi2_adx.s", "bmi2_adx_bigint_768_square"): dict(params=[("BigInt_768 *", "self", "ptr"), ("const BigInt_384 *", "a", "ptr")], contract=lambda: FM.c_bigint_square(768, 384), cpp="BigInt<768>::square"),
}


class AsmMulUnit(AsmUnit):
    def __init__(self, sfile, rname, tier="experimental"):
        self.sfile = sfile
        self.rname = rname
        self.spec = dict(MUL_ROUTINES[(sfile, rname)], ret="void")
        self.label = "x86-64 asm %s%s  (contract of %s, products as M)" % (NS, rname, self.spec["cpp"])
        self.target = NS + rname
        self.props = P
        self.tier = tier
        self.note = "machine code lifted; mulq / mulx are the uninterpreted symbol M (commutative by construction, range axiom); same sum-of-M postcondition as the portable routine"
        self.canary = ("== (", "== 1 + (")

    def build(self, workdir, contract):
        funcs = asmlift.disassemble(os.path.join(REPO, "src/core/arch/x86_64", self.sfile), workdir)
        ins = asmlift.routine(funcs, NS + self.rname)
        lf = asmlift.Lift(ins, NS + self.rname, self.spec["params"], ret="void", mul="M")
        text = lf.lift().replace("@CONTRACT@", "")
        names = [p[1] for p in self.spec["params"]]
        sig = ", ".join("%s %s" % (p[0], p[1]) for p in self.spec["params"])
        wrapper = "void %s__chk(%s)\n%s{\n  %s(%s);\n}\n" % (NS + self.rname, sig, contract, NS + self.rname, ", ".join(names))
        harness = "void jpv_harness(void)\n{\n" + "".join("  %s %s;\n" % (p[0], p[1]) for p in self.spec["params"]) + "  %s__chk(%s);\n}\n" % (NS + self.rname, ", ".join(names))
        types = TYPES + "typedef struct BigInt_768 BigInt_768; struct BigInt_768 { uint64_t words[12]; } __attribute__((aligned(16)));\n"
        src = cxx2c.PRELUDE + types + bvspec.prelude() + FM.MDEF + asmlift.PRELUDE + text + wrapper + harness
        cfile = os.path.join(workdir, self.name() + ".c")
        open(cfile, "w").write(src)
        return cfile

    def replay_hook(self, *a):
        return False


_au0 = units


def units():
    return _au0() + [AsmMulUnit(s, r) for (s, r) in MUL_ROUTINES]
