"""C11 / C17 (slot bookkeeping of the key-producing functions, for EVERY slot count): src/wkdibe/api.cpp keygen, nondelegable_keygen, qualifykey,
nondelegable_qualifykey -- BV back end (CBMC, dfcc) with a loop contract on the slot loop; no bound on l.

The GROUP units (contracts/wkd.py) decide what the keys contain, but they execute the slot loops for l <= 3 (thorough: <= 5).  What they cannot see
is arithmetic that depends on HOW MANY slots there are: a cursor of a narrower type, a counter that wraps, an index that leaves the slot array
for large l.  This module puts the integer side of the same real functions under a contract that is proved for every 0 <= l <= INT_MAX and every
attribute list (any length, any contents -- sortedness is not needed for these facts):

    requires  sk.b has room for params.l entries (the documented capacity), params.h has params.l entries, attrs.attrs has attrs.length entries
    ensures   0 <= sk.l <= params.l
              omitAllFromKeysUnlessPresent  ==>  sk.l == 0
              !omitAll  ==>  sk.l + attrs.length >= params.l                        [keygen: every slot not consumed by an attribute is listed]
              for ghost positions t < t2 < sk.l:   t <= sk.b[t].idx < params.l   and   sk.b[t].idx < sk.b[t2].idx      [ascending, in range]
              sk.signatures == params.signatures
    loop invariant (slot loop):  0 <= i <= l,  0 <= j <= i,  0 <= k <= min(i, attrs.length),  !omitAll ==> j + k == i,  omitAll ==> j == 0,
              the two ghost-position facts with i in place of l;   decreases l - i
    every access inside its array (CBMC --bounds-check / --pointer-check), no signed overflow, no lossy conversion (--conversion-check).

The ghost positions t, t2 are fixed but arbitrary (nondeterministic globals), which makes the two "for all entries" facts quantifier-free.
The group operations are replaced by their FRAME contracts (each writes only its output object: C18 / C20 units); nothing else about them is used here."""
from bvspec import *
from units import BVUnit

P = ["C11", "C17"]

PRELUDE = "int jpv_t, jpv_t2;\n"
HAVOC = "  { int jpv_n1, jpv_n2; jpv_t = jpv_n1; jpv_t2 = jpv_n2; }\n"

FRAME_SELF = "__CPROVER_requires(1)\n__CPROVER_assigns(*self)\n"
FRAMES = {
    "G1::multiply(const G1 &, const BigInt<256> &)": FRAME_SELF,
    "G2::multiply_frobenius(const G2 &, const PowersOfX &)": FRAME_SELF,
    "Projective<Fq>::add(const Projective<Fq> &, const Projective<Fq> &__restrict)": FRAME_SELF,
    "Projective<Fq2>::add(const Projective<Fq2> &, const Projective<Fq2> &__restrict)": FRAME_SELF,
    "Projective<Fq>::copy": FRAME_SELF,
    "Projective<Fq2>::copy": FRAME_SELF,
    "wkdibe::random_zpstar(PowersOfX &__restrict, wkdibe::Scalar &__restrict, void (*)(void *, size_t))": "__CPROVER_requires(1)\n__CPROVER_assigns(*powers; *s)\n",
}

GHOST_POS = lambda key, top: ["(0 <= jpv_t && jpv_t < %s) ==> ((unsigned int)jpv_t <= %s->b[jpv_t].idx && %s->b[jpv_t].idx < (unsigned int)(%s))" % (top[0], key, key, top[1]),
                              "(0 <= jpv_t && jpv_t < jpv_t2 && jpv_t2 < %s) ==> (%s->b[jpv_t].idx < %s->b[jpv_t2].idx)" % (top[0], key, key)]


def c_keygen(delegable):
    pre = [fresh("sk"), fresh("params"), fresh("msk"), fresh("attrs"),
           "0 <= params->l", "__CPROVER_is_fresh(params->h, (size_t)params->l * sizeof(*params->h))",
           "__CPROVER_is_fresh(sk->b, (size_t)params->l * sizeof(*sk->b))",
           "attrs->length <= ((size_t)1 << 40)", "__CPROVER_is_fresh(attrs->attrs, attrs->length * sizeof(*attrs->attrs))"]
    post = ["0 <= sk->l && sk->l <= params->l",
            "attrs->omitAllFromKeysUnlessPresent ==> sk->l == 0",
            "(!attrs->omitAllFromKeysUnlessPresent) ==> ((size_t)sk->l + attrs->length >= (size_t)params->l)",
            "sk->signatures == params->signatures"] + GHOST_POS("sk", ("sk->l", "params->l"))
    return req(*pre) + assigns("*sk", "__CPROVER_object_whole(sk->b)") + ens(*post)


def loop_keygen():
    inv = ["0 <= i && i <= params->l", "0 <= j && j <= i", "0 <= k && k <= i && (size_t)k <= attrs->length",
           "(!attrs->omitAllFromKeysUnlessPresent) ==> ((long)j + (long)k == (long)i)", "attrs->omitAllFromKeysUnlessPresent ==> j == 0"] + GHOST_POS("sk", ("j", "i"))
    txt = "__CPROVER_assigns(@LOCALS@, i, sk->a0, __CPROVER_object_whole(sk->b))\n"
    txt += "".join("__CPROVER_loop_invariant(%s)\n" % x for x in inv)
    txt += "__CPROVER_decreases(params->l - i)\n"
    return {1: txt}


def c_qualify():
    pre = [fresh("qualified"), fresh("params"), fresh("sk"), fresh("attrs"),
           "0 <= params->l", "0 <= sk->l && sk->l <= params->l", "__CPROVER_is_fresh(params->h, (size_t)params->l * sizeof(*params->h))",
           "__CPROVER_is_fresh(sk->b, (size_t)sk->l * sizeof(*sk->b))",
           "__CPROVER_is_fresh(qualified->b, (size_t)sk->l * sizeof(*qualified->b))",
           "attrs->length <= ((size_t)1 << 40)", "__CPROVER_is_fresh(attrs->attrs, attrs->length * sizeof(*attrs->attrs))"]
    post = ["0 <= qualified->l && qualified->l <= sk->l",
            "attrs->omitAllFromKeysUnlessPresent ==> qualified->l == 0",
            "qualified->signatures == sk->signatures"] + GHOST_POS("qualified", ("qualified->l", "params->l"))
    return req(*pre) + assigns("*qualified", "__CPROVER_object_whole(qualified->b)") + ens(*post)


def loop_qualify(extra_assigns):
    inv = ["0 <= i && i <= params->l", "0 <= x && x <= i && x <= sk->l", "0 <= j && j <= x", "0 <= k && k <= i && (size_t)k <= attrs->length",
           "attrs->omitAllFromKeysUnlessPresent ==> j == 0"] + GHOST_POS("qualified", ("j", "i"))
    txt = "__CPROVER_assigns(@LOCALS@, i, %s__CPROVER_object_whole(qualified->b))\n" % extra_assigns
    txt += "".join("__CPROVER_loop_invariant(%s)\n" % x for x in inv)
    txt += "__CPROVER_decreases(params->l - i)\n"
    return {1: txt}


def _replay(rec, unit, result, fresh, tu, wd, w=None):
    """native: the real function on parameter sets with many slots (l = 300 and l = 65540: past every narrower integer type), no attributes,
    nothing omitted -- every slot is free, so the key must list 0, 1, ..., l-1; for the qualification functions the parent is that key"""
    import replay as R_
    fn = unit.target.split("::")[-1]
    src = R_.unity_source() + r"""
#include <stdio.h>
#include <stdlib.h>
#include <string.h>
namespace W = embedded_pairing::wkdibe;
using namespace embedded_pairing::bls12_381;
static unsigned long long st = 88172645463325252ULL;
static void rng(void* b, size_t n) { unsigned char* p = (unsigned char*)b; for (size_t i = 0; i < n; i++) { st ^= st << 13; st ^= st >> 7; st ^= st << 17; p[i] = (unsigned char)(st >> 32); } }
static int run(int L) {
  W::Params params; W::MasterKey msk; W::SecretKey sk, q;
  params.h = (W::G1*)malloc(sizeof(W::G1) * L); sk.b = (W::FreeSlot*)malloc(sizeof(W::FreeSlot) * L); q.b = (W::FreeSlot*)malloc(sizeof(W::FreeSlot) * L);
  params.l = L; params.signatures = false;
  params.g.copy(G2::zero); params.g.add(params.g, G2Affine::generator); params.g1.copy(params.g);
  params.g2.copy(G1::zero); params.g2.add(params.g2, G1Affine::generator); params.g3.copy(params.g2); params.hsig.copy(G1::zero);
  msk.g2alpha.copy(params.g2);
  for (int i = 0; i < L; i++) params.h[i].copy(params.g2);
  W::Attribute none[1]; W::AttributeList al; al.attrs = none; al.length = 0; al.omitAllFromKeysUnlessPresent = false;
  W::nondelegable_keygen(sk, params, msk, al);
  W::SecretKey* out = &sk;
#if JPV_FN == 0
  W::keygen(sk, params, msk, al, rng);
#elif JPV_FN == 2
  for (int i = 0; i < L; i++) sk.b[i].idx = i; sk.l = L;
  W::qualifykey(q, params, sk, al, rng); out = &q;
#elif JPV_FN == 3
  for (int i = 0; i < L; i++) sk.b[i].idx = i; sk.l = L;
  W::nondelegable_qualifykey(q, params, sk, al); out = &q;
#endif
  long bad = -1; if (out->l == L) { for (int i = 0; i < L; i++) if (out->b[i].idx != (unsigned)i) { bad = i; break; } }
  printf("l%d %d\n", L, out->l); printf("bad%d %ld\n", L, bad + 1);
  int ok = out->l == L && bad < 0;
  free(params.h); free(sk.b); free(q.b);
  return ok;
}
int main() { run(300); run(65540); return 0; }
"""
    code = {"keygen": 0, "nondelegable_keygen": 1, "qualifykey": 2, "nondelegable_qualifykey": 3}[fn]
    native, err = R_.run_native("#define JPV_FN %d\n" % code + src, wd, "slots_native_%s" % fn)
    rec["native_driver_error"] = err
    if native is None:
        return False
    for L in (300, 65540):
        got, bad = native.get("l%d" % L), native.get("bad%d" % L)
        if got is None:
            continue
        if got[0] != L or bad[0] != 0:
            rec["native_finding"] = ("real %s on a parameter set with l = %d slots, empty attribute list, nothing omitted%s: the key reports %d free slots%s; all %d slots are free" %
                                     (fn, L, " (parent key = all slots free)" if code >= 2 else "", got[0], "" if bad[0] == 0 else " and entry %d does not hold slot %d" % (bad[0] - 1, bad[0] - 1), L))
            rec["failing_input"] = "l = %d, attrs = {}, omitAllFromKeysUnlessPresent = false" % L
            rec["confirmed_on_real_code"] = True
            return True
    rec["confirmed_on_real_code"] = False
    return False


# ---------------------------------------------------------------------------
# setup, resamplekey, adjust_nondelegable: the remaining functions that WRITE a slot array
NOOP = "{ }"


def more_stubs(tu, extra=None):
    """every group / field / sampling callee of these functions is a no-op here (only the integer side is under contract); `extra` overrides"""
    st = {}
    for q, f in tu.by_qname.items():
        if f.body is None:
            continue
        if (q.startswith(("G1::", "G2::", "Projective<", "Affine<", "Fq12::", "pairing(", "wkdibe::random_", "BigInt<256>::subtract", "BigInt<256>::equal", "PowersOfX::")) and "::marshal" not in q):
            st[q] = NOOP
    st.update(extra or {})
    return st


def c_setup():
    pre = [fresh("params"), fresh("msk"), "0 <= l", "__CPROVER_is_fresh(params->h, (size_t)l * sizeof(*params->h))", "jpv_h == params->h", "jpv_cnt == 0", "jpv_t <= (1 << 30)"]
    post = ["params->l == l", "params->signatures == signatures", "(0 <= jpv_t && jpv_t < l) ==> jpv_cnt == 1"]
    return req(*pre) + assigns("*params", "*msk", "__CPROVER_object_whole(params->h)", "jpv_cnt") + ens(*post)


def loop_setup():
    return {1: "__CPROVER_assigns(i, jpv_cnt, __CPROVER_object_whole(params->h))\n__CPROVER_loop_invariant(0 <= i && i <= l)\n"
               "__CPROVER_loop_invariant(jpv_cnt == ((0 <= jpv_t && jpv_t < i) ? 1 : 0))\n__CPROVER_decreases(l - i)\n"}


def c_resample():
    pre = [fresh("resampled"), fresh("params"), fresh("precomputed"), fresh("sk"), "0 <= sk->l", "__CPROVER_is_fresh(sk->b, (size_t)sk->l * sizeof(*sk->b))",
           "__CPROVER_is_fresh(resampled->b, (size_t)sk->l * sizeof(*resampled->b))", "jpv_t <= (1 << 30)"]
    post = ["resampled->signatures == sk->signatures",
            "supportFurtherQualification ==> (resampled->l == sk->l)", "(!supportFurtherQualification) ==> (resampled->l == 0)",
            "(supportFurtherQualification && 0 <= jpv_t && jpv_t < sk->l) ==> (resampled->b[jpv_t].idx == sk->b[jpv_t].idx)"]
    return req(*pre) + assigns("*resampled", "__CPROVER_object_whole(resampled->b)") + ens(*post)


def loop_resample():
    return {1: "__CPROVER_assigns(@LOCALS@, i, __CPROVER_object_whole(resampled->b))\n__CPROVER_loop_invariant(0 <= i && i <= sk->l)\n"
               "__CPROVER_loop_invariant((0 <= jpv_t && jpv_t < i) ==> (resampled->b[jpv_t].idx == sk->b[jpv_t].idx))\n__CPROVER_decreases(sk->l - i)\n"}


def c_adjust():
    pre = [fresh("sk"), fresh("parent"), fresh("from"), fresh("to"), "0 <= parent->l", "__CPROVER_is_fresh(parent->b, (size_t)parent->l * sizeof(*parent->b))",
           "__CPROVER_is_fresh(sk->b, (size_t)parent->l * sizeof(*sk->b))",
           "from->length <= ((size_t)1 << 30)", "to->length <= ((size_t)1 << 30)",
           "__CPROVER_is_fresh(from->attrs, from->length * sizeof(*from->attrs))", "__CPROVER_is_fresh(to->attrs, to->length * sizeof(*to->attrs))", "jpv_t <= (1 << 30)"]
    post = ["0 <= sk->l && sk->l <= parent->l", "(to->length == 0) ==> (sk->l == parent->l)",
            "(to->length == 0 && 0 <= jpv_t && jpv_t < parent->l) ==> (sk->b[jpv_t].idx == parent->b[jpv_t].idx)"]
    return req(*pre) + assigns("*sk", "__CPROVER_object_whole(sk->b)") + ens(*post)


def loop_adjust():
    common = ["0 <= j && (size_t)j <= from->length", "0 <= k && (size_t)k <= to->length"]
    outer = ["0 <= i && i <= parent->l", "0 <= x && x <= i", "(to->length == 0) ==> (x == i)",
             "(to->length == 0 && 0 <= jpv_t && jpv_t < i) ==> (sk->b[jpv_t].idx == parent->b[jpv_t].idx)"] + common
    mk = lambda tg, inv, dec: "__CPROVER_assigns(%s)\n" % tg + "".join("__CPROVER_loop_invariant(%s)\n" % v for v in inv) + "__CPROVER_decreases(%s)\n" % dec
    return {1: mk("@LOCALS@, i, sk->a0, __CPROVER_object_whole(sk->b)", outer, "parent->l - i"),
            2: mk("j", common, "from->length - (size_t)j"),
            3: mk("k", common, "to->length - (size_t)k")}


PRELUDE2 = "int jpv_t, jpv_t2; const void *jpv_h; int jpv_cnt;\n"


VISIT = ("static void jpv_visit(const void *p) {\n"
         "  if (jpv_f >= 0 && __CPROVER_same_object(p, jpv_from) && (size_t)__CPROVER_POINTER_OFFSET(p) == (size_t)jpv_f * sizeof(wkdibe_Attribute) + __builtin_offsetof(wkdibe_Attribute, id)) jpv_vis_f = 1;\n"
         "  if (jpv_t >= 0 && __CPROVER_same_object(p, jpv_to) && (size_t)__CPROVER_POINTER_OFFSET(p) == (size_t)jpv_t * sizeof(wkdibe_Attribute) + __builtin_offsetof(wkdibe_Attribute, id)) jpv_vis_t = 1;\n}\n")
PRELUDE3 = "int jpv_t, jpv_f; const void *jpv_from, *jpv_to; _Bool jpv_vis_t, jpv_vis_f;\n"


def c_adjust_pre():
    pre = [fresh("precomputed"), fresh("params"), fresh("from"), fresh("to"), "from->length <= (size_t)1073741823", "to->length <= (size_t)1073741823",
           "__CPROVER_is_fresh(from->attrs, from->length * sizeof(*from->attrs))", "__CPROVER_is_fresh(to->attrs, to->length * sizeof(*to->attrs))",
           "jpv_from == from->attrs", "jpv_to == to->attrs", "jpv_vis_t == 0 && jpv_vis_f == 0"]
    post = ["(0 <= jpv_t && (size_t)jpv_t < to->length) ==> jpv_vis_t", "(0 <= jpv_f && (size_t)jpv_f < from->length) ==> jpv_vis_f"]
    return req(*pre) + assigns("*precomputed", "jpv_vis_t", "jpv_vis_f") + ens(*post)


def loop_adjust_pre():
    inv = ["0 <= i && (size_t)i <= from->length", "0 <= j && (size_t)j <= to->length",
           "(0 <= jpv_t && jpv_t < j) ==> jpv_vis_t", "(0 <= jpv_f && jpv_f < i) ==> jpv_vis_f"]
    mk = lambda tg, dec: ("__CPROVER_assigns(%s, __CPROVER_object_whole(&temp), __CPROVER_object_whole(&diff), precomputed->prodexp, jpv_vis_t, jpv_vis_f)\n" % tg +
                          "".join("__CPROVER_loop_invariant(%s)\n" % v for v in inv) + "__CPROVER_decreases(%s)\n" % dec)
    tot = "(from->length - (size_t)i) + (to->length - (size_t)j)"
    # the second loop advances only i, the third only j (so what the first two established about the other cursor survives)
    return {1: mk("i, j", tot), 2: mk("i", "from->length - (size_t)i"), 3: mk("j", "to->length - (size_t)j")}


PRELUDE4 = "int jpv_it; _Bool jpv_early; size_t jpv_k_ret;\n"


def c_signpre():
    pre = [fresh("signature"), fresh("params"), fresh("sk"), fresh("precomputed"), fresh("message"), "0 <= sk->l", "__CPROVER_is_fresh(sk->b, (size_t)sk->l * sizeof(*sk->b))",
           "__CPROVER_is_fresh(attrs, sizeof(*attrs))", "attrs->length <= (size_t)2147483647", "__CPROVER_is_fresh(attrs->attrs, attrs->length * sizeof(*attrs->attrs))",
           "jpv_it == 0 && jpv_early == 0"]
    post = ["jpv_early || jpv_it == sk->l", "jpv_early ==> jpv_k_ret == attrs->length"]
    return req(*pre) + assigns("*signature", "jpv_it", "jpv_early", "jpv_k_ret") + ens(*post)


def loop_signpre():
    inv = ["0 <= i && i <= sk->l", "jpv_it == i", "!jpv_early", "0 <= k && (size_t)k <= attrs->length"]
    outer = ("__CPROVER_assigns(@LOCALS@, i, signature->a0, jpv_it, jpv_early, jpv_k_ret)\n" + "".join("__CPROVER_loop_invariant(%s)\n" % v for v in inv) + "__CPROVER_decreases(sk->l - i)\n")
    inner = ("__CPROVER_assigns(k)\n__CPROVER_loop_invariant(0 <= k && (size_t)k <= attrs->length)\n__CPROVER_decreases(attrs->length - (size_t)k)\n")
    return {1: outer, ("begin", 1): "jpv_it++;", 2: inner}


GHOST_SIGNPRE = {"wkdibe::sign_precomputed": [(r"^\s*(return|break);\s*$", "before", "jpv_early = 1; jpv_k_ret = (size_t)k;")]}


def c_precompute():
    pre = [fresh("precomputed"), fresh("params"), fresh("attrs"), "attrs->length <= (size_t)2147483647", "__CPROVER_is_fresh(attrs->attrs, attrs->length * sizeof(*attrs->attrs))",
           "jpv_h == attrs->attrs", "jpv_cnt == 0", "0 <= jpv_t"]
    post = ["((size_t)jpv_t < attrs->length) ==> jpv_cnt == 1", "((size_t)jpv_t >= attrs->length) ==> jpv_cnt == 0"]
    return req(*pre) + assigns("*precomputed", "jpv_cnt") + ens(*post)


def loop_precompute():
    return {1: "__CPROVER_assigns(@LOCALS@, i, jpv_cnt, precomputed->prodexp)\n__CPROVER_loop_invariant(0 <= i && (size_t)i <= attrs->length)\n"
               "__CPROVER_loop_invariant(jpv_cnt == ((jpv_t < i) ? 1 : 0))\n__CPROVER_decreases(attrs->length - (size_t)i)\n"}


def units():
    us = []
    for q, deleg in (("wkdibe::keygen", True), ("wkdibe::nondelegable_keygen", False)):
        cs = {q: c_keygen(deleg)}
        cs.update(FRAMES)
        u = BVUnit(q, cs, P, replace=list(FRAMES), unwind=12, loop_contracts={q: loop_keygen()}, timeout=900, spec_prelude=PRELUDE,
                   label=q + ": slot bookkeeping for every slot count (loop contract)", extra=["--conversion-check", "--object-bits", "11"],
                   canary=("sk->l <= params->l", "sk->l < params->l"),
                   note="loop contract (invariants + decreases) on the slot loop, l symbolic up to INT_MAX; group operations replaced by their frame contracts")
        u.harness_pre = HAVOC
        u.replay_hook = _replay
        us.append(u)
    for q, ea in (("wkdibe::qualifykey", "qualified->a0, "), ("wkdibe::nondelegable_qualifykey", "qualified->a0, ")):
        cs = {q: c_qualify()}
        cs.update(FRAMES)
        u = BVUnit(q, cs, P, replace=list(FRAMES), unwind=12, loop_contracts={q: loop_qualify(ea)}, timeout=900, spec_prelude=PRELUDE,
                   label=q + ": slot bookkeeping for every slot count (loop contract)", extra=["--conversion-check", "--object-bits", "11"],
                   canary=("qualified->l <= sk->l", "qualified->l < sk->l"),
                   note="loop contract (invariants + decreases) on the slot loop, l and the parent's slot count symbolic up to INT_MAX; the destination array needs room for the parent's sk.l entries only; group operations replaced by their frame contracts")
        u.harness_pre = HAVOC
        u.replay_hook = _replay
        us.append(u)
    REC = "{ if (jpv_t >= 0 && __CPROVER_same_object(self, jpv_h) && (size_t)__CPROVER_POINTER_OFFSET(self) == (size_t)jpv_t * sizeof(Projective_Fq)) jpv_cnt++; }"
    for q, c, lc, can, extra_stub in (("wkdibe::setup", c_setup(), loop_setup(), ("params->l == l", "params->l == l + 1"), {"G1::random_generator": REC}),
                                      ("wkdibe::resamplekey", c_resample(), loop_resample(), ("(resampled->l == sk->l)", "(resampled->l == sk->l + 1)"), None),
                                      ("wkdibe::adjust_nondelegable", c_adjust(), loop_adjust(), ("sk->l <= parent->l", "sk->l < parent->l"), None),
                                      ("wkdibe::adjust_precomputed", c_adjust_pre(), loop_adjust_pre(), ("jpv_vis_t", "!jpv_vis_t"),
                                       {"G1::multiply(const G1 &, const BigInt<256> &)": "{ jpv_visit($1); }", "BigInt<256>::equal": "{ jpv_visit($0); jpv_visit($1); _Bool jpv_nd; return jpv_nd; }",
                                        "BigInt<256>::subtract": "{ _Bool jpv_nd; return jpv_nd; }"}),
                                      ("wkdibe::sign_precomputed", c_signpre(), loop_signpre(), ("jpv_it == sk->l", "jpv_it == sk->l + 1"), None),
                                      ("wkdibe::precompute", c_precompute(), loop_precompute(), ("jpv_cnt == 1", "jpv_cnt == 2"),
                                       {"G1::multiply(const G1 &, const BigInt<256> &)": "{ if (__CPROVER_same_object($1, jpv_h) && (size_t)__CPROVER_POINTER_OFFSET($1) == (size_t)jpv_t * sizeof(wkdibe_Attribute) + __builtin_offsetof(wkdibe_Attribute, id)) jpv_cnt++; }"})):
        u = BVUnit(q, {q: c}, P, unwind=12, loop_contracts={q: lc}, timeout=900, spec_prelude=PRELUDE2,
                   label=q + ": slot bookkeeping for every slot count (loop contract)", extra=["--object-bits", "11"], canary=can,
                   note="loop contracts on the slot loop(s), counts symbolic; every group / sampling callee is a no-op stub (only the integer side is under contract here)")
        u.stub_factory = (lambda tu, e=extra_stub: more_stubs(tu, e))
        u.harness_pre = HAVOC
        if q == "wkdibe::sign_precomputed":
            u.props = ["C13", "C14", "C17"]
            u.label = "wkdibe::sign_precomputed: the fill loop visits every free slot of a key of any size unless the list is exhausted (loop contracts)"
            u.spec_prelude = PRELUDE4
            u.ghost = GHOST_SIGNPRE
            u.harness_pre = ""
            u.checks = False
            u.extra = list(u.extra) + ["--bounds-check", "--pointer-check", "--signed-overflow-check"]
        if q == "wkdibe::adjust_precomputed":
            u.props = ["C14", "C12", "C17"]
            u.label = "wkdibe::adjust_precomputed: every entry of both lists, of any length, is consumed (loop contracts)"
            u.spec_prelude = PRELUDE3 + VISIT
            u.harness_pre = "  { int jpv_n1, jpv_n2; jpv_t = jpv_n1; jpv_f = jpv_n2; }\n"
            u.checks = False
            u.extra = list(u.extra) + ["--bounds-check", "--pointer-check", "--signed-overflow-check"]
        if q == "wkdibe::precompute":
            u.props = ["C14", "C12", "C13", "C17"]
            u.label = "wkdibe::precompute: every attribute of a list of any length contributes exactly once (loop contract)"
            u.checks = False        # &params.h[attr.idx] is only formed (stub); attr.idx < params.l is the caller's obligation
            u.extra = list(u.extra) + ["--bounds-check", "--pointer-check", "--signed-overflow-check", "--conversion-check"]
        if q == "wkdibe::resamplekey":
            # &params.h[sk.b[i].idx] is only formed, never dereferenced here (the group operation is a stub); that every listed index is below
            # params.l is the key's well-formedness (GROUP units), not expressible for an unbounded array without a quantifier: no pointer-arithmetic check
            u.checks = False
            u.extra = list(u.extra) + ["--bounds-check", "--pointer-check", "--signed-overflow-check", "--conversion-check"]
        us.append(u)
    return us
