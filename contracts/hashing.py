"""C10 (and the byte-I/O part of C02): hash reduction, rejection sampling, big-endian byte I/O -- BV back end.

Oracle: integers.  hash_reduce: v' = (v mod 2^k) mod p with k = 255 (Fr) / 381 (Fq), returned flag = old top bit.
random: the result is < p for EVERY byte stream the caller's source may deliver (the callback is a function-pointer contract:
it may write exactly the n bytes it is given, arbitrary contents); termination of the rejection loop depends on the source and is
not claimed.  read/write_big_endian: value <-> big-endian bytes, exactly byte_length bytes."""
from bvspec import *
from units import BVUnit
import bigint as BI

P = ["C10", "C02"]
KBITS = {256: 255, 384: 381}
FNAME = {256: "Fr", 384: "Fq"}


def c_hash_reduce(n):
    k = KBITS[n]
    M = "SPEC_MOD%d" % n
    masked = "(OLD%d(&self->val) & ((((uv%d)1) << %d) - 1))" % (n, n, k)
    return req(fresh("self")) + assigns("__CPROVER_object_whole(self)") + ens(
        "VAL%d(&self->val) < %s" % (n, M),
        "VAL%d(&self->val) == ((%s >= %s) ? (%s - %s) : %s)" % (n, masked, M, masked, M, masked),
        "__CPROVER_return_value == (((OLD%d(&self->val) >> %d) & 1) != 0)" % (n, n - 1))


RAND_CONTRACT = ("void jpv_rand_contract(void *buf, size_t n)\n"
                 "__CPROVER_requires(__CPROVER_w_ok(buf, n))\n"
                 "__CPROVER_assigns(__CPROVER_object_upto(buf, n))\n;\n"
                 "jpv_rand_fn jpv_rand_keep = jpv_rand_contract;   /* address taken: a candidate for function-pointer removal */\n")


def rand_contract(n):
    """the caller's random source, with ghost bookkeeping of its LAST call (where, how many bytes, what the buffer held afterwards)"""
    return ("uv%d jpv_snap; size_t jpv_last_n; size_t jpv_last_buf;   /* offset of the buffer in its object (a pointer-valued ghost equated to an interior pointer makes the path infeasible in CBMC 6.11) */\n" % n +
            "void jpv_rand_contract(void *buf, size_t n)\n"
            "__CPROVER_requires(__CPROVER_w_ok(buf, n))\n"
            "__CPROVER_assigns(__CPROVER_object_upto(buf, n), jpv_snap, jpv_last_n, jpv_last_buf)\n"
            "__CPROVER_ensures(jpv_last_n == n && jpv_last_buf == (size_t)__CPROVER_POINTER_OFFSET(buf))\n"
            "__CPROVER_ensures((n == %d) ==> (jpv_snap == VAL%d((const BigInt_%d *)buf)))\n;\n" % (n // 8, n, n) +
            "jpv_rand_fn jpv_rand_keep = jpv_rand_contract;   /* address taken: a candidate for function-pointer removal */\n")


def c_random(n):
    bits = {256: 255, 384: 381}[n]
    return (req(fresh("self"), "__CPROVER_obeys_contract(get_random_bytes, jpv_rand_contract)") + assigns("__CPROVER_object_whole(self)", "jpv_snap", "jpv_last_n", "jpv_last_buf") +
            ens("VAL%d(&self->val) < SPEC_MOD%d" % (n, n),
                # uniformity on [0, p): the returned value is the LAST draw, all of it drawn in one call into the element itself, with only the bits above the modulus' length cleared
                "jpv_last_n == %d && jpv_last_buf == (size_t)__CPROVER_POINTER_OFFSET(self)" % (n // 8),
                "VAL%d(&self->val) == (jpv_snap & ((((uv%d)1) << %d) - 1))" % (n, n, bits)))


def be_val(n, buf="buffer"):
    nb = n // 8
    return "(" + " | ".join("((uv%d)(%s)[%d] << %d)" % (n, buf, i, 8 * (nb - 1 - i)) for i in range(nb)) + ")"


def c_read_be(n):
    return req(fresh("self"), "__CPROVER_is_fresh(buffer, %d)" % (n // 8)) + assigns("__CPROVER_object_whole(self)") + ens("VAL%d(self) == %s" % (n, be_val(n)))


def c_write_be(n):
    return req(fresh("self"), "__CPROVER_is_fresh(buffer, %d)" % (n // 8)) + assigns("__CPROVER_object_upto(buffer, %d)" % (n // 8)) + ens("VAL%d(self) == %s" % (n, be_val(n)))


def c_zp_from_hash():
    masked = "(%s & ((((uv256)1) << 255) - 1))" % be_val(256, "((const uint8_t *)hash)")
    return req(fresh("result"), "__CPROVER_is_fresh(hash, 32)") + assigns("__CPROVER_object_whole(result)") + ens(
        "VAL256(JPV_RES) < SPEC_R", "VAL256(JPV_RES) == ((%s >= SPEC_R) ? (%s - SPEC_R) : %s)" % (masked, masked, masked))


def units():
    us = []
    for n in (256, 384):
        F = FNAME[n]
        B = BI.B(n)
        cs = {B + "::compare": BI.c_compare(n), B + "::subtract": BI.c_sub(n)}
        q = F + "::hash_reduce"
        us.append(BVUnit(q, dict({q: c_hash_reduce(n)}, **cs), P, replace=list(cs), unwind=n // 64 + 2, canary=("< SPEC_MOD%d" % n, "< SPEC_MOD%d - 1" % n)))
        q = F + "::random"
        u = BVUnit(q, dict({q: c_random(n)}, **{B + "::compare": BI.c_compare(n)}), P, replace=[B + "::compare"], unwind=8, canary=("< SPEC_MOD%d" % n, "< SPEC_MOD%d - 1" % n),
                   loop_contracts={q: {1: "__CPROVER_assigns(@LOCALS@, __CPROVER_object_whole(self), jpv_snap, jpv_last_n, jpv_last_buf)\n__CPROVER_loop_invariant(1 == 1)\n"}}, spec_prelude=rand_contract(n),
                   extra=["--object-bits", "10"], note="rejection loop by loop contract (invariant true, exit condition gives the range); the random source is a function-pointer contract; termination not claimed")
        u.extra_replace = ["jpv_rand_contract"]
        us.append(u)
        for nm, c in (("read_big_endian", c_read_be(n)),) + ((("write_big_endian", c_write_be(n)),) if n == 384 else ()):   # BigInt<256>::write_big_endian is never instantiated
            q = B + "::" + nm
            us.append(BVUnit(q, {q: c}, P + ["C09"], unwind=n // 8 + 2, canary=("== (", "!= (")))
    q = "embedded_pairing_bls12_381_zp_from_hash"
    us.append(BVUnit(q, {q: c_zp_from_hash(), "BigInt<256>::read_big_endian": c_read_be(256), "Fr::hash_reduce": c_hash_reduce(256)}, ["C10", "C19"],
                     replace=["BigInt<256>::read_big_endian", "Fr::hash_reduce"], unwind=6, spec_prelude="#define JPV_RES ((const BigInt_256 *)result)\n", canary=("< SPEC_R", "< SPEC_R - 1")))
    return us
