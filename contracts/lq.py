"""C16: LQ-IBE (src/lqibe/api.cpp) at the GROUP rung.

Oracle (Boneh-Franklin style KEM as described in the property): sk = s*Q_id; params = (P, sP);
encrypt: r fresh, ciphertext rP, hashed bytes = enc(Q) || enc(rP) || BE(e(Q, r*sP));
decrypt: hashed bytes = enc(Q) || enc(rP) || BE(e(s*Q, rP)).  Both call hash_fill exactly once with
(symmetric, symmetric_length, &buffer, sizeof buffer) and identical buffer contents.  `encode` and
`write_big_endian` are injective maps of the group element (C09 / C04), represented by tagged values."""
from poly import Poly
from symx import Interp, Leaf, Obj, Arr, Cell, Ptr, POISON, SymxError
from groupdom import GroupDomain, Lin, pair, residual_check, R_ORDER, TWO256
from scen import ScenUnit, guarded
import units as U

NS = "lqibe::"
ENC1, ENC2 = "Encoding<G1Affine, 1>", "Encoding<G2Affine, 1>"


class LQDomain(GroupDomain):
    def __init__(self, **kw):
        GroupDomain.__init__(self, extra_leaf=(ENC1, ENC2), **kw)
        self.hash_calls = []

    def method(self, I, f, this, args):
        if this.type in (ENC1, ENC2):
            if f.name == "encode":
                this.val = ("enc", self.gval(args[0]))
                return None
            raise SymxError("no contract for %s" % f.qname)
        if self.is_group(this.type) and f.name == "write_big_endian":
            dst = I.rv(args[0])
            v = self.gval(this)
            items = dst.arr.items
            if dst.idx != 0 or len(items) != 576:
                from symx import Finding
                raise Finding("out-of-bounds", "GT::write_big_endian into %d bytes at offset %d" % (len(items), dst.idx))
            for k, c in enumerate(items):
                c.v = ("be", k, v)
            return None
        if self.is_group(this.type) and f.name == "from_hash":
            src = I.rv(args[0])
            this.val = Lin.gen("H(idhash)")
            return None
        return GroupDomain.method(self, I, f, this, args)

    def call_pointer(self, I, fp, args):
        if fp == "hash_fill":
            sym, n, buf, size = args
            if isinstance(size, tuple):
                size = self.sizeof(I, size[1])
            b = buf.deref()
            pv = [c.v for c in b.f["pairing"].items]
            vals = {v[2] for v in pv if isinstance(v, tuple)}
            whole = all(isinstance(v, tuple) and v[1] == k for k, v in enumerate(pv)) and len(vals) == 1
            self.hash_calls.append(dict(symmetric=sym, length=n, size=size, q=b.f["q"].val, rp=b.f["rp"].val,
                                        pairing=(next(iter(vals)) if whole else None), bufsize=self.sizeof(I, b.type)))
            return None
        raise SymxError("call through pointer %r" % (fp,))


class World:
    def __init__(self, tu, path):
        self.tu = tu
        self.dom = LQDomain(consts=U.SHARED.get("consts"))
        self.I = Interp(tu, self.dom)
        self.I.path = path
        self.I.scopes = ["lqibe"]
        self.inputs = set()

    def new(self, t):
        return self.I.new_object(t)

    def call(self, name, *args):
        return self.I.call(self.tu.func(NS + name), None, list(args))

    def same(self, oid, got, want, cx=None):
        if not isinstance(got, Lin):
            return (oid, "fail", "not a group element: %r" % (got,), cx)
        st, model = residual_check(self.dom, got - want, self.inputs)
        if st == "ok":
            return (oid, "ok", "== %r" % (want,), None)
        if st == "refuted":
            return (oid, "fail", "code - spec = %r" % (got - want,), cx)
        return (oid, "undecided", str(model), None)


def gen_lq(tu):
    def run(path, length="len"):
        w = World(tu, path)
        P_ = Lin.gen("P")
        s = w.dom.input_scalar("s")              # master scalar: any 256-bit value (unmarshalled keys may be >= r)
        w.inputs.add("s")
        Q = Lin.gen("Q")
        cx = dict(op="lq:encdec")
        obs = []
        # keygen
        msk = w.new(NS + "MasterKey")
        msk.f["s"].val = s
        idv = w.new(NS + "ID")
        idv.f["q"].val = Q
        sk = w.new(NS + "SecretKey")
        w.call("keygen", sk, msk, idv)
        obs.append(w.same("keygen: sq == s*Q", sk.f["sq"].val, Q.scale(s), cx))
        # setup (fresh master scalar) : sp = s'*p
        params0, msk0 = w.new(NS + "Params"), w.new(NS + "MasterKey")
        w.call("setup", params0, msk0, Cell("rng"))
        s0, p0 = msk0.f["s"].val, params0.f["p"].val
        ok = isinstance(s0, Poly) and len(s0.vars()) == 1 and s0.vars()[0].startswith("rnd#") and isinstance(p0, Lin) and len(p0.t) == 1
        obs.append(("setup: fresh s, fresh generator p", "ok" if ok else "fail", "s = %r, p = %r" % (s0, p0), cx))
        if ok:
            obs.append(w.same("setup: sp == s*p", params0.f["sp"].val, p0.scale(s0), cx))
        # encrypt / decrypt with params (P, sP)
        params = w.new(NS + "Params")
        params.f["p"].val = P_
        params.f["sp"].val = P_.scale(s)
        ct = w.new(NS + "Ciphertext")
        symbuf = Ptr(Arr("uint8_t", [Cell(0) for _ in range(4)]), 0)
        n = length
        w.call("encrypt", ct, symbuf, Cell(n), params, idv, Cell("hash_fill"), Cell("rng"))
        enc_calls = list(w.dom.hash_calls)
        w.dom.hash_calls.clear()
        rp = ct.f["rp"].val
        okr = isinstance(rp, Lin) and set(rp.t) == {"P"} and len(rp.coeff("P").vars()) == 1 and rp.coeff("P").vars()[0].startswith("rnd#")
        obs.append(("encrypt: ciphertext == r*P, r fresh", "ok" if okr else "fail", "rp = %r" % (rp,), cx))
        w.call("decrypt", symbuf, Cell(n), ct, sk, idv, Cell("hash_fill"))
        dec_calls = list(w.dom.hash_calls)
        w.dom.hash_calls.clear()
        for nm, calls in (("encrypt", enc_calls), ("decrypt", dec_calls)):
            obs.append((nm + ": hash_fill called exactly once", "ok" if len(calls) == 1 else "fail", "%d calls" % len(calls), cx))
        if len(enc_calls) == 1 and len(dec_calls) == 1 and okr:
            e, d = enc_calls[0], dec_calls[0]
            r = rp.coeff("P")
            for nm, c in (("encrypt", e), ("decrypt", d)):
                obs.append((nm + ": hash_fill(symmetric, symmetric_length, &buffer, sizeof buffer)",
                            "ok" if (c["symmetric"] is symbuf or (isinstance(c["symmetric"], Ptr) and c["symmetric"].same(symbuf))) and c["length"] == n and c["size"] == c["bufsize"] == 720 else "fail",
                            "length=%r size=%r sizeof(buffer)=%r" % (c["length"], c["size"], c["bufsize"]), cx))
                obs.append((nm + ": buffer.q == enc(Q)", "ok" if c["q"] == ("enc", Q) else "fail", repr(c["q"]), cx))
                obs.append((nm + ": buffer.rp == enc(r*P)", "ok" if c["rp"] == ("enc", rp) else "fail", repr(c["rp"]), cx))
                if c["pairing"] is None:
                    obs.append((nm + ": buffer.pairing fully written by write_big_endian", "fail", "partial", cx))
                else:
                    obs.append(w.same(nm + ": buffer.pairing == BE(e(Q,P)^(r*s))", c["pairing"], pair(Q, P_).scale(r * s), cx))
            # bound to identity / master key / ciphertext (generic reading)
            idv2 = w.new(NS + "ID")
            idv2.f["q"].val = Lin.gen("Q2")
            sk2 = w.new(NS + "SecretKey")
            w.call("keygen", sk2, msk, idv2)
            w.call("decrypt", symbuf, Cell(n), ct, sk2, idv2, Cell("hash_fill"))
            o = w.dom.hash_calls.pop()
            obs.append(("other identity -> different hashed bytes", "ok" if (o["q"] != e["q"] and not (o["pairing"] - e["pairing"]).is_zero()) else "fail", "", cx))
            msk3 = w.new(NS + "MasterKey")
            msk3.f["s"].val = w.dom.input_scalar("s3")
            sk3 = w.new(NS + "SecretKey")
            w.call("keygen", sk3, msk3, idv)
            w.call("decrypt", symbuf, Cell(n), ct, sk3, idv, Cell("hash_fill"))
            o = w.dom.hash_calls.pop()
            obs.append(("other master key -> different hashed bytes", "ok" if not (o["pairing"] - e["pairing"]).is_zero() else "fail", "", cx))
            ct4 = w.I.clone(ct)
            ct4.f["rp"].val = rp + Lin.gen("dR")
            w.call("decrypt", symbuf, Cell(n), ct4, sk, idv, Cell("hash_fill"))
            o = w.dom.hash_calls.pop()
            obs.append(("modified ciphertext -> different hashed bytes", "ok" if (o["rp"] != e["rp"] and not (o["pairing"] - e["pairing"]).is_zero()) else "fail", "", cx))
        return obs
    yield "symbolic length", guarded(run)
    yield "length 0", guarded(lambda p: run(p, 0))


def gen_id(tu):
    def run(path):
        w = World(tu, path)
        h = w.new(NS + "IDHash")
        for c in h.f["hash"].items:
            c.v = 0
        idv = w.new(NS + "ID")
        w.call("compute_id_from_hash", idv, h)
        cof = w.dom.consts.value("G1Affine::cofactor")
        want = Lin.gen("H(idhash)").scale(cof)
        return [w.same("id.q == cofactor * from_hash(hash)", idv.f["q"].val, want, dict(op="lq:id"))]
    yield "compute_id_from_hash", guarded(run)


def units():
    lower = ["G1::multiply / G2::multiply_frobenius = (k mod r)*P (C06)", "pairing bilinear (C01)", "Encoding::encode injective (C09)", "Fq12::write_big_endian injective, 576 bytes (C04)",
             "Affine::from_hash deterministic function of the 48 bytes (C10)", "hash_fill callback: frame only"]
    return [ScenUnit("lqibe: setup / keygen / encrypt / decrypt feed hash_fill identical bytes", ["C16"], gen_lq, targets=[NS + x for x in ("setup", "keygen", "encrypt", "decrypt")], contracts_used=lower),
            ScenUnit("lqibe::compute_id_from_hash == cofactor * hash point", ["C16", "C10"], gen_id, targets=[NS + "compute_id_from_hash"], contracts_used=lower)]
