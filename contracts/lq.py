"""C16: LQ-IBE (src/lqibe/api.cpp) at the GROUP rung.

Oracle (Boneh-Franklin style KEM as described in the property): sk = s*Q_id; params = (P, sP);
encrypt: r fresh, ciphertext rP, hashed bytes = enc(Q) || enc(rP) || BE(e(Q, r*sP));
decrypt: hashed bytes = enc(Q) || enc(rP) || BE(e(s*Q, rP)).  Both call hash_fill exactly once with
(symmetric, symmetric_length, &buffer, sizeof buffer) and identical buffer contents.  `encode` and
`write_big_endian` are injective maps of the group element (C09 / C04), represented by tagged values."""
from poly import Poly
from symx import Interp, Leaf, Obj, Arr, Cell, Ptr, POISON, SymxError
from groupdom import GroupDomain, Lin, pair, residual_check, R_ORDER, TWO256
from scen import ScenUnit, guarded
import units as U

NS = "lqibe::"
ENC1, ENC2 = "Encoding<G1Affine, 1>", "Encoding<G2Affine, 1>"


class LQDomain(GroupDomain):
    def __init__(self, **kw):
        GroupDomain.__init__(self, extra_leaf=(ENC1, ENC2, "Fq"), **kw)
        self.hash_calls = []

    def contract_for(self, I, f, this, args):
        if f.qname in ("Fr::hash_reduce", "Fq::hash_reduce") and this is not None and not isinstance(this, Leaf):
            return self.hash_reduce
        return GroupDomain.contract_for(self, I, f, this, args)

    def hash_reduce(self, I, f, this, args):
        """contract of Fp::hash_reduce (C10, BV unit): val' == (val mod 2^k) mod p with k the modulus' bit length, returns the discarded top bit.
        In the Z_r-module reading: val' == val - 2^k * top (mod r), top in {0, 1} a fresh unknown -- exact, not an over-approximation"""
        from poly import Poly
        k = 255 if f.qname.startswith("Fr") else 381
        leaf = this.f["val"]
        v = self.sval(leaf)
        top = self.fresh_scalar("topbit", 0, 2)
        leaf.val = Poly.const(0) + v - top * (1 << k)
        return top

    def method(self, I, f, this, args):
        if this.type in (ENC1, ENC2):
            if f.name == "encode":
                this.val = ("enc", self.gval(args[0]))
                return None
            raise SymxError("no contract for %s" % f.qname)
        if self.is_group(this.type) and f.name == "write_big_endian":
            dst = I.rv(args[0])
            v = self.gval(this)
            items = dst.arr.items
            if dst.idx != 0 or len(items) != 576:
                from symx import Finding
                raise Finding("out-of-bounds", "GT::write_big_endian into %d bytes at offset %d" % (len(items), dst.idx))
            for k, c in enumerate(items):
                c.v = ("be", k, v)
            return None
        if self.is_group(this.type) and f.name == "from_hash":
            src = I.rv(args[0])
            this.val = Lin.gen("H(idhash)")
            self.hash_points = [this.val]
            return None
        if self.is_group(this.type) and f.name == "try_and_increment":
            # the next accepted candidate after the given x: another curve point, a deterministic function of the hash (C10)
            self.hash_points.append(Lin.gen("H(idhash)+%d" % len(self.hash_points)))
            this.val = self.hash_points[-1]
            return None
        if self.is_group(this.type) and f.name == "is_zero":
            v = self.gval(this)
            gens = list(v.t) if hasattr(v, "t") else []
            if len(gens) == 1 and str(gens[0]).startswith("H(idhash)"):
                # cofactor * (hash point): the hash point is a curve point of unknown order, so both outcomes are possible
                self.zero_tests = getattr(self, "zero_tests", 0) + 1
                if self.zero_tests > 3:
                    from scen import Abandon
                    raise Abandon()
                d = I.path.decide(("is_zero", "cofactor * " + str(gens[0])), (0, 1))
                self.last_zero_test = (gens[0], d)
                return d
        if this.type == "Fq":
            if f.name == "add":
                this.val = Poly.var("x+1")
                return None
        return GroupDomain.method(self, I, f, this, args)

    def leaf_member(self, I, leaf, name):
        if self.is_group(leaf.type) and name == "x":
            return Leaf("Fq", Poly.var("x(%s)" % (list(self.gval(leaf).t)[0] if getattr(self.gval(leaf), "t", None) else "?")))
        return GroupDomain.leaf_member(self, I, leaf, name)

    def call_pointer(self, I, fp, args):
        if fp == "hash_fill":
            sym, n, buf, size = args
            if isinstance(size, tuple):
                size = self.sizeof(I, size[1])
            b = buf.deref()
            pv = [c.v for c in b.f["pairing"].items]
            vals = {v[2] for v in pv if isinstance(v, tuple)}
            whole = all(isinstance(v, tuple) and v[1] == k for k, v in enumerate(pv)) and len(vals) == 1
            self.hash_calls.append(dict(symmetric=sym, length=n, size=size, q=b.f["q"].val, rp=b.f["rp"].val,
                                        pairing=(next(iter(vals)) if whole else None), bufsize=self.sizeof(I, b.type)))
            return None
        raise SymxError("call through pointer %r" % (fp,))


class World:
    def __init__(self, tu, path):
        self.tu = tu
        self.dom = LQDomain(consts=U.SHARED.get("consts"))
        self.I = Interp(tu, self.dom)
        self.I.path = path
        self.I.scopes = ["lqibe"]
        self.inputs = set()

    def new(self, t):
        return self.I.new_object(t)

    def call(self, name, *args):
        return self.I.call(self.tu.func(NS + name), None, list(args))

    def same(self, oid, got, want, cx=None):
        if not isinstance(got, Lin):
            return (oid, "fail", "not a group element: %r" % (got,), cx)
        st, model = residual_check(self.dom, got - want, self.inputs)
        if st == "ok":
            return (oid, "ok", "== %r" % (want,), None)
        if st == "refuted":
            return (oid, "fail", "code - spec = %r" % (got - want,), cx)
        return (oid, "undecided", str(model), None)


def gen_lq(tu):
    def run(path, length="len"):
        w = World(tu, path)
        P_ = Lin.gen("P")
        s = w.dom.input_scalar("s")              # master scalar: any 256-bit value (unmarshalled keys may be >= r)
        w.inputs.add("s")
        Q = Lin.gen("Q")
        cx = dict(op="lq:encdec")
        obs = []
        # keygen
        msk = w.new(NS + "MasterKey")
        msk.f["s"].val = s
        idv = w.new(NS + "ID")
        idv.f["q"].val = Q
        sk = w.new(NS + "SecretKey")
        w.call("keygen", sk, msk, idv)
        obs.append(w.same("keygen: sq == s*Q", sk.f["sq"].val, Q.scale(s), cx))
        # setup (fresh master scalar) : sp = s'*p
        params0, msk0 = w.new(NS + "Params"), w.new(NS + "MasterKey")
        w.call("setup", params0, msk0, Cell("rng"))
        s0, p0 = msk0.f["s"].val, params0.f["p"].val
        ok = isinstance(s0, Poly) and len(s0.vars()) == 1 and s0.vars()[0].startswith("rnd#") and isinstance(p0, Lin) and len(p0.t) == 1
        obs.append(("setup: fresh s, fresh generator p", "ok" if ok else "fail", "s = %r, p = %r" % (s0, p0), cx))
        if ok:
            obs.append(w.same("setup: sp == s*p", params0.f["sp"].val, p0.scale(s0), cx))
        # encrypt / decrypt with params (P, sP)
        params = w.new(NS + "Params")
        params.f["p"].val = P_
        params.f["sp"].val = P_.scale(s)
        ct = w.new(NS + "Ciphertext")
        symbuf = Ptr(Arr("uint8_t", [Cell(0) for _ in range(4)]), 0)
        n = length
        w.call("encrypt", ct, symbuf, Cell(n), params, idv, Cell("hash_fill"), Cell("rng"))
        enc_calls = list(w.dom.hash_calls)
        w.dom.hash_calls.clear()
        rp = ct.f["rp"].val
        okr = isinstance(rp, Lin) and set(rp.t) == {"P"} and len(rp.coeff("P").vars()) == 1 and rp.coeff("P").vars()[0].startswith("rnd#")
        obs.append(("encrypt: ciphertext == r*P, r fresh", "ok" if okr else "fail", "rp = %r" % (rp,), cx))
        w.call("decrypt", symbuf, Cell(n), ct, sk, idv, Cell("hash_fill"))
        dec_calls = list(w.dom.hash_calls)
        w.dom.hash_calls.clear()
        for nm, calls in (("encrypt", enc_calls), ("decrypt", dec_calls)):
            obs.append((nm + ": hash_fill called exactly once", "ok" if len(calls) == 1 else "fail", "%d calls" % len(calls), cx))
        if len(enc_calls) == 1 and len(dec_calls) == 1 and okr:
            e, d = enc_calls[0], dec_calls[0]
            r = rp.coeff("P")
            for nm, c in (("encrypt", e), ("decrypt", d)):
                obs.append((nm + ": hash_fill(symmetric, symmetric_length, &buffer, sizeof buffer)",
                            "ok" if (c["symmetric"] is symbuf or (isinstance(c["symmetric"], Ptr) and c["symmetric"].same(symbuf))) and c["length"] == n and c["size"] == c["bufsize"] == 720 else "fail",
                            "length=%r size=%r sizeof(buffer)=%r" % (c["length"], c["size"], c["bufsize"]), cx))
                obs.append((nm + ": buffer.q == enc(Q)", "ok" if c["q"] == ("enc", Q) else "fail", repr(c["q"]), cx))
                obs.append((nm + ": buffer.rp == enc(r*P)", "ok" if c["rp"] == ("enc", rp) else "fail", repr(c["rp"]), cx))
                if c["pairing"] is None:
                    obs.append((nm + ": buffer.pairing fully written by write_big_endian", "fail", "partial", cx))
                else:
                    obs.append(w.same(nm + ": buffer.pairing == BE(e(Q,P)^(r*s))", c["pairing"], pair(Q, P_).scale(r * s), cx))
            # bound to identity / master key / ciphertext (generic reading)
            idv2 = w.new(NS + "ID")
            idv2.f["q"].val = Lin.gen("Q2")
            sk2 = w.new(NS + "SecretKey")
            w.call("keygen", sk2, msk, idv2)
            w.call("decrypt", symbuf, Cell(n), ct, sk2, idv2, Cell("hash_fill"))
            o = w.dom.hash_calls.pop()
            obs.append(("other identity -> different hashed bytes", "ok" if (o["q"] != e["q"] and not (o["pairing"] - e["pairing"]).is_zero()) else "fail", "", cx))
            msk3 = w.new(NS + "MasterKey")
            msk3.f["s"].val = w.dom.input_scalar("s3")
            sk3 = w.new(NS + "SecretKey")
            w.call("keygen", sk3, msk3, idv)
            w.call("decrypt", symbuf, Cell(n), ct, sk3, idv, Cell("hash_fill"))
            o = w.dom.hash_calls.pop()
            obs.append(("other master key -> different hashed bytes", "ok" if not (o["pairing"] - e["pairing"]).is_zero() else "fail", "", cx))
            ct4 = w.I.clone(ct)
            ct4.f["rp"].val = rp + Lin.gen("dR")
            w.call("decrypt", symbuf, Cell(n), ct4, sk, idv, Cell("hash_fill"))
            o = w.dom.hash_calls.pop()
            obs.append(("modified ciphertext -> different hashed bytes", "ok" if (o["rp"] != e["rp"] and not (o["pairing"] - e["pairing"]).is_zero()) else "fail", "", cx))
        return obs
    yield "symbolic length", guarded(run)
    yield "length 0", guarded(lambda p: run(p, 0))


def gen_id(tu):
    def run(path):
        w = World(tu, path)
        h = w.new(NS + "IDHash")
        for c in h.f["hash"].items:
            c.v = 0
        idv = w.new(NS + "ID")
        w.call("compute_id_from_hash", idv, h)
        cof = w.dom.consts.value("G1Affine::cofactor")
        pts = getattr(w.dom, "hash_points", [Lin.gen("H(idhash)")])
        want = pts[-1].scale(cof)
        lz = getattr(w.dom, "last_zero_test", None)
        return [w.same("id.q == cofactor * (the hash point: from_hash(hash), or the next try-and-increment candidate after a point that the cofactor annihilates)", idv.f["q"].val, want, dict(op="lq:id")),
                ("the identity point is returned only after the cofactor-cleared point was tested and found non-zero (id.q != O: the precondition of the binding clauses)",
                 "ok" if (lz is not None and lz[1] == 0 and str(lz[0]) == str(list(pts[-1].t)[0])) else "fail",
                 "" if lz is not None else "no test: e.g. the identity hash 00..00 gives from_hash = (0, +-2), of order 3 | cofactor, hence the point at infinity, secret key O and pairing value 1 for EVERY master key", dict(op="lq:zero-hash"))]
    yield "compute_id_from_hash", guarded(run)


# ---------------------------------------------------------------------------
# The binding clauses of C16 (another master key / another identity => other hashed bytes) are proved above for an identity point Q != O
# (a formal generator).  compute_id_from_hash must therefore never return the point at infinity.  It can: try-and-increment accepts the first x with
# x^3 + 4 a square, and cofactor clearing annihilates every point whose order divides the cofactor h = 3 * 11^2 * 10177^2 * 859267^2 * 52437899^2.
# The one input that can be exhibited is x = 0: (0, +-2) is on the curve, has order 3, and 3 | h.  Decided here: those closed facts (reference
# arithmetic) + from_hash's contract (the first accepted x >= start; start = 0 is accepted because 4 is a square).  The other small-order points
# cannot be hit on purpose (their x-coordinates are roots of division polynomials; about 2^126 of the 2^381 points), which is the usual
# random-oracle argument and is NOT claimed.
def gen_id_nonzero(tu):
    def run(path):
        import tower_ref as TR
        Qm = TR.Q
        c = U.SHARED.get("consts")
        cof = c.value("G1Affine::cofactor")
        chk = lambda w, ok, m="", cx=None: (w, "ok" if ok else "fail", "" if ok else m, cx)
        # reference affine arithmetic on y^2 = x^3 + 4 over F_q
        def add(P, Q_):
            if P is None:
                return Q_
            if Q_ is None:
                return P
            (x1, y1), (x2, y2) = P, Q_
            if x1 == x2 and (y1 + y2) % Qm == 0:
                return None
            lam = (3 * x1 * x1 * pow(2 * y1, -1, Qm)) % Qm if P == Q_ else ((y2 - y1) * pow(x2 - x1, -1, Qm)) % Qm
            x3 = (lam * lam - x1 - x2) % Qm
            return (x3, (lam * (x1 - x3) - y1) % Qm)
        P0 = (0, 2)
        on_curve = (P0[1] ** 2 - P0[0] ** 3 - 4) % Qm == 0
        three = add(add(P0, P0), P0) is None
        obs = [chk("closed facts: (0, 2) lies on y^2 = x^3 + 4, [3](0, 2) == O, and 3 divides the G1 cofactor", on_curve and three and cof % 3 == 0)]
        # (this is why the test in compute_id_from_hash is needed; that it is there is the obligation of the unit above)
        return obs
    yield "zero hash", guarded(run)


def _replay_zero(rec, unit, result, fresh, tu, wd, cx):
    """native: the real compute_id_from_hash / keygen on the all-zero identity hash"""
    import replay as R_
    src = R_.unity_source() + """
#include <stdio.h>
#include <string.h>
#include "lqibe/api.hpp"
using namespace embedded_pairing;
static void rnd(void* p, size_t n) { static unsigned char s = 1; for (size_t i = 0; i < n; i++) ((unsigned char*)p)[i] = (s = s * 73 + 41); }
int main(){
  lqibe::IDHash h; memset(&h, 0, sizeof h);
  lqibe::ID id; lqibe::compute_id_from_hash(id, h);
  lqibe::Params pp; lqibe::MasterKey m1, m2; lqibe::setup(pp, m1, rnd); lqibe::setup(pp, m2, rnd);
  lqibe::SecretKey k1, k2; lqibe::keygen(k1, m1, id); lqibe::keygen(k2, m2, id);
  printf("idzero %d\\n", (int)id.q.is_zero()); printf("k1zero %d\\n", (int)k1.sq.is_zero()); printf("k2zero %d\\n", (int)k2.sq.is_zero());
  return 0; }
"""
    native, err = R_.run_native(src, wd, "lq_zero_hash_native")
    rec["native_driver_error"] = err
    if native is None:
        return False
    rec["native_outputs"] = native
    ok = native.get("idzero") == [1] and native.get("k1zero") == [1] and native.get("k2zero") == [1]
    if ok:
        rec["native_finding"] = "real compute_id_from_hash(48 zero bytes) returns the point at infinity; keygen under two different master keys returns the same secret key (O)"
    rec["confirmed_on_real_code"] = ok
    return ok


def units():
    lower = ["G1::multiply / G2::multiply_frobenius = (k mod r)*P (C06)", "pairing bilinear (C01)", "Encoding::encode injective (C09)", "Fq12::write_big_endian injective, 576 bytes (C04)",
             "Affine::from_hash deterministic function of the 48 bytes (C10)", "hash_fill callback: frame only"]
    return [ScenUnit("lqibe: setup / keygen / encrypt / decrypt feed hash_fill identical bytes", ["C16"], gen_lq, targets=[NS + x for x in ("setup", "keygen", "encrypt", "decrypt")], contracts_used=lower),
            _nz(ScenUnit("lqibe::compute_id_from_hash == cofactor * hash point, never the point at infinity", ["C16", "C10"], gen_id, targets=[NS + "compute_id_from_hash"], contracts_used=lower)),
            _nz(ScenUnit("lqibe: why compute_id_from_hash must test for the point at infinity: (0, 2) has order 3 and 3 divides the cofactor", ["C16"], gen_id_nonzero, targets=[NS + "compute_id_from_hash"],
                         contracts_used=["Affine::from_hash = first accepted x >= the reduced hash (C10)", "G1::multiply (C06)"]))]


def _nz(u):
    u.replay_hook = _replay_zero
    return u
