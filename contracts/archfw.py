"""C03 / C02: the architecture forwarders (include/core/arch/<arch>/bigint.hpp, fp.hpp).

With assembly enabled the generic BigInt / FpBase methods are replaced by explicit specialisations whose body is one call of an assembly routine
(or of the run-time dispatch pointer).  The routines are under contract elsewhere (machine code / source text against the portable routine's
contract: contracts/asm.py, asmw.py, armw.py, thumbw.py); what is decided HERE, for every specialisation of every configuration the preprocessor
can select, is the call itself:

    contract of  R C<bits>::op(p1, ..., pn)      (C in BigInt, FpBase; specialised in include/core/arch/<arch>/)
        the body is exactly   [return] callee(this, arg(p1), ..., arg(pn));
        callee    ==  embedded_pairing_core_arch_<arch>_[bmi2_adx_]<c>_<bits>_<op'>   or   runtime_<c>_<bits>_<op'>   (op' = multiply2 for shift_left_in_word<1>)
                      -- the routine (or dispatch pointer) of THIS class, width and operation; a bmi2_adx routine is called directly only when the
                      translation unit is compiled with __BMI2__ defined
        arg(p)    ==  &p (or the address of p's first member) for a reference parameter, p itself for a value parameter; in the parameters' order
        a value is returned iff the method returns one.

Configurations (each is its own clang AST dump of core/bigint.hpp + core/fp.hpp; the specialisations are found as namespace-level method
definitions, so a new one cannot be missed): x86-64 default (run-time dispatch), x86-64 compiled with -mbmi2 -madx (the `#ifdef __BMI2__` branches),
AArch64, ARMv6-M.  The two ARM dumps use clang's own freestanding headers and a declarations-only <string.h> (tools/stubinc) because no ARM C
library is installed; nothing of the library is stubbed."""
import os, re, json, subprocess
from scen import ScenUnit, guarded
import jast

P = ["C03", "C02"]
HERE = os.path.dirname(os.path.abspath(__file__))
STUBINC = os.path.join(os.path.dirname(HERE), "tools", "stubinc")

CONFIGS = [
    ("x86-64, run-time dispatch", "x86_64", [], False),
    ("x86-64 compiled with -mbmi2 -madx (__BMI2__ branches)", "x86_64", ["-mbmi2", "-madx"], True),
    ("AArch64", "aarch64", ["--target=aarch64-none-elf", "-ffreestanding", "-isystem", STUBINC], False),
    ("ARMv6-M", "armv6_m", ["--target=armv6m-none-eabi", "-mthumb", "-ffreestanding", "-isystem", STUBINC], False),
]
OPMAP = {"shift_left_in_word": "multiply2"}
FIRST_MEMBERS = {"words", "std_words", "dwords", "std_dwords", "bytes", "std_bytes", "val"}
EXPECTED = {"x86_64": 9, "aarch64": 8, "armv6_m": 8}      # number of specialisations on the pinned tree (fewer => the check says so; more are simply checked)


def dump(wd, name, flags):
    repo = jast.REPO
    src = os.path.join(wd, name + ".cpp")
    with open(src, "w") as f:
        f.write('#include "core/bigint.hpp"\n#include "core/fp.hpp"\n')
    r = subprocess.run(["clang++", "-std=c++17", "-I%s/include" % repo] + flags + ["-fsyntax-only", "-Xclang", "-ast-dump=json", src], capture_output=True, text=True)
    if r.returncode != 0:
        raise jast.ExtractionError("clang failed on the forwarder headers (%s):\n%s" % (name, r.stderr[-2000:]))
    return json.loads(r.stdout)


def specialisations(root):
    out = []

    def walk(n, par):
        if n.get("kind") == "CXXMethodDecl" and par is not None and par.get("kind") == "NamespaceDecl" and any(c.get("kind") == "CompoundStmt" for c in n.get("inner", [])):
            out.append(n)
            return
        for c in n.get("inner", []) or []:
            walk(c, n)
    walk(root, None)
    return out


def strip(n):
    """through implicit casts / parentheses"""
    while n.get("kind") in ("ImplicitCastExpr", "ParenExpr", "ExprWithCleanups", "CStyleCastExpr", "CXXStaticCastExpr", "CXXReinterpretCastExpr", "CXXConstCastExpr", "CXXFunctionalCastExpr") and n.get("inner"):
        n = n["inner"][0]
    return n


def find(n, kind):
    if n.get("kind") == kind:
        return n
    for c in n.get("inner", []) or []:
        r = find(c, kind)
        if r is not None:
            return r
    return None


def arg_shape(a, temps=None):
    """('this',) | ('addr', param) | ('val', param) | ('other', text); a local pointer temporary stands for its initialiser"""
    a = strip(a)
    if a.get("kind") == "CXXThisExpr":
        return ("this",)
    if a.get("kind") == "DeclRefExpr":
        rid = a.get("referencedDecl", {}).get("id")
        if temps and rid in temps:
            return temps[rid]
        return ("val", a.get("referencedDecl", {}).get("name"))
    if a.get("kind") == "UnaryOperator" and a.get("opcode") == "&":
        x = strip(a["inner"][0])
        while x.get("kind") == "MemberExpr" and x.get("name") in FIRST_MEMBERS:
            x = strip(x["inner"][0])
        if x.get("kind") == "CXXThisExpr":
            return ("this",)
        if x.get("kind") == "DeclRefExpr":
            return ("addr", x.get("referencedDecl", {}).get("name"))
    return ("other", a.get("kind"))


def check_one(m, arch, bmi2):
    obs = []
    name = m["name"]
    params = [c for c in m["inner"] if c.get("kind") == "ParmVarDecl"]
    targs = [c.get("value") for c in m["inner"] if c.get("kind") == "TemplateArgument" and "value" in c]
    body = [c for c in m["inner"] if c.get("kind") == "CompoundStmt"][0]
    this = find(body, "CXXThisExpr")
    cls = re.search(r"(BigInt|FpBase)<(\d+)>", (this or {}).get("type", {}).get("qualType", ""))
    who = "%s::%s%s" % (cls.group(0) if cls else "?", name, "<%s>" % ",".join(map(str, targs)) if targs else "")
    chk = lambda what, ok, msg="": obs.append(("%s: %s" % (who, what), "ok" if ok else "fail", "" if ok else msg, None))
    if cls is None:
        chk("object is passed to the routine", False, "no use of `this` in the body")
        return obs
    stmts = body.get("inner", []) or []
    # leading declarations of local temporaries that merely name an argument (`const void* pa = &a;`) are part of the one call
    temps = {}
    while len(stmts) > 1 and stmts[0].get("kind") == "DeclStmt":
        ok_decl = True
        for d in stmts[0].get("inner", []):
            init = [c for c in d.get("inner", []) if c.get("kind") and not c["kind"].endswith("Attr")]
            if d.get("kind") != "VarDecl" or len(init) != 1:
                ok_decl = False
                break
            sh = arg_shape(init[0], temps)
            if sh[0] == "other":
                ok_decl = False
                break
            temps[d["id"]] = sh
        if not ok_decl:
            break
        stmts = stmts[1:]
    chk("the body is a single call (after temporaries that only name its arguments)", len(stmts) == 1, "%d statements" % len(stmts))
    if len(stmts) != 1:
        return obs
    s = stmts[0]
    returns_value = not m["type"]["qualType"].startswith("void ")
    if s.get("kind") == "ReturnStmt":
        call = strip(s["inner"][0]) if s.get("inner") else {}
    else:
        call = strip(s)
        chk("the routine's result is returned", not returns_value, "the method returns a value but the body does not")
    if call.get("kind") != "CallExpr":
        chk("the statement is a call", False, call.get("kind", "?"))
        return obs
    callee = strip(call["inner"][0])
    cname = callee.get("referencedDecl", {}).get("name", "?") if callee.get("kind") == "DeclRefExpr" else "?"
    op = OPMAP.get(name, name)
    if name == "shift_left_in_word":
        chk("only the one-bit shift is forwarded to multiply2", targs == [1], repr(targs))
    base = "%s_%s_%s" % (cls.group(1).lower(), cls.group(2), op)
    allowed = ["embedded_pairing_core_arch_%s_%s" % (arch, base), "runtime_" + base]
    if bmi2:
        allowed.append("embedded_pairing_core_arch_%s_bmi2_adx_%s" % (arch, base))
    chk("calls the routine of its own class, width and operation", cname in allowed, "calls %s; expected one of %s" % (cname, allowed))
    want = [("this",)] + [(("addr" if p["type"]["qualType"].rstrip().endswith(("&", "&__restrict")) else "val"), p.get("name")) for p in params]
    got = [arg_shape(a, temps) for a in call["inner"][1:]]
    chk("arguments are (this, operands in the parameters' order)", got == want, "passes %r, expected %r" % (got, want))
    return obs


def gen(tu):
    import units as U
    for (label, arch, flags, bmi2) in CONFIGS:
        def run(path, label=label, arch=arch, flags=flags, bmi2=bmi2):
            import tempfile, shutil
            wd = tempfile.mkdtemp(prefix="jpv.fw.")
            try:
                root = dump(wd, "fw", flags)
            finally:
                shutil.rmtree(wd, ignore_errors=True)
            ms = specialisations(root)
            obs = [("%s: the architecture's specialisations are present (%d on the pinned tree)" % (label, EXPECTED[arch]), "ok" if len(ms) >= EXPECTED[arch] else "fail", "found %d" % len(ms), None)]
            for m in ms:
                obs += check_one(m, arch, bmi2)
            return obs
        yield label, guarded(run)


def _replay(rec, unit, result, fresh, tu, wd, cx):
    """native (x86-64 configurations only -- no ARM tool chain here): the real specialised methods, compiled in the refuted configuration and linked
    with the real assembly, on a spread of operands; oracle = Python integers"""
    import random
    from bvspec import Q
    txt = " ".join(str(f[0]) for f in fresh)
    cfgs = [c for c in CONFIGS if c[1] == "x86_64" and ("[%s]" % c[0]) in txt]
    if not cfgs:
        rec["note"] = "the refuted forwarder belongs to an ARM configuration: no native replay possible in this sandbox"
        return False
    repo = jast.REPO
    rnd = random.Random(5)
    ops = [(rnd.randrange(Q), rnd.randrange(Q)) for _ in range(6)] + [(Q - 1, Q - 2), (1, 2), (0, 5), ((1 << 384) - 1, (1 << 383) + 12345)]
    W = lambda v, n: ", ".join("%dULL" % ((v >> (64 * i)) & (2**64 - 1)) for i in range(n))
    lines = ['#include "core/bigint.hpp"', '#include "core/fp.hpp"', "#include <stdio.h>", "#include <string.h>", "using namespace embedded_pairing::core;",
             "static void out(const char* n, int k, const void* p, int w){ printf(\"%s%d\", n, k); uint64_t t[12]; memcpy(t, p, 8 * w); for(int i=0;i<w;i++) printf(\" %llu\", (unsigned long long)t[i]); printf(\"\\n\"); }",
             "int main(){ BigInt<384> p; { uint64_t w[6] = {%s}; memcpy(&p, w, 48); }" % W(Q, 6)]
    INV = (-pow(Q, -1, 1 << 64)) % (1 << 64)
    for k, (a, b) in enumerate(ops):
        lines.append("  { BigInt<384> a, b, r; uint64_t wa[6] = {%s}, wb[6] = {%s}; memcpy(&a, wa, 48); memcpy(&b, wb, 48);" % (W(a, 6), W(b, 6)))
        lines.append("    uint64_t c; c = r.add(a, b); out(\"add\", %d, &r, 6); out(\"addc\", %d, &c, 1); c = r.subtract(a, b); out(\"sub\", %d, &r, 6); out(\"subc\", %d, &c, 1);" % (k, k, k, k))
        lines.append("    c = r.shift_left_in_word<1>(a); out(\"dbl\", %d, &r, 6); out(\"dblc\", %d, &c, 1);" % (k, k))
        lines.append("    BigInt<768> m; m.multiply(a, b); out(\"mul\", %d, &m, 12); m.square(a); out(\"sqr\", %d, &m, 12);" % (k, k))
        lines.append("    m.multiply(a, b); FpBase<384> f; f.montgomery_reduce(m, p, %dULL); out(\"red\", %d, &f, 6);" % (INV, k))
        if a < Q and b < Q:
            lines.append("    FpBase<384> x, y, z; memcpy(&x, wa, 48); memcpy(&y, wb, 48); z.add(x, y, p); out(\"fadd\", %d, &z, 6); z.subtract(x, y, p); out(\"fsub\", %d, &z, 6); z.multiply2(x, p); out(\"fdbl\", %d, &z, 6);" % (k, k, k))
        lines.append("  }")
    lines.append("  return 0; }")
    V = lambda ws: sum(x << (64 * i) for i, x in enumerate(ws))
    for (label, arch, flags, bmi2) in cfgs:
        src = os.path.join(wd, "fw_native.cpp")
        open(src, "w").write("\n".join(lines))
        exe = os.path.join(wd, "fw_native")
        adir = os.path.join(repo, "src/core/arch/x86_64")
        r = subprocess.run(["clang++", "-std=c++17", "-O1", "-w", "-I%s/include" % repo] + flags + [src] + [os.path.join(adir, f) for f in sorted(os.listdir(adir))] + ["-o", exe], capture_output=True, text=True)
        if r.returncode != 0:
            rec["native_driver_error"] = r.stderr[-1500:]
            continue
        r = subprocess.run([exe], capture_output=True, text=True, timeout=120)
        got = {}
        for line in r.stdout.splitlines():
            parts = line.split()
            if parts:
                got[parts[0]] = V([int(x) for x in parts[1:]])
        R = 1 << 384
        for k, (a, b) in enumerate(ops):
            want = {"add": (a + b) % R, "addc": (a + b) >> 384, "sub": (a - b) % R, "subc": 1 if a < b else 0, "dbl": (2 * a) % R, "dblc": (2 * a) >> 384, "mul": a * b, "sqr": a * a}
            if a * b < Q * R:
                want["red"] = None
            if a < Q and b < Q:
                want.update(fadd=(a + b) % Q, fsub=(a - b) % Q, fdbl=(2 * a) % Q)
            for key, w in want.items():
                g = got.get("%s%d" % (key, k))
                if g is None:
                    continue
                bad = (g >= Q or (g * R - a * b) % Q != 0) if key == "red" else (g != w) and not (key == "dblc" and (g != 0) == (w != 0))
                if bad:
                    rec["native_finding"] = "configuration %s: the real specialised method behind `%s` on a = %d, b = %d returns %d, the integers say %s" % (label, key, a, b, g, w if w is not None else "a*b/R mod q")
                    rec["confirmed_on_real_code"] = True
                    return True
    rec["confirmed_on_real_code"] = False
    return False


def units():
    us = [ScenUnit("architecture forwarders: every specialised BigInt / FpBase method passes (this, operands in order) to the routine of its own operation, in every preprocessor configuration",
                     P, gen, targets=[], contracts_used=["the routines themselves: contracts/asm.py, asmw.py (x86-64 machine code), armw.py, thumbw.py (ARM source text)"],
                     note="x86-64 default / x86-64 with __BMI2__ at compile time / AArch64 / ARMv6-M; AST of the real headers")]
    us[0].replay_hook = _replay
    return us
