"""C15 / C17: the slot loops of Params / SecretKey marshal and unmarshal for EVERY slot count (CBMC loop contracts; no bound on l).

contracts/marsh.py unrolls these loops for l in {0, 1, 2} and checks the whole layout event by event.  What an unrolling cannot see is arithmetic
that depends on how many slots there are (a narrow index, a stride that wraps, an offset computed in the wrong type).  Here the same real bodies
are put under a loop contract with l symbolic (0 <= l < 2^24, the domain of the length functions), the buffer of exactly the format's length
n = fixed(flag) + l * slot, and ONE ghost slot position t (a nondeterministic constant), which turns "for every slot" into a quantifier-free
statement:

  marshal    ensures  #encoder calls == #fixed components + l
                      t < l  ==>  the encoder call at offset fixed + t*slot had length |G1| and source  self.h[t] / self.b[t].hexp   (by ghost tag),
                                  and (SecretKey) the four bytes after it are the big-endian self.b[t].idx
             every encoder call lies inside the buffer (asserted in the recorder), every access in bounds (CBMC instrumentation)
  unmarshal  ensures  result == all decoders accepted;   result ==>  #decoder calls == #fixed + l,
                      t < l  ==>  self.h[t] / self.b[t].hexp was decoded from offset fixed + t*slot, self.b[t].idx == big-endian bytes there
  loop invariant      0 <= i <= l, #calls == #fixed + i, the two ghost-slot facts with i in place of l;  decreases l - i.

The group encoders / decoders are the same ghost recorders as in contracts/marsh.py (trusted stubs); only the recorder differs (it keeps the one
event at the ghost offset instead of a bounded trace)."""
from bvspec import *
from units import BVUnit
import marsh as M

P15 = ["C15", "C17"]
LMAX = "(1 << 24)"

TRACE1 = r'''
size_t jpv_cnt; _Bool jpv_hit; uint64_t jpv_hit_tag; size_t jpv_hit_len; size_t jpv_target; int jpv_t;
_Bool jpv_all_ok; uint64_t jpv_pair_g1, jpv_pair_g2;
const void *jpv_buf; size_t jpv_buflen;
static void jpv_record(const void *p, size_t len, uint64_t tag)
{
  __CPROVER_assert(__CPROVER_same_object(p, jpv_buf), "encoder / decoder works inside the caller's buffer");
  size_t off = (size_t)(__CPROVER_POINTER_OFFSET(p) - __CPROVER_POINTER_OFFSET(jpv_buf));
  __CPROVER_assert(off <= jpv_buflen && len <= jpv_buflen - off, "encoded element lies inside the buffer");
  if (off == jpv_target) { jpv_hit = 1; jpv_hit_tag = tag; jpv_hit_len = len; }
  jpv_cnt++;
}
#define JPV_TAG(p) (*(const uint64_t *)(p))
#define JPV_SETTAG(p, v) (*(uint64_t *)(p) = (v))
'''
HAVOC_T = "  { int jpv_nd; jpv_t = jpv_nd; }\n"


def nfixed(kind, c, sig):
    lay, _ = M.layout(kind, c, sig, 0)
    return len([1 for x in lay if x[3] and not x[3].startswith("idx:")])


def fixed_bytes(kind, c, sig):
    return M.layout(kind, c, sig, 0)[1]


def be32_at(off):
    b = lambda k: "(uint32_t)((const uint8_t *)buffer)[(%s) + %d]" % (off, k)
    return "((%s << 24) | (%s << 16) | (%s << 8) | %s)" % (b(0), b(1), b(2), b(3))


def common_pre(kind, c, sig, op):
    fld, ty = M.slot_type(kind)
    F, S = fixed_bytes(kind, c, sig), M.slot(kind.split("::")[1], c)
    n = "((size_t)%d + (size_t)self->l * (size_t)%d)" % (F, S)
    pre = [fresh("self"), "0 <= self->l && self->l < %s" % LMAX, "__CPROVER_is_fresh(buffer, %s)" % n,
           "__CPROVER_is_fresh(self->%s, (size_t)self->l * sizeof(%s))" % (fld, ty),
           "jpv_cnt == 0", "jpv_hit == 0", "jpv_buf == buffer", "jpv_buflen == %s" % n,
           "0 <= jpv_t", "jpv_target == (size_t)%d + (size_t)jpv_t * (size_t)%d" % (F, S)]
    if op == "marshal":
        pre.append("self->signatures == %d" % sig)
    else:
        pre += [("((const uint8_t *)buffer)[0] != 0" if sig else "((const uint8_t *)buffer)[0] == 0"), "jpv_all_ok == 1"]
    return pre, F, S


def slot_facts(kind, c, op, top):
    """the ghost-slot facts, with `top` the number of slots processed so far"""
    G1 = M.G1S[c]
    fld = "h[jpv_t]" if kind == "wkdibe::Params" else "b[jpv_t].hexp"
    if op == "marshal":
        f = ["(jpv_t < %s) ==> (jpv_hit && jpv_hit_len == %d && jpv_hit_tag == JPV_TAG(&self->%s))" % (top, G1, fld)]
        if kind == "wkdibe::SecretKey":
            f.append("(jpv_t < %s) ==> (%s == self->b[jpv_t].idx)" % (top, be32_at("jpv_target + %d" % G1)))
    else:
        f = ["(jpv_t < %s) ==> (JPV_TAG(&self->%s) == 0x1000 + jpv_target)" % (top, fld)]
        if kind == "wkdibe::SecretKey":
            f.append("(jpv_t < %s) ==> (self->b[jpv_t].idx == %s)" % (top, be32_at("jpv_target + %d" % G1)))
    return f


def contract(kind, c, sig, op):
    pre, F, S = common_pre(kind, c, sig, op)
    nf = nfixed(kind, c, sig)
    fld, ty = M.slot_type(kind)
    ghost = ["jpv_cnt", "jpv_hit", "jpv_hit_tag", "jpv_hit_len"]
    if op == "marshal":
        post = ["jpv_cnt == (size_t)%d + (size_t)self->l" % nf] + slot_facts(kind, c, op, "self->l")
        return req(*pre) + assigns("__CPROVER_object_whole(buffer)", *ghost) + ens(*post)
    concl = ["jpv_cnt == (size_t)%d + (size_t)self->l" % nf] + ["(%s)" % x for x in slot_facts(kind, c, op, "self->l")]
    post = ["__CPROVER_return_value == jpv_all_ok", "__CPROVER_return_value ==> (%s)" % " && ".join(concl)]
    return req(*pre) + assigns("__CPROVER_object_whole(self)", "__CPROVER_object_whole(self->%s)" % fld, "jpv_all_ok", "jpv_pair_g1", "jpv_pair_g2", *ghost) + ens(*post)


def loop(kind, c, sig, op):
    nf = nfixed(kind, c, sig)
    fld, ty = M.slot_type(kind)
    inv = ["0 <= i && i <= self->l", "jpv_cnt == (size_t)%d + (size_t)i" % nf] + slot_facts(kind, c, op, "i")
    if op == "unmarshal":
        inv.append("jpv_all_ok == 1")
        tg = "i, jpv_cnt, jpv_hit, jpv_hit_tag, jpv_hit_len, jpv_all_ok, __CPROVER_object_whole(self->%s)" % fld
    else:
        tg = "i, jpv_cnt, jpv_hit, jpv_hit_tag, jpv_hit_len, __CPROVER_object_whole(buffer)"
    txt = "__CPROVER_assigns(%s)\n" % tg
    txt += "".join("__CPROVER_loop_invariant(%s)\n" % x for x in inv)
    txt += "__CPROVER_decreases(self->l - i)\n"
    return {1: txt}


def units():
    us = []
    for kind in ("wkdibe::Params", "wkdibe::SecretKey"):
        for c in (1, 0):
            for sig in (0, 1):
                for op in ("marshal", "unmarshal"):
                    q = "%s::%s<%d>" % (kind, op, c)
                    bodies = ["wkdibe::FreeSlot::%s<%d>" % (op, c), "wkdibe::uint32_swap_endianness"] if kind == "wkdibe::SecretKey" else []
                    nf = nfixed(kind, c, sig)
                    u = BVUnit(q, {q: contract(kind, c, sig, op)}, P15, bodies=bodies, unwind=12, label=q + "[every l, flag=%d]: slot loop (loop contract)" % sig,
                               spec_prelude=TRACE1, timeout=1500, loop_contracts={q: loop(kind, c, sig, op)}, extra=["--object-bits", "11"],
                               canary=("jpv_cnt == (size_t)%d + (size_t)self->l" % nf, "jpv_cnt == (size_t)%d + (size_t)self->l" % (nf + 1)),
                               note="loop contract on the slot loop, l symbolic below 2^24, buffer of exactly the format's length; one ghost slot position; group encoders / decoders / pairing replaced by ghost recorders (trusted stubs)")
                    u.stub_factory = (lambda tu, c=c: M.stubs(tu, c))
                    u.harness_pre = HAVOC_T
                    if (c, sig) not in ((1, 1), (0, 0)):
                        u.tier = "thorough"      # same template text; the quick tier runs (compressed, signatures) and (uncompressed, none)
                    us.append(u)
    return us
