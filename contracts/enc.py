"""C09: Encoding<{G1,G2}Affine,{compressed,uncompressed}>::{encode,decode} (src/bls12_381/curve.cpp) -- BV back end.

Oracle = the encoding described by the property: big-endian coordinates, three flag bits (compressed 0x80, infinity 0x40,
greater 0x20) in the first byte, Fq2 as c1 || c0.  Validating decode must accept a byte string only if it is EXACTLY what
encode produces for the point it returns: right form, canonical identity, every raw coordinate < q (and no stray bits in
later coordinates), sign flag consistent, on the curve, in the subgroup.
Field-level callees are ghost stubs that state their C02/C04 contracts on plain integers (the Montgomery representation is
irrelevant to the byte logic): read_big_endian = (BE & 2^381-1) mod q, write_big_endian = BE of the canonical value,
negate / compare on integers mod q; curve-level predicates (get_point_from_x, is_on_curve, subgroup test) are recorded
nondeterministic oracles whose own contracts are C05 / C06 units."""
from bvspec import *
from units import BVUnit

P = ["C09", "C17"]
import os
SOLVER = os.environ.get("JPV_ENC_SOLVER", "--sat-solver cadical").split()
G1A, G2A = "Affine<Fq, Fr, g1_b_coeff_var>", "Affine<Fq2, Fr, g2_b_coeff_var>"


def be48(d, o):
    return "(" + " | ".join("((uv384)(%s)[%d] << %d)" % (d, o + k, 8 * (47 - k)) for k in range(48)) + ")"


PRELUDE = ("#define JPV_MASK381 ((((uv384)1) << 381) - 1)\n"
           "_Bool jpv_gp_ret, jpv_oc_ret, jpv_sg_ret, jpv_gp_greater, jpv_gp_checked; int jpv_gp_called, jpv_oc_called, jpv_sg_called;\n"
           "static void jpv_store(FpBase_384 *f, uv384 v) { f->val.words[0] = (uint64_t)v; f->val.words[1] = (uint64_t)(v >> 64); f->val.words[2] = (uint64_t)(v >> 128); f->val.words[3] = (uint64_t)(v >> 192); f->val.words[4] = (uint64_t)(v >> 256); f->val.words[5] = (uint64_t)(v >> 320); }\n"
           "#define JPV_BE48(d, o) %s\n" % be48("d", 0).replace("[0 +", "[(o) +").replace("(d)[", "(d)[(o) + ") )

STUB_READ = "{ uv384 v = JPV_BE48($0, 0) & JPV_MASK381; if (v >= SPEC_Q) v -= SPEC_Q; jpv_store(self, v); }"
STUB_WRITE = "{ uv384 v = VAL384(&self->val); __CPROVER_assert(v < SPEC_Q, \"field element handed to write_big_endian is canonical\"); for (int k = 0; k < 48; k++) $0[k] = (uint8_t)(v >> (8 * (47 - k))); }"
STUB_NEG = "{ uv384 v = VAL384(&$0->val); jpv_store(self, v == 0 ? v : SPEC_Q - v); }"
STUB_CMP = "{ uv384 x = VAL384(&$0->val), y = VAL384(&$1->val); return x < y ? -1 : (x > y ? 1 : 0); }"
STUB_GP = "{ jpv_gp_called++; jpv_gp_greater = $1; jpv_gp_checked = $2; if (jpv_gp_ret) { self->x = *$0; self->infinity = 0; } return jpv_gp_ret; }"
STUB_OC = "{ jpv_oc_called++; return jpv_oc_ret; }"
STUB_SG = "{ jpv_sg_called++; return jpv_sg_ret; }"


def stubs_for(tu):
    st = {"Fq::read_big_endian": STUB_READ, "Fq::write_big_endian": STUB_WRITE, "Fq::compare": STUB_CMP,
          "Fp<384, fq_modulus_var, fq_R_var, fq_R2_var, fq_inv_var>::negate": STUB_NEG}
    for A in (G1A, G2A):
        st[A + "::get_point_from_x"] = STUB_GP
        st[A + "::is_on_curve"] = STUB_OC
        st[A + "::is_in_correct_subgroup_assuming_on_curve"] = STUB_SG
    return st


def coords(G):
    """field components of one coordinate in wire order: (member path, byte offset inside the coordinate)"""
    return [("", 0)] if G == "G1" else [(".c1", 0), (".c0", 48)]


def fval(obj, coord, comp):
    return "VAL384(&%s->%s%s.val)" % (obj, coord, comp)


def c_decode(G, c):
    N = 48 if G == "G1" else 96
    size = N if c else 2 * N
    F = "self->data[0]"
    inf = "((%s & 0x40) != 0)" % F
    greater = "((%s & 0x20) != 0)" % F
    ok = "__CPROVER_return_value"
    raw_ok, val_ok = [], []
    for ci, (coord, base) in enumerate((("x", 0),) + ((("y", N),) if not c else ())):
        for (comp, off) in coords(G):
            first = (base + off == 0)
            raw = "JPV_BE48(self->data, %d)" % (base + off)
            raw_ok.append("((%s%s) < SPEC_Q)" % (raw, " & JPV_MASK381" if first else ""))
            red = "(((%s & JPV_MASK381) >= SPEC_Q) ? ((%s & JPV_MASK381) - SPEC_Q) : (%s & JPV_MASK381))" % (raw, raw, raw)
            val_ok.append("%s == %s" % (fval("g", coord, comp), red))
    canon = " && ".join(raw_ok)
    zeros = " && ".join("self->data[%d] == 0" % k for k in range(1, size))
    post = [
        "(%s && checked) ==> (((%s & 0x80) != 0) == %d)" % (ok, F, c),
        "(%s && %s) ==> g->infinity == 1" % (ok, inf),
        "(%s && checked && %s) ==> (%s == %d && %s)" % (ok, inf, F, (0xC0 if c else 0x40), zeros),
        "(%s && !%s) ==> (g->infinity == 0 && %s)" % (ok, inf, " && ".join(v for v in val_ok if "->x" in v or not c)),
        "(%s && checked && !%s) ==> (%s)  /* every raw coordinate is reduced */" % (ok, inf, canon),
        "(%s && checked && !%s) ==> (jpv_sg_called == 1 && jpv_sg_ret)" % (ok, inf),
    ]
    if c:
        post.append("(%s && !%s) ==> (jpv_gp_called == 1 && jpv_gp_ret && jpv_gp_greater == %s && jpv_gp_checked == checked)" % (ok, inf, greater))
        accept = "(jpv_gp_ret && jpv_sg_ret)"
    else:
        post.append("(%s && checked && !%s) ==> (!%s && jpv_oc_called == 1 && jpv_oc_ret)" % (ok, inf, greater))
        accept = "(!%s && jpv_oc_ret && jpv_sg_ret)" % greater
    # completeness: everything the format allows is accepted
    post.append("(checked && (((%s & 0x80) != 0) == %d) && !%s && (%s) && %s) ==> %s" % (F, c, inf, canon, accept, ok))
    post.append("(checked && %s == %d && %s) ==> %s" % (F, (0xC0 if c else 0x40), zeros, ok))
    return (req(fresh("self"), fresh("g"), "jpv_gp_called == 0 && jpv_oc_called == 0 && jpv_sg_called == 0") +
            assigns("__CPROVER_object_whole(g)", "jpv_gp_called", "jpv_oc_called", "jpv_sg_called", "jpv_gp_greater", "jpv_gp_checked") + ens(*post))


def c_encode(G, c):
    N = 48 if G == "G1" else 96
    size = N if c else 2 * N
    F = "self->data[0]"
    pre = [fresh("self"), fresh("g")]
    for coord in ("x", "y"):
        for (comp, off) in coords(G):
            pre.append("g->infinity || %s < SPEC_Q" % fval("g", coord, comp))
    zeros = " && ".join("self->data[%d] == 0" % k for k in range(1, size))
    xs = []
    for (comp, off) in coords(G):
        raw = "JPV_BE48(self->data, %d)" % off
        xs.append("(%s%s) == %s" % (raw, " & JPV_MASK381" if off == 0 else "", fval("g", "x", comp)))
    post = ["g->infinity ==> (%s == %d && %s)" % (F, 0x40 | (0x80 if c else 0), zeros),
            "!g->infinity ==> (((%s & 0x80) != 0) == %d && (%s & 0x40) == 0 && %s)" % (F, c, F, " && ".join(xs))]
    if c:
        # greater <=> y > -y in the order used by compare (Fq2: c1 first, then c0)
        def neg(v):
            return "((%s) == 0 ? (uv384)0 : SPEC_Q - (%s))" % (v, v)
        if G == "G1":
            y = fval("g", "y", "")
            gt = "(%s > %s)" % (y, neg(y))
        else:
            y1, y0 = fval("g", "y", ".c1"), fval("g", "y", ".c0")
            gt = "((%s > %s) || (%s == %s && %s > %s))" % (y1, neg(y1), y1, neg(y1), y0, neg(y0))
        post.append("!g->infinity ==> (((%s & 0x20) != 0) == %s)" % (F, gt))
    else:
        ys = ["(JPV_BE48(self->data, %d)) == %s" % (N + off, fval("g", "y", comp)) for (comp, off) in coords(G)]
        post.append("!g->infinity ==> ((%s & 0x20) == 0 && %s)" % (F, " && ".join(ys)))
    return req(*pre) + assigns("__CPROVER_object_whole(self)") + ens(*post)


def units():
    us = []
    for G, A in (("G1", G1A), ("G2", G2A)):
        for c in (1, 0):
            E = "Encoding<%sAffine, %d>" % (G, c)
            bodies_d = [A + "::copy", "is_encoding_compressed"] + (["Fq2::read_big_endian"] if G == "G2" else [])
            bodies_e = [A + "::is_zero"] + (["Fq2::write_big_endian", "Fq2::negate", "Fq2::compare"] if G == "G2" else [])
            for op, contract, bodies, canary in (("decode", c_decode(G, c), bodies_d, ("jpv_sg_called == 1", "jpv_sg_called == 2")),
                                                 ("encode", c_encode(G, c), bodies_e, ("(%s & 0x40) == 0" % "self->data[0]", "(%s & 0x40) != 0" % "self->data[0]"))):
                q = E + "::" + op
                u = BVUnit(q, {q: contract}, P, bodies=bodies, unwind=200, spec_prelude=PRELUDE, canary=canary, timeout=1200, solver=SOLVER,
                           note="field byte I/O, negate, compare: ghost stubs stating the C02/C04 contracts on plain integers; curve predicates: recorded oracles")
                u.stub_factory = stubs_for
                u.optional_bodies = ["is_canonical_coordinate", "Fq2::write_big_endian", "Fq2::read_big_endian"] if op == "decode" else []
                us.append(u)
    return us


# ---------------------------------------------------------------------------
# native replay for the canonicity obligation: build, from REAL subgroup points, encodings whose coordinate is x + q (or has stray
# high bits in a later coordinate) and ask the REAL validating decode; a failing input is one that is accepted although re-encoding
# the returned point gives different bytes
def canon_hook(G, c):
    def hook(rec, unit, result, fresh, tu, wd, wit):
        import subprocess, os
        from jast import unity_source, clang_flags
        A = "%sAffine" % G
        # (1) the verifier's own witness bytes against the REAL validating decode: accepted although re-encoding differs?
        wb = wit.get("self")
        if isinstance(wb, dict):
            nb = (48 if G == "G1" else 96) * (1 if c else 2)
            data = b"".join(int(wb[i]).to_bytes(8, "little") for i in sorted(wb))[:nb]
            src1 = unity_source() + r"""
#include <stdio.h>
#include <string.h>
using namespace embedded_pairing::bls12_381;
int main() { typedef %s Aff; typedef Encoding<Aff, %s> Enc; static const unsigned char in[] = {%s};
  Enc m; memcpy(m.data, in, sizeof(m.data)); Aff d; bool ok = m.decode(d, true);
  if (!ok) { printf("rejected\n"); return 0; }
  Enc r; r.encode(d); if (memcmp(r.data, m.data, sizeof(m.data)) != 0) { printf("ACCEPTED-NONCANONICAL\n"); return 1; } printf("accepted canonical\n"); return 0; }
""" % (A, "true" if c else "false", ", ".join(str(b) for b in data))
            p1 = os.path.join(wd, "dec_witness_%s_%d.cpp" % (G, c))
            open(p1, "w").write(src1)
            r1 = subprocess.run(["clang++"] + clang_flags() + ["-O1", "-w", p1, "-o", p1[:-4]], capture_output=True, text=True)
            if r1.returncode == 0:
                o1 = subprocess.run([p1[:-4]], capture_output=True, text=True, timeout=300).stdout
                rec["native_witness_run"] = dict(bytes=data.hex(), output=o1.strip())
                if "ACCEPTED-NONCANONICAL" in o1:
                    rec["confirmed_on_real_code"] = True
                    rec["failing_input"] = data.hex()
                    return True
            else:
                rec["native_driver_error"] = r1.stderr[-800:]
        if not any("every raw coordinate is reduced" in (f[2] if len(f) > 2 else "") for f in fresh):
            return False
        N = 48 if G == "G1" else 96
        size = N if c else 2 * N
        src = unity_source() + r"""
#include <stdio.h>
#include <string.h>
using namespace embedded_pairing::core; using namespace embedded_pairing::bls12_381;
static const unsigned char Q[48] = {0x1a,0x01,0x11,0xea,0x39,0x7f,0xe6,0x9a,0x4b,0x1b,0xa7,0xb6,0x43,0x4b,0xac,0xd7,0x64,0x77,0x4b,0x84,0xf3,0x85,0x12,0xbf,0x67,0x30,0xd2,0xa0,0xf6,0xb0,0xf6,0x24,0x1e,0xab,0xff,0xfe,0xb1,0x53,0xff,0xff,0xb9,0xfe,0xff,0xff,0xff,0xff,0xaa,0xab};
static bool addq(unsigned char* p, int keepmask) { /* p[0..48) += q as big-endian integers; fails if the sum needs more than 381 bits */
  unsigned char t[48]; memcpy(t, p, 48); unsigned char fl = t[0] & keepmask; t[0] &= ~keepmask; int carry = 0;
  for (int i = 47; i >= 0; i--) { int s = t[i] + Q[i] + carry; t[i] = (unsigned char)s; carry = s >> 8; }
  if (carry || (t[0] & 0xE0)) return false; t[0] |= fl; memcpy(p, t, 48); return true; }
int main() {
  typedef %(A)s Aff; typedef Encoding<Aff, %(c)s> Enc;
  %(G)s p; p.copy(%(G)s::one); int found = 0;
  for (int k = 1; k <= 64 && !found; k++) {
    Aff a; a.from_projective(p); Enc e; e.encode(a);
    for (int coord = 0; coord * 48 < %(size)d && !found; coord++) {
      Enc m = e; bool changed = addq(&m.data[48 * coord], coord == 0 ? 0xE0 : 0);
      if (!changed && coord > 0) { m = e; m.data[48 * coord] |= 0x80; changed = true; }   /* stray bit in a later coordinate */
      if (!changed) continue;
      Aff d; bool ok = m.decode(d, true);
      if (ok) { Enc r; r.encode(d); if (memcmp(r.data, m.data, sizeof(m.data)) != 0) {
          printf("ACCEPTED-NONCANONICAL k=%%d coord=%%d bytes=", k, coord); for (unsigned i = 0; i < sizeof(m.data); i++) printf("%%02x", m.data[i]); printf("\n"); found = 1; } }
    }
    p.add(p, %(G)s::one);
  }
  printf(found ? "NATIVE-RESULT: FAIL\n" : "NATIVE-RESULT: PASS\n"); return found; }
""" % dict(A=A, G=G, c="true" if c else "false", size=size)
        p = os.path.join(wd, "canon_native_%s_%d.cpp" % (G, c))
        open(p, "w").write(src)
        r = subprocess.run(["clang++"] + clang_flags() + ["-O1", "-w", p, "-o", p[:-4]], capture_output=True, text=True)
        if r.returncode != 0:
            rec["native_driver_error"] = r.stderr[-1500:]
            return False
        out = subprocess.run([p[:-4]], capture_output=True, text=True, timeout=600).stdout
        rec["native_replay_output"] = out[-1200:]
        okk = "NATIVE-RESULT: FAIL" in out
        rec["confirmed_on_real_code"] = okk
        return okk
    return hook


_eu0 = units


def units():
    us = _eu0()
    import re
    for u in us:
        m = re.match(r"Encoding<(G\d)Affine, (\d)>::decode", u.label)
        if m:
            u.replay_hook = canon_hook(m.group(1), int(m.group(2)))
    return us
