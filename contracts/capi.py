"""C19: the C interface (include/*/​*.h, src/bls12_381/bls12_381.cpp, src/wkdibe/wkdibe.cpp, src/lqibe/lqibe.cpp).

(ii) BINDING (symbolic execution of every wrapper body, every library function replaced by a recorder): each wrapper makes exactly the
     C++ call named by the table below, passing its own parameters positionally, with the compressed flag selecting the <true>/<false>
     instantiation, and returns that call's result.  The table is written from the header names (the property's own examples included:
     gt_add -> Fq12::multiply, gt_negate -> inverse, gt_double -> square_cyclotomic).
(i)  LAYOUT and CONSTANTS (closed terms decided by the compilers' constant evaluation): for every (C struct, C++ type) pair that a
     wrapper reinterpret_casts between -- the pairs are collected from the AST -- size, alignment and the ordered (offset, size) list of
     the members are equal, in the 64-bit-word and the 32-bit-word configuration; exported constants equal the C++ values."""
import re, os, subprocess, itertools
from symx import Interp, Leaf, Obj, Arr, Cell, Ptr, POISON, SymxError, Finding
from ringdom import RingDomain
from scen import ScenUnit, guarded
from jast import unity_source, clang_flags, REPO, norm_type
import units as U

P = ["C19"]


class Opaque:
    def __init__(self, name):
        self.name = name

    def __repr__(self):
        return "<%s>" % self.name


class Recorder(RingDomain):
    """every function that is not itself a C wrapper is opaque: the call is recorded, the result is a token"""

    def __init__(self):
        RingDomain.__init__(self, set())
        self.calls = []

    def contract_for(self, I, f, this, args):
        if f.qname.startswith("embedded_pairing_"):
            return None
        # helpers with internal linkage (anonymous namespace / static free functions of the wrapper file) cannot be library API: they are part
        # of the wrapper and are executed, not recorded
        if f.body is not None and (any((x or "") in ("", "(anonymous)", "(anonymous namespace)") for x in (f.ns or [])) or (not f.is_method and f.node.get("storageClass") == "static")):
            return None
        return self.record

    def record(self, I, f, this, args):
        tok = ("ret", len(self.calls))
        self.calls.append((f.qname, this, [I.rv(a) if isinstance(a, Cell) else a for a in args], tok))
        rt = f.node["type"]["qualType"].split("(")[0].strip()
        return None if rt == "void" else tok

    def reinterpret(self, I, v, ts):
        return v

    def cast(self, I, v, ts):
        return v

    def truth(self, I, v):
        raise SymxError("branch on an opaque value %r" % (v,))

    def global_object(self, I, qn, ts):
        return Cell(("global", qn))


# ---- the binding table --------------------------------------------------------------------------------------------------------
def METHOD(callee, this, *args):
    return dict(kind="method", callee=callee, this=this, args=list(args))


def FREE(callee, *args):
    return dict(kind="free", callee=callee, args=list(args))


BLS = "embedded_pairing_bls12_381_"


def bls_table():
    T = {}
    for g, G, A in (("g1", "G1", "G1Affine"), ("g2", "G2", "G2Affine")):
        T[g + "_add"] = METHOD("Projective<%s>::add(const Projective<%s> &, const Projective<%s> &__restrict)", "result", "a", "b")
        T[g + "_add_mixed"] = METHOD("Projective<%s>::add(const Projective<%s> &, const Affine<%s", "result", "a", "b")
        T[g + "_negate"] = METHOD("Projective<%s>::negate", "result", "a")
        T[g + "_double"] = METHOD("Projective<%s>::multiply2", "result", "a")
        T[g + "_multiply"] = METHOD(G + "::multiply(const " + G + " &, const BigInt<256> &)", "result", "a", "scalar")
        T[g + "_multiply_affine"] = METHOD(G + "::multiply(const " + A + " &, const BigInt<256> &)", "result", "a", "scalar")
        T[g + "_random"] = METHOD(G + "::random_generator", "result", "get_random_bytes")
        T[g + "_equal"] = FREE("Projective<%s>::equal", "a", "b")
        T[g + "_from_affine"] = METHOD("Projective<%s>::from_affine", "result", "affine")
        T[g + "affine_from_projective"] = METHOD("Affine<%s::from_projective", "result", "projective")
        T[g + "affine_negate"] = METHOD("Affine<%s::negate", "result", "a")
        T[g + "affine_from_hash"] = METHOD("Affine<%s::from_hash", "result", "hash")
        T[g + "affine_equal"] = FREE("Affine<%s::equal", "a", "b")
        T[g + "_marshal"] = METHOD("Encoding<" + A + ", $c>::encode", "buffer", "a")
        T[g + "_unmarshal"] = METHOD("Encoding<" + A + ", $c>::decode", "buffer", "a", "checked")
        F = "Fq" if g == "g1" else "Fq2"
        for k in list(T):
            if k.startswith(g) and "%s" in T[k]["callee"]:
                AF = "Affine<%s, Fr, %s_b_coeff_var>" % (F, g)
                T[k] = dict(T[k], callee=T[k]["callee"].replace("Affine<%s", AF).replace("%s", F))
    T["g2prepared_prepare"] = METHOD("G2Prepared::prepare", "result", "a")
    T["g2prepared_is_zero"] = METHOD("G2Prepared::is_zero", "a")
    T["gt_add"] = METHOD("Fq12::multiply", "result", "a", "b")
    T["gt_negate"] = METHOD("Fq12::inverse", "result", "a")
    T["gt_double"] = METHOD("Fq12::square_cyclotomic", "result", "a")
    T["gt_multiply"] = METHOD("Fq12::exponentiate_gt(const Fq12 &, const BigInt<256> &)", "result", "a", "scalar")
    T["gt_multiply_random"] = METHOD("Fq12::random_gt", "result", "scalar", "base", "get_random_bytes")
    T["gt_equal"] = FREE("Fq12::equal", "a", "b")
    T["gt_marshal"] = METHOD("Fq12::write_big_endian", "a", "buffer")
    T["gt_unmarshal"] = METHOD("Fq12::read_big_endian", "a", "buffer")
    T["pairing"] = FREE("pairing(Fq12 &, const G1Affine &, const G2Affine &)", "result", "a", "b")
    T["prepared_pairing"] = FREE("pairing(Fq12 &, const G1Affine &, const G2Prepared &)", "result", "a", "b")
    T["pairing_sum"] = FREE("pairing_product", "result", "affine_pairs", "num_affine_pairs", "prepared_pairs", "num_prepared_pairs")
    T["zp_random"] = METHOD("Fr::random", "result", "get_random_bytes")
    return T


OBJ = {"params": "Params", "secretkey": "SecretKey", "masterkey": "MasterKey", "ciphertext": "Ciphertext", "signature": "Signature", "id": "ID"}


def expected(wname, f, tu, ns):
    """(spec dict | None) for a wrapper; ns in bls12_381 / wkdibe / lqibe"""
    short = wname[len("embedded_pairing_" + ns + "_"):]
    pnames = [p.get("name") for p in f.params]
    if ns == "bls12_381":
        return bls_table().get(short)
    m = re.match(r"^(%s)_(marshal|unmarshal|set_length|get_marshalled_length|unmarshalled_length|marshalled_length)$" % "|".join(OBJ), short)
    if m:
        cls = ns + "::" + OBJ[m.group(1)]
        op = m.group(2)
        obj = pnames[1] if op == "marshal" else pnames[0]
        if op == "marshal":
            return METHOD(cls + "::marshal<$c>", obj, "buffer")
        if op == "unmarshal":
            return METHOD(cls + "::unmarshal<$c>", obj, "buffer", "checked")
        if op == "set_length":
            return METHOD(cls + "::setLength<$c>", obj, "marshalled", "marshalled_length")
        if op == "get_marshalled_length":
            if "compressed" == pnames[0]:
                return dict(kind="constant", callee=cls + "::marshalledLength<$c>")
            return METHOD(cls + "::getMarshalledLength<$c>", obj)
        if op == "unmarshalled_length":
            return FREE(cls + "::unmarshalledLength<$c>", "marshalled", "marshalled_length")
        return FREE(cls + "::marshalledLength<$c>", "length", "signatures")
    # plain forwarding: embedded_pairing_<ns>_<op>(p...)  ->  <ns>::<op>(p...)
    return FREE(ns + "::" + short, *pnames)


def gen_binding(variant, ns):
    def gen(tu0):
        import tempfile
        tu = U.get_tu(tu0, variant, U.SHARED.get("workdir") or tempfile.gettempdir()) if variant else tu0
        names = sorted(q for q, f in tu.by_qname.items() if q.startswith("embedded_pairing_" + ns + "_") and f.body is not None)
        for wname in names:
            f = tu.by_qname[wname]
            spec = expected(wname, f, tu, ns)
            if spec is None:
                if wname.endswith("zp_from_hash"):
                    continue          # two-step wrapper, under its own BV contract (C10)
                yield wname, guarded(lambda p, wname=wname: [("wrapper has an entry in the binding table", "fail", wname, None)])
                continue
            bools = [p.get("name") for p in f.params if norm_type(p["type"]["qualType"]) in ("bool", "_Bool") and p.get("name") in ("compressed",)]
            for vals in itertools.product((0, 1), repeat=len(bools)):
                def run(path, wname=wname, f=f, spec=spec, bools=bools, vals=vals):
                    dom = Recorder()
                    I = Interp(tu, dom)
                    I.path = path
                    toks, args = {}, []
                    for p in f.params:
                        nm = p.get("name")
                        t = norm_type(p["type"].get("desugaredQualType", p["type"]["qualType"]))
                        if nm in bools:
                            v = vals[bools.index(nm)]
                            toks[nm] = v
                            args.append(Cell(v))
                        elif "*" in t and "(" not in t:
                            o = Opaque(nm)
                            toks[nm] = o
                            args.append(Cell(Ptr(o)))
                        else:
                            toks[nm] = ("param", nm)
                            args.append(Cell(("param", nm)))
                    ret = I.call(f, None, args)
                    c = dict(zip(bools, vals)).get("compressed")
                    want = spec["callee"].replace("$c", str(c))
                    obs = []
                    if spec["kind"] == "constant":
                        ok = not dom.calls and ret == ("global", want)
                        return [("returns the constant %s" % want, "ok" if ok else "fail", repr(ret), None)]
                    obs.append(("exactly one library call", "ok" if len(dom.calls) == 1 else "fail", repr([x[0] for x in dom.calls]), None))
                    if len(dom.calls) != 1:
                        return obs
                    qn, this, cargs, tok = dom.calls[0]
                    obs.append(("calls %s" % want, "ok" if (qn == want or qn.startswith(want)) else "fail", qn, None))

                    def same(actual, pname):
                        w = toks[pname]
                        if isinstance(w, Opaque):
                            return actual is w or (isinstance(actual, Ptr) and actual.arr is w)
                        return actual == w
                    if spec["kind"] == "method":
                        obs.append(("object operated on is parameter '%s'" % spec["this"], "ok" if same(this, spec["this"]) else "fail", repr(this), None))
                    elif this is not None:
                        obs.append(("static / free call", "fail", repr(this), None))
                    exp_args = spec["args"]
                    ok = len(cargs) == len(exp_args) and all(same(a, pn) for a, pn in zip(cargs, exp_args))
                    obs.append(("arguments are the parameters %s in this order" % (exp_args,), "ok" if ok else "fail", repr(cargs), None))
                    rt = f.node["type"]["qualType"].split("(")[0].strip()
                    if rt != "void":
                        obs.append(("returns the call's result", "ok" if ret == tok else "fail", repr(ret), None))
                    return obs
                yield "%s%s" % (wname, "".join("[%s=%d]" % bv for bv in zip(bools, vals))), guarded(run)
    return gen


# ---- layout and constants ---------------------------------------------------------------------------------------------------
def cast_pairs(tu):
    """(C struct name, C++ type) pairs that wrappers reinterpret_cast / static_cast between, from the AST"""
    pairs = set()

    def walk(n):
        if n.get("kind") in ("CXXReinterpretCastExpr", "CStyleCastExpr"):
            t = norm_type(n["type"].get("desugaredQualType", n["type"]["qualType"]))
            inner = n["inner"][-1]
            while inner.get("kind") in ("ImplicitCastExpr", "ParenExpr", "UnaryOperator"):
                inner = inner["inner"][0]
            st = norm_type(inner["type"].get("desugaredQualType", inner["type"]["qualType"])) if "type" in inner else ""
            a = re.sub(r"(const|\*|&)", "", t).strip()
            b = re.sub(r"(const|\*|&)", "", st).strip()
            for x, y in ((a, b), (b, a)):
                if x.startswith("embedded_pairing_") and y and not y.startswith("embedded_pairing_") and y not in ("void", "uint8_t", "unsigned char"):
                    pairs.add((x, y))
        for c in n.get("inner", []):
            walk(c)
    for q, f in tu.by_qname.items():
        if q.startswith("embedded_pairing_") and f.body is not None:
            walk(f.body)
    for did, (qn, node) in tu.globals.items():
        if qn.startswith("embedded_pairing_"):
            walk(node)
    return pairs


def native(src, wd, name, cxx, flags):
    p = os.path.join(wd, name + (".cpp" if cxx else ".c"))
    open(p, "w").write(src)
    cmd = (["clang++", "-std=c++17"] if cxx else ["clang", "-std=c11"]) + ["-I%s/include" % REPO, "-w", "-O0"] + flags + [p, "-o", p + ".exe"]
    r = subprocess.run(cmd, capture_output=True, text=True)
    if r.returncode != 0:
        raise SymxError("layout probe does not compile: " + r.stderr[-1200:])
    return subprocess.run([p + ".exe"], capture_output=True, text=True, timeout=60).stdout


def gen_layout(tu0):
    import tempfile
    wd = U.SHARED.get("workdir") or tempfile.mkdtemp(prefix="jpv.capi.")
    variants = [(None, tu0), ("wkdcapi", U.get_tu(tu0, "wkdcapi", wd)), ("lqcapi", U.get_tu(tu0, "lqcapi", wd))]
    pairs = {}
    recs = {}
    for v, tu in variants:
        for (cn, xn) in cast_pairs(tu):
            pairs.setdefault(cn, set()).add((xn, v))
        for q, r in tu.records.items():
            if q.startswith("embedded_pairing_"):
                recs[q] = (r, tu)
    for conf, flags in (("64-bit words", []), ("32-bit words", ["-U__SIZEOF_INT128__"])):
        def run(path, conf=conf, flags=flags):
            obs = []
            csrc = '#include <stdio.h>\n#include <stddef.h>\n#include "bls12_381/bls12_381.h"\n#include "wkdibe/wkdibe.h"\n#include "lqibe/lqibe.h"\nint main(void) {\n'
            xsrc = {}
            for cn in sorted(pairs):
                if cn not in recs:
                    continue
                r, tu = recs[cn]
                csrc += '  printf("%s S %%zu %%zu\\n", sizeof(%s), _Alignof(%s));\n' % (cn, cn, cn)
                for (fn, ft, _) in r.fields:
                    csrc += '  printf("%s F %%zu %%zu\\n", offsetof(%s, %s), sizeof(((%s*)0)->%s));\n' % (cn, cn, fn, cn, fn)
            csrc += "  return 0; }\n"
            cout = native(csrc, wd, "layout_c_" + conf[:2], False, flags)
            clay = {}
            for line in cout.splitlines():
                nm, kind, a, b = line.split()
                clay.setdefault(nm, []).append((kind, int(a), int(b)))
            for cn in sorted(pairs):
                if cn not in recs:
                    continue
                for (xn, v) in sorted(pairs[cn], key=str):
                    ns = {"wkdcapi": "embedded_pairing::wkdibe", "lqcapi": "embedded_pairing::lqibe"}.get(v, "embedded_pairing::bls12_381")
                    tuv = dict(variants)[v]
                    xr = tuv.records.get(xn) or tuv.records.get({"wkdcapi": "wkdibe::", "lqcapi": "lqibe::"}.get(v, "") + xn)
                    src = '#define private public\n#include <stdio.h>\n#include <stddef.h>\n#include "core/bigint.hpp"\n#include "bls12_381/pairing.hpp"\n#include "bls12_381/curve.hpp"\n#include "wkdibe/api.hpp"\n#include "lqibe/api.hpp"\n'
                    src += "using namespace embedded_pairing; using namespace embedded_pairing::core; using namespace embedded_pairing::bls12_381; using namespace %s;\n" % ns
                    src += "typedef %s T;\nint main() {\n  printf(\"S %%zu %%zu\\n\", sizeof(T), alignof(T));\n" % xn
                    flds = []
                    if xr is not None:
                        em_fields = []
                        def all_fields(rec, t):
                            out = []
                            for b in rec.bases:
                                br = t.records.get(t.canon(b, [rec.qname]))
                                if br is not None:
                                    out += all_fields(br, t)
                            return out + [fn for (fn, ft, _) in rec.fields]
                        flds = all_fields(xr, tuv)
                        if xr.is_union:
                            flds = []
                    for fn in flds:
                        src += '  printf("F %%zu %%zu\\n", __builtin_offsetof(T, %s), sizeof(((T*)0)->%s));\n' % (fn, fn)
                    src += "  return 0; }\n"
                    try:
                        xout = native(src, wd, "layout_x_%s_%s" % (conf[:2], re.sub(r"\W+", "_", cn + "_" + xn)), True, ["-Wno-invalid-offsetof"] + flags)
                    except SymxError as e:
                        obs.append(("%s <-> %s: layout probe" % (cn, xn), "undecided", str(e)[:300], None))
                        continue
                    xl = [(l.split()[0], int(l.split()[1]), int(l.split()[2])) for l in xout.splitlines()]
                    cl = clay.get(cn, [])
                    obs.append(("[%s] %s <-> %s: size and alignment equal" % (conf, cn, xn), "ok" if cl[:1] == xl[:1] else "fail", "C %s, C++ %s" % (cl[:1], xl[:1]), None))
                    if flds and not (len(cl) == 2 and cl[1][2] == cl[0][1]):
                        obs.append(("[%s] %s <-> %s: member offsets and sizes equal, in order" % (conf, cn, xn), "ok" if cl[1:] == xl[1:] else "fail", "C %s, C++ %s" % (cl[1:], xl[1:]), None))
            return obs
        yield conf, guarded(run)


def gen_constants(tu0):
    import tempfile
    wd = U.SHARED.get("workdir") or tempfile.mkdtemp(prefix="jpv.capi.")

    def run(path):
        from bvspec import R
        table = [("group_order", "&fr_modulus"), ("g1_zero", "&G1::zero"), ("g1affine_zero", "&G1Affine::zero"), ("g1affine_generator", "&G1Affine::generator"),
                 ("g2_zero", "&G2::zero"), ("g2affine_zero", "&G2Affine::zero"), ("g2affine_generator", "&G2Affine::generator"), ("gt_zero", "&Fq12::one"), ("gt_generator", "&generator_pairing")]
        sizes = [("g1_marshalled_compressed_size", 48), ("g1_marshalled_uncompressed_size", 96), ("g2_marshalled_compressed_size", 96), ("g2_marshalled_uncompressed_size", 192), ("gt_marshalled_size", 576)]
        src = unity_source() + "\n#include <stdio.h>\n#include <string.h>\nusing namespace embedded_pairing::core; using namespace embedded_pairing::bls12_381;\nint main() {\n"
        for nm, ex in table:
            src += '  printf("P %s %%d\\n", (const void*)embedded_pairing_bls12_381_%s == (const void*)(%s));\n' % (nm, nm, ex)
        for nm, v in sizes:
            src += '  printf("Z %s %%zu\\n", embedded_pairing_bls12_381_%s);\n' % (nm, nm)
        src += '  { unsigned char b[32]; memcpy(b, embedded_pairing_bls12_381_group_order, 32); printf("R "); for (int i = 31; i >= 0; i--) printf("%02x", b[i]); printf("\\n"); }\n'
        src += '  printf("N %u %zu\\n", G2Prepared::num_coeffs, sizeof(((embedded_pairing_bls12_381_g2prepared_t*)0)->coeffs) / sizeof(((embedded_pairing_bls12_381_g2prepared_t*)0)->coeffs[0]));\n'
        src += "  return 0; }\n"
        p = os.path.join(wd, "capi_consts.cpp")
        open(p, "w").write(src)
        r = subprocess.run(["clang++"] + clang_flags() + ["-O0", "-w", p, "-o", p + ".exe"], capture_output=True, text=True)
        if r.returncode != 0:
            raise SymxError("constants probe does not compile: " + r.stderr[-1200:])
        out = subprocess.run([p + ".exe"], capture_output=True, text=True, timeout=60).stdout
        obs = []
        want = dict(sizes)
        for line in out.splitlines():
            parts = line.split()
            if parts[0] == "P":
                obs.append(("exported %s is the C++ object" % parts[1], "ok" if parts[2] == "1" else "fail", "", None))
            elif parts[0] == "Z":
                obs.append(("exported %s == %d" % (parts[1], want[parts[1]]), "ok" if int(parts[2]) == want[parts[1]] else "fail", parts[2], None))
            elif parts[0] == "R":
                obs.append(("exported group order == r (reference parameter)", "ok" if int(parts[1], 16) == R else "fail", parts[1], None))
            elif parts[0] == "N":
                obs.append(("C coeffs[] length == G2Prepared::num_coeffs == 68", "ok" if parts[1] == parts[2] == "68" else "fail", line, None))
        return obs
    yield "exported constants", guarded(run)


def units():
    return [ScenUnit("C API binding: bls12_381 wrappers", P, gen_binding(None, "bls12_381"), contracts_used=["every library function: opaque recorder"]),
            ScenUnit("C API binding: wkdibe wrappers", P, gen_binding("wkdcapi", "wkdibe"), contracts_used=["every library function: opaque recorder"]),
            ScenUnit("C API binding: lqibe wrappers", P, gen_binding("lqcapi", "lqibe"), contracts_used=["every library function: opaque recorder"]),
            ScenUnit("C API layout: C structs vs the C++ types they are cast to (both word sizes)", P, gen_layout, contracts_used=["clang record layout / constant evaluation (C and C++ front ends)"]),
            ScenUnit("C API exported constants", P, gen_constants, contracts_used=["native constant evaluation"])]
