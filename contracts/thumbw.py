"""C03: the ARMv6-M (Thumb-1, 32-bit words) assembly sources (src/core/arch/armv6_m/bigint.s, multiply.s) against the SAME statements as the
portable routines: bigint_384_add / subtract / multiply2 (value and carry / borrow, all alias patterns), bigint_768_multiply / square (exact),
fpbase_384_multiply / square / montgomery_reduce: T * R == A*B + U*p exactly for the twelve 32-bit rows, T < 2p, and the call of
fpbase_384_reduce (src/core/arch/armv6_m/fp.cpp -> FpBase<384>::reduce, whose contract is the 32-bit-word BV unit) on (res, T, p).

WORD back end over the SOURCE TEXT with 32-bit words (tools/thumbword.py; no assembler for the target in the sandbox)."""
import os, re
from poly import Poly
from symx import POISON
from worddom import WordDomain, WVal, wv
from scen import ScenUnit, guarded, Abandon
from asmword import PtrVal
import thumbword
import units as U
import bvspec
from jast import REPO, ExtractionError

P = ["C03"]
PRE = "embedded_pairing_core_arch_armv6_m_"
SDIR = "src/core/arch/armv6_m"
Q = bvspec.Q
RM = 1 << 384
M32 = (1 << 32) - 1
_PROG = {}


def chk(what, ok, msg=""):
    return (what, "ok" if ok else "fail", "" if ok else msg, None)


def val(ws):
    return sum((wv(w).p * (1 << (32 * i)) for i, w in enumerate(ws)), Poly())


def program(sfile):
    path = os.path.join(REPO, SDIR, sfile)
    key = (path, os.path.getmtime(path), os.path.getsize(path))
    if key not in _PROG:
        _PROG[key] = thumbword.expand(open(path).read())
    return _PROG[key]


def show(D):
    out = []
    for m, c in sorted(D.t.items(), key=lambda x: repr(x[0])):
        a = abs(c)
        k = a.bit_length() - 1
        mon = "*".join(v if e == 1 else "%s^%d" % (v, e) for v, e in m) or "1"
        out.append("%s%s*%s" % ("-" if c < 0 else "+", ("2^%d" % k) if a == 1 << k else str(a), mon))
    return " ".join(out)[:2500]


def words32(dom, prefix, n):
    return [dom.input_word("%s%d" % (prefix, i), M32) for i in range(n)]


def machine(path, sfile, rname, mem, args, stack_args=(), callees=None, z3=True):
    dom = WordDomain(consts=U.SHARED.get("consts"), word_bits=32)
    dom.use_z3 = z3
    dom.incremental = True
    m = thumbword.Thumb(dom, path, armword_routine(program(sfile), PRE + rname), rname, mem, args, stack_args, callees)
    return dom, m


def armword_routine(prog, name):
    import armword
    return armword.routine(prog, name)


def frame_obs(m, tag, out, nout):
    obs = [chk("%s: stack pointer back at its entry value at return" % tag, m.sp == 0, "sp%+d" % m.sp),
           chk("%s: returns to the caller's lr" % tag, isinstance(m.returned_to, WVal) and m.returned_to.p == Poly.var("init_lr"), repr(m.returned_to))]
    for r in thumbword.CALLEE_SAVED:
        v = m.regs[r]
        obs.append(chk("%s: %s restored" % (tag, r), isinstance(v, WVal) and v.p == Poly.var("init_" + r), repr(v)[:120]))
    obs.append(chk("%s: exactly the %d words of the result are written" % (tag, nout), {w for (a, w) in m.written if a == out} == set(range(nout)) and all(a == out for (a, w) in m.written), repr(sorted(m.written))[:200]))
    return obs


def gen_linear(tu, rname):
    pats = ["distinct", "res=a", "res=b", "res=a=b", "a=b"] if rname != "bigint_384_multiply2" else ["distinct", "res=a"]
    for pat in pats:
        def run(path, pat=pat):
            mem = {}
            nm = {"res": "res", "a": "a", "b": "b"}
            if pat in ("res=a", "res=a=b"):
                nm["res"] = "a"
            if pat in ("a=b", "res=a=b"):
                nm["b"] = "a"
            if pat == "res=b":
                nm["res"] = "b"
            args = [PtrVal(nm["res"]), PtrVal(nm["a"])] + ([PtrVal(nm["b"])] if rname != "bigint_384_multiply2" else [])
            dom, m = machine(path, "bigint.s", rname, mem, args, z3=False)
            mem["a"], mem["b"], mem["res"] = words32(dom, "a", 12), words32(dom, "b", 12), [POISON] * 12
            A, B = val(mem[nm["a"]]), val(mem[nm["b"]])
            m.run()
            out = mem[nm["res"]]
            ret = wv(m.regs["r0"])
            tag = "%s [%s]" % (rname, pat)
            if rname == "bigint_384_add":
                D, what = A + B - val(out) - ret.p * RM, "VAL(res) + 2^384 * ret == VAL(a) + VAL(b)"
            elif rname == "bigint_384_subtract":
                D, what = A - B - val(out) + ret.p * RM, "VAL(res) - 2^384 * ret == VAL(a) - VAL(b)"
            else:
                D, what = A * 2 - val(out) - ret.p * RM, "VAL(res) + 2^384 * ret == 2 * VAL(a)"
            D = dom.reduce_eq(D)
            return [chk("%s: %s (exact, all operands)" % (tag, what), D.is_zero(), "residual " + show(D)),
                    chk("%s: ret in {0, 1}, result words below 2^32" % tag, dom.refine(ret).hi <= 1 and all(wv(w).hi <= M32 for w in out))] + frame_obs(m, tag, nm["res"], 12)
        yield "%s [%s]" % (rname, pat), guarded(run)


def gen_mul(tu, rname, square):
    def run(path):
        mem = {"res": [POISON] * 24}
        dom, m = machine(path, "multiply.s", rname, mem, [PtrVal("res"), PtrVal("a")] + ([] if square else [PtrVal("b")]))
        mem["a"] = words32(dom, "a", 12)
        if not square:
            mem["b"] = words32(dom, "b", 12)
        A = val(mem["a"])
        B = A if square else val(mem["b"])
        m.run()
        if any(w is POISON for w in mem["res"]):
            return [chk("%s: result written" % rname, False)]
        D = dom.reduce_eq(A * B - val(mem["res"]))
        if not D.is_zero():
            dom.add_fact(A * B, 0, (RM - 1) * (RM - 1))          # a, b < 2^384: the product is below 2^768 (monotone; the prover sees the monomials as opaque)
            dom.zero_symbols(D, only=[wv(w).p for w in mem["res"]])
            D = dom.reduce_eq(A * B - val(mem["res"]))
        return [chk("%s: VAL(res) == %s (exact, all operands)" % (rname, "VAL(a)^2" if square else "VAL(a) * VAL(b)"), D.is_zero(), "residual " + show(D) + " ; origins: " + "; ".join("%s <- %s" % (v, dom.origin.get(v, "?")) for v in sorted(D.vars()) if "#" in v)[:1500])] + frame_obs(m, rname, "res", 24)
    yield rname, guarded(run)


def gen_mont(tu, rname):
    kind = rname.split("_")[-1]

    def run(path):
        c = U.SHARED.get("consts")
        inv = c.value("fq_inv_var") % (1 << 32)
        mem = {}
        seen = {}

        def reduce_contract(m):
            r0, r1, r2 = m.regs["r0"], m.regs["r1"], m.regs["r2"]
            seen["args"] = (r0, r1, r2)
            if isinstance(r1, PtrVal) and r1.name == "stack":
                seen["T"] = [m.stack.get(r1.off + 4 * k, POISON) for k in range(12)]
            if isinstance(r0, PtrVal) and r0.name in m.mem:
                for k in range(12):
                    m.mem[r0.name][k] = "reduced"
                    m.written.add((r0.name, k))
        callees = {PRE + "fpbase_384_reduce": reduce_contract}
        if kind == "reduce":
            args, sargs = [PtrVal("res"), PtrVal("t"), PtrVal("p"), inv], ()
        elif kind == "multiply":
            args, sargs = [PtrVal("res"), PtrVal("a"), PtrVal("b"), PtrVal("p")], (inv,)
        else:
            args, sargs = [PtrVal("res"), PtrVal("a"), PtrVal("p"), inv], ()
        dom, m = machine(path, "multiply.s", rname, mem, args, sargs, callees)
        m.inv_const = inv
        mem["p"] = [(Q >> (32 * i)) & M32 for i in range(12)]
        mem["res"] = [POISON] * 12
        if kind == "reduce":
            mem["t"] = words32(dom, "t", 24)
            AB = val(mem["t"])
            dom.add_fact(AB, 0, Q * RM - 1)
            ab_max = Q * RM - 1
            t0 = list(mem["t"])
        else:
            mem["a"], mem["b"] = words32(dom, "a", 12), words32(dom, "b", 12)
            A = val(mem["a"])
            B = A if kind == "square" else val(mem["b"])
            AB = A * B
            ab_max = (Q - 1) * (Q - 1)
        m.run()
        tag = rname
        obs = [chk("%s: fpbase_384_reduce is called once, with (res, the top half of the reduced product on the stack, p)" % tag,
                   "args" in seen and isinstance(seen["args"][0], PtrVal) and (seen["args"][0].name, seen["args"][0].off) == ("res", 0) and isinstance(seen["args"][2], PtrVal) and (seen["args"][2].name, seen["args"][2].off) == ("p", 0) and "T" in seen and all(w is not POISON for w in seen.get("T", [POISON])), repr(seen.get("args"))[:200]),
               chk("%s: twelve multipliers u_i = (word * inv) mod 2^32" % tag, len(dom.trunc_products) == 12, str(len(dom.trunc_products)))]
        if "T" not in seen or any(w is POISON for w in seen["T"]) or len(dom.trunc_products) != 12:
            return obs
        Up = sum((wv(u).p * (1 << (32 * i)) for i, u in enumerate(dom.trunc_products)), Poly())
        T = val(seen["T"])
        tmax = (ab_max + (RM - 1) * Q) // RM
        obs.append(chk("%s: bound lemma: (AB + U*p) / R <= %d < 2p <= 2^384" % (tag, tmax), tmax < 2 * Q and 2 * Q <= RM))
        dom.add_fact(AB + Up * Q, 0, ab_max + (RM - 1) * Q)
        D = dom.reduce_eq(AB + Up * Q - T * RM)
        if not D.is_zero():
            dom.zero_symbols(D, timeout=120, only=[wv(w).p for w in seen["T"]])
            D = dom.reduce_eq(AB + Up * Q - T * RM)
        obs.append(chk("%s: T * R == A*B + U*p exactly, T the twelve words handed to fpbase_384_reduce (carries dropped above the top word proved 0); with T < 2p its contract gives res == T mod p < p" % tag, D.is_zero(),
                       "residual " + show(D) + " ; origins: " + "; ".join("%s <- %s" % (v, dom.origin.get(v, "?")) for v in sorted(D.vars()) if "#" in v)[:1500]))
        if kind == "reduce":
            obs.append(chk("%s: p is not written" % tag, not any(a == "p" for (a, w) in m.written)))
        first_st = min([i for i, x in enumerate(m.trace) if x[0] == "st"], default=len(m.trace))
        obs.append(chk("%s: operands are only read, the result is written only by the callee (so res may alias a, b)" % tag, not any(x[0] == "st" for x in m.trace)))
        obs += frame_obs(m, tag, "res", 12)
        return obs
    yield rname, guarded(run)


def _mk(label, g):
    u = ScenUnit(label, P, g, targets=[], contracts_used=["ARMv6-M front end (macro expansion) and Thumb-1 instruction semantics table of tools/thumbword.py (Arm ARMv6-M ARM)", "FpBase<384>::reduce (32-bit-word BV unit)"])
    u.back_end = "WORD(asm source)"
    return u


def units():
    us = []
    for r in ("bigint_384_add", "bigint_384_subtract", "bigint_384_multiply2"):
        us.append(_mk("armv6-m %s (bigint.s): value and carry, all alias patterns, frame, stack, callee-saved (source text, 32-bit word level)" % r, (lambda tu, r=r: gen_linear(tu, r))))
    us.append(_mk("armv6-m bigint_768_multiply (multiply.s): exact product, frame, stack, callee-saved (source text, 32-bit word level)", (lambda tu: gen_mul(tu, "bigint_768_multiply", False))))
    us.append(_mk("armv6-m bigint_768_square (multiply.s): exact square, frame, stack, callee-saved (source text, 32-bit word level)", (lambda tu: gen_mul(tu, "bigint_768_square", True))))
    for r in ("fpbase_384_montgomery_reduce", "fpbase_384_multiply", "fpbase_384_square"):
        us.append(_mk("armv6-m %s (multiply.s): Montgomery identity, T < 2p, reduce called on (res, T, p); frame, stack, callee-saved (source text, 32-bit word level)" % r, (lambda tu, r=r: gen_mont(tu, r))))
    return us
