"""C03: the AArch64 assembly sources (src/core/arch/aarch64/bigint.s, multiply.s) against the SAME statements as the portable C++ routines
they replace (include/core/arch/aarch64/*.hpp): bigint_384_add / subtract / multiply2 (value and carry / borrow, every alias pattern the
C++ signature permits), bigint_768_multiply / square (exact), fpbase_384_montgomery_reduce / multiply / square (Montgomery identity on
every path of the word-by-word compare and conditional subtraction, result < p).

WORD back end over the source text (tools/armword.py): there is no AArch64 assembler in the sandbox, so the instruction stream comes from
the module's own macro expander, not from an object file; stated in the evidence.  Everything else as contracts/asmw.py."""
import os, re
from poly import Poly
from symx import POISON
from worddom import WordDomain, WVal, wv
from scen import ScenUnit, guarded, Abandon
from asmword import PtrVal
import armword
import units as U
import bvspec
from jast import REPO, ExtractionError

P = ["C03"]
PRE = "embedded_pairing_core_arch_aarch64_"
SDIR = "src/core/arch/aarch64"
Q = bvspec.Q
RM = 1 << 384
_PROG = {}


def chk(what, ok, msg=""):
    return (what, "ok" if ok else "fail", "" if ok else msg, None)


def val(ws):
    return sum((wv(w).p * (1 << (64 * i)) for i, w in enumerate(ws)), Poly())


def show(D):
    """residual as  sign 2^k * monomial  terms"""
    out = []
    for m, c in sorted(D.t.items(), key=lambda x: repr(x[0])):
        a = abs(c)
        k = a.bit_length() - 1
        mon = "*".join(v if e == 1 else "%s^%d" % (v, e) for v, e in m) or "1"
        out.append("%s%s*%s" % ("-" if c < 0 else "+", ("2^%d" % k) if a == 1 << k else str(a), mon))
    return " ".join(out)[:3000]


def program(sfile):
    path = os.path.join(REPO, SDIR, sfile)
    key = (path, os.path.getmtime(path), os.path.getsize(path))
    if key not in _PROG:
        _PROG[key] = armword.expand(open(path).read())
    return _PROG[key]


def machine(path, sfile, rname, mem, args, z3=True):
    dom = WordDomain(consts=U.SHARED.get("consts"))
    dom.use_z3 = z3
    dom.incremental = True
    m = armword.A64(dom, path, armword.routine(program(sfile), PRE + rname), rname, mem, args)
    return dom, m


def frame_obs(m, tag, out, nout):
    obs = [chk("%s: stack pointer back at its entry value at ret" % tag, m.sp == 0, "sp%+d" % m.sp),
           chk("%s: the stack is used only below the entry sp (at most 96 bytes)" % tag, -96 <= m.min_sp <= 0, str(m.min_sp))]
    for r in armword.CALLEE_SAVED + ["x29", "x30", "x18"]:
        v = m.regs[r]
        obs.append(chk("%s: %s unchanged at ret" % (tag, r), isinstance(v, WVal) and v.p == Poly.var("init_" + r), repr(v)))
    obs.append(chk("%s: exactly the %d words of the result are written" % (tag, nout), {w for (a, w) in m.written if a == out} == set(range(nout)) and all(a == out for (a, w) in m.written), repr(sorted(m.written))))
    return obs


def gen_linear(tu, rname):
    pats = {"bigint_384_add": ["distinct", "res=a", "res=b", "res=a=b", "a=b"], "bigint_384_subtract": ["distinct", "res=a", "res=b", "res=a=b", "a=b"], "bigint_384_multiply2": ["distinct", "res=a"]}[rname]
    for pat in pats:
        def run(path, pat=pat):
            dom0 = None
            mem = {}
            names = {"res": "res", "a": "a", "b": "b"}
            if pat in ("res=a", "res=a=b"):
                names["res"] = "a"
            if pat in ("a=b", "res=a=b"):
                names["b"] = "a"
            if pat == "res=b":
                names["res"] = "b"
            args = [PtrVal(names["res"]), PtrVal(names["a"])] + ([PtrVal(names["b"])] if rname != "bigint_384_multiply2" else [])
            dom, m = machine(path, "bigint.s", rname, mem, args, z3=False)
            mem["a"] = dom.input_words("a", 6)
            mem["b"] = dom.input_words("b", 6)
            mem["res"] = [POISON] * 6
            A, B = val(mem[names["a"]]), val(mem[names["b"]])
            m.run()
            out = mem[names["res"]]
            ret = wv(m.regs["x0"])
            tag = "%s [%s]" % (rname, pat)
            if rname == "bigint_384_add":
                D = A + B - val(out) - ret.p * RM
                what = "VAL(res) + 2^384 * ret == VAL(a) + VAL(b)"
            elif rname == "bigint_384_subtract":
                D = A - B - val(out) + ret.p * RM
                what = "VAL(res) - 2^384 * ret == VAL(a) - VAL(b)"
            else:
                D = A * 2 - val(out) - ret.p * RM
                what = "VAL(res) + 2^384 * ret == 2 * VAL(a)"
            D = dom.reduce_eq(D)
            obs = [chk("%s: %s (exact, all operands)" % (tag, what), D.is_zero(), "residual %r" % D),
                   chk("%s: ret in {0, 1}, result words below 2^64" % tag, dom.refine(ret).hi <= 1 and all(wv(w).hi < (1 << 64) for w in out))]
            obs += frame_obs(m, tag, names["res"], 6)
            return obs
        yield "%s [%s]" % (rname, pat), guarded(run)


def gen_mul(tu, rname, square):
    def run(path):
        mem = {"res": [POISON] * 12}
        dom, m = machine(path, "multiply.s", rname, mem, [PtrVal("res"), PtrVal("a")] + ([] if square else [PtrVal("b")]))
        mem["a"] = dom.input_words("a", 6)
        if not square:
            mem["b"] = dom.input_words("b", 6)
        A = val(mem["a"])
        B = A if square else val(mem["b"])
        m.run()
        D = dom.reduce_eq(A * B - val(mem["res"]))
        if not D.is_zero():
            dom.zero_symbols(D)
            D = dom.reduce_eq(A * B - val(mem["res"]))
        return [chk("%s: VAL(res) == %s (exact, all operands)" % (rname, "VAL(a)^2" if square else "VAL(a) * VAL(b)"), D.is_zero(), "residual %r" % D)] + frame_obs(m, rname, "res", 12)
    yield rname, guarded(run)


def gen_mont(tu, rname):
    """fpbase_384_montgomery_reduce(res, t, p, inv) / fpbase_384_multiply(res, a, b, p, inv) / fpbase_384_square(res, a, p, inv)"""
    kind = rname.split("_")[-1]
    # operands may alias the result (FpBase::multiply(this = a, ...)): decided by the obligation that every load precedes the first store, which
    # makes the alias pattern immaterial; equal operands (a = b) are a special case of the universally quantified values
    pats = ["distinct"]
    for pat in pats:
        def run(path, pat=pat):
            c = U.SHARED.get("consts")
            inv = c.value("fq_inv_var") % (1 << 64)
            mem = {}
            nm = {"res": "res", "a": "a", "b": "b"}
            if pat in ("res=a", "res=a=b"):
                nm["res"] = "a"
            if pat in ("a=b", "res=a=b"):
                nm["b"] = "a"
            if pat == "res=b":
                nm["res"] = "b"
            if kind == "reduce":
                args = [PtrVal("res"), PtrVal("t"), PtrVal("p"), inv]
            elif kind == "multiply":
                args = [PtrVal(nm["res"]), PtrVal(nm["a"]), PtrVal(nm["b"]), PtrVal("p"), inv]
            else:
                args = [PtrVal(nm["res"]), PtrVal(nm["a"]), PtrVal("p"), inv]
            dom, m = machine(path, "multiply.s", rname, mem, args)
            m.inv_const = inv
            mem["p"] = [(Q >> (64 * i)) & ((1 << 64) - 1) for i in range(6)]
            mem["res"] = [POISON] * 6
            if kind == "reduce":
                mem["t"] = dom.input_words("t", 12)
                AB = val(mem["t"])
                dom.add_fact(AB, 0, Q * RM - 1)
                ab_max = Q * RM - 1
                t0 = list(mem["t"])
            else:
                mem["a"] = dom.input_words("a", 6)
                mem["b"] = dom.input_words("b", 6)
                A = val(mem[nm["a"]])
                B = A if kind == "square" else val(mem[nm["b"]])
                AB = A * B
                ab_max = (Q - 1) * (Q - 1)
            tag = "%s [%s]" % (rname, pat)
            # ---- part 1: the multiplication / reduction rows (no branches), up to the first compare
            cut = m.run(stop_before=lambda mn: mn == "cmp")
            if cut is None:
                return [chk("%s: reaches the compare / conditional-subtraction tail" % tag, False)]
            tail = m.ins[cut:]
            tregs = [r for x in tail if x[0] == "ins" and x[1].lower() == "stp" and x[2][2].startswith("[x0") for r in x[2][:2]]
            obs = [chk("%s: the tail stores six registers to the result" % tag, len(tregs) == 6, repr(tregs)),
                   chk("%s: six multipliers u_i = (word * inv) mod 2^64" % tag, len(dom.trunc_products) == 6)]
            if len(tregs) != 6:
                return obs
            us = dom.trunc_products[-6:]
            Up = sum((wv(u).p * (1 << (64 * i)) for i, u in enumerate(us)), Poly())
            pre = {r: wv(m.regs[r]).p for r in tregs}
            Tpre = sum((pre[r] * (1 << (64 * i)) for i, r in enumerate(tregs)), Poly())
            # T_full * R == AB + U*p  with T_full = T + (dropped carries) * 2^384; bound lemma => T_full < 2p, so every dropped carry is 0
            tmax = (ab_max + (RM - 1) * Q) // RM
            obs.append(chk("%s: bound lemma: (AB + U*p) / R <= %d < 2p <= 2^384" % (tag, tmax), tmax < 2 * Q and 2 * Q <= RM))
            dom.add_fact(AB + Up * Q, 0, ab_max + (RM - 1) * Q)
            D0 = dom.reduce_eq(AB + Up * Q - Tpre * RM)
            if not D0.is_zero():
                dom.zero_symbols(D0, timeout=120)
                D0 = dom.reduce_eq(AB + Up * Q - Tpre * RM)
            obs.append(chk("%s: T * R == A*B + U*p exactly, T the six words handed to the tail (carries dropped above the top word proved 0)" % tag, D0.is_zero(), "residual " + show(D0) + " ; origins: " + "; ".join("%s <- %s" % (v, dom.origin.get(v, "?")) for v in sorted(D0.vars()) if "#" in v)))
            # ---- part 2: the tail on an ABSTRACTED state: every live word becomes a fresh symbol (definitions kept for the exact identity), the fact
            # base is restarted with the one consequence the tail needs: T < 2p.  Sound: the tail is proved for MORE states than can occur.
            defs = {}
            for r in ["x%d" % i for i in range(31)]:
                v = m.regs[r]
                if isinstance(v, WVal) and not v.p.is_const() and not (v.p == Poly.var("init_" + r)):
                    sname = "S_" + r
                    defs[sname] = v.p
                    m.regs[r] = dom.input_word(sname)
            if path.trace:
                raise ExtractionError("%s: the rows before the first compare contain a branch (the abstraction point assumes straight-line code)" % rname)
            dom.reset_facts()
            Tabs = sum((Poly.var("S_" + r) * (1 << (64 * i)) for i, r in enumerate(tregs)), Poly())
            dom.add_fact(Tabs, 0, 2 * Q - 1)
            if m.run(start=cut) is not None:
                return obs + [chk("%s: tail runs to ret" % tag, False)]
            out = mem[nm["res"]]
            if any(w is POISON for w in out):
                return obs + [chk("%s: result written" % tag, False)]
            if dom.prove_lt(Poly(), 0):
                raise Abandon()
            Rv = val(out)
            D = dom.reduce_eq(Tabs - Rv)                       # == k * p on this path
            if not any((D - Poly.const(kk * Q)).is_zero() for kk in (0, 1)):
                dom.zero_symbols(D, timeout=30)
                D = dom.reduce_eq(Tabs - Rv)
            k = [kk for kk in (0, 1) if (D - Poly.const(kk * Q)).is_zero()]
            obs.append(chk("%s: VAL(res) == T - k*p with k in {0,1} on this path (exact identity), hence VAL(res) * R == A*B + U*p - k*p*R" % tag, bool(k), "residual " + show(D)))
            obs.append(chk("%s: VAL(res) < p on this path" % tag, dom.prove_lt(dom.reduce_eq(Rv), Q, timeout=60), "not derivable"))
            if kind == "reduce":
                obs.append(chk("%s: t and p are not written" % tag, mem["t"] == t0))
            first_st = min([i for i, x in enumerate(m.trace) if x[0] == "st"], default=len(m.trace))
            obs.append(chk("%s: every load of an operand precedes the first store to the result (so res may alias a, b)" % tag, all(x[0] == "st" for x in m.trace[first_st:])))
            obs += frame_obs(m, tag, nm["res"], 6)
            return obs
        yield "%s [%s]" % (rname, pat), guarded(run)


def units():
    us = []
    mk = lambda label, g: us.append(_mk(label, g))
    for r in ("bigint_384_add", "bigint_384_subtract", "bigint_384_multiply2"):
        mk("aarch64 %s (bigint.s): value and carry, all alias patterns, frame, stack, callee-saved (source text, word level)" % r, (lambda tu, r=r: gen_linear(tu, r)))
    mk("aarch64 bigint_768_multiply (multiply.s): exact product, frame, stack, callee-saved (source text, word level)", (lambda tu: gen_mul(tu, "bigint_768_multiply", False)))
    mk("aarch64 bigint_768_square (multiply.s): exact square, frame, stack, callee-saved (source text, word level)", (lambda tu: gen_mul(tu, "bigint_768_square", True)))
    for r in ("fpbase_384_montgomery_reduce", "fpbase_384_multiply", "fpbase_384_square"):
        mk("aarch64 %s (multiply.s): Montgomery identity and result < p on every path, frame, stack, callee-saved (source text, word level)" % r, (lambda tu, r=r: gen_mont(tu, r)))
    return us


def _mk(label, g):
    u = ScenUnit(label, P, g, targets=[], contracts_used=["AArch64 front end (macro expansion) and instruction semantics table of tools/armword.py (Arm ARM)"], max_paths=20000)
    u.back_end = "WORD(asm source)"
    return u
