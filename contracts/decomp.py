"""C06 / C07 (decompositions): decompose_lambda and PowersOfX::decompose recombine to the scalar modulo r.

Integer-level view (GROUP back end with BigInt leaves holding exact integer polynomials + path constraints):
callee contracts are the integer statements of the BigInt layer (C02): multiply = exact product (with the obligation
that it fits the destination), add/subtract/compare/shift = exact with carry/borrow forks, divide_std_dword<d>:
a = q*d + rem, 0 <= rem < d.  floordiv_by_fr_p_value is replaced by the weakest contract "returns some 128-bit
value": the recombination identity holds for EVERY rounded quotient, which is why the unreduced-scalar branch is harmless.
Closed facts used (CONST, from the dumped constants against the reference parameters): v1_2*lambda == 1, v2_1 + lambda == 0,
lambda^2 + lambda + 1 == 0 (mod r), 1 + v1_2*v2_1 == r, |x| matches the reference parameter."""
from poly import Poly
from symx import Interp, Leaf, Obj, Arr, Cell, Ptr, POISON, SymxError
from groupdom import GroupDomain, Lin, pmod, residual_check, R_ORDER, TWO256, P as PP, z3_query, _smt_term
from scen import ScenUnit, guarded, Abandon
from bvspec import X_ABS, R as R_REF
import units as U

P = ["C06", "C07"]


def raw(fn):
    fn.raw = True
    return fn


def cong_zero(dom, p, inputs, what):
    """p == 0 (mod r) for all inputs under the path constraints"""
    lin = Lin({"one": p})
    st, model = residual_check(dom, lin, inputs)
    return (what, "ok" if st == "ok" else ("fail" if st == "refuted" else "undecided"), "" if st == "ok" else "%r ; %r" % (lin, model), None)


def gen_lambda(tu):
    def run(path):
        @raw
        def floordiv(I_, f_, this, args):
            args[0].val = I_.dom.fresh_scalar("b2", 0, 1 << 128)      # any 128-bit rounded quotient
            return None
        oc = {q: floordiv for q in tu.by_qname if q.startswith("floordiv_by_fr_p_value")}
        dom = GroupDomain(consts=U.SHARED.get("consts"), obj_contracts=oc)
        I = Interp(tu, dom)
        I.path = path
        f = tu.func("decompose_lambda")
        c0, c1, k = I.new_object("BigInt<256>"), I.new_object("BigInt<256>"), I.new_object("BigInt<256>")
        n0, n1 = Cell(POISON), Cell(POISON)
        k.val = dom.input_scalar("k")
        I.call(f, None, [c0, n0, c1, n1, k], force_body=True)
        lam = dom.consts.value("g1_endomorphism_lambda")
        obs = [(w, s, m, None) for (w, s, m) in dom.side]
        if n0.v is POISON or n1.v is POISON or c0.val is POISON or c1.val is POISON:
            return obs + [("outputs written", "fail", "c0/c1/signs not all written", None)]
        val = (-1 if n0.v else 1) * PP(c0.val) + (-1 if n1.v else 1) * PP(c1.val) * lam - Poly.var("k")
        inputs = {v for v in dom.ranges}
        obs.append(cong_zero(dom, val, inputs, "(+-c0) + (+-c1)*lambda == k (mod r)"))
        for nm, c in (("c0", c0), ("c1", c1)):
            dom.side = []
            dom.range_obligation(I, c.val, TWO256, "%s is a 256-bit value" % nm)
            obs += [(w, s, m, None) for (w, s, m) in dom.side]
        return obs
    yield "all k, all rounded quotients", guarded(run)

    def consts(path):
        dom = GroupDomain(consts=U.SHARED.get("consts"))
        c = dom.consts
        lam, v12, v21 = c.value("g1_endomorphism_lambda"), c.value("g1_v1_2"), c.value("g1_v2_1")
        r = c.value("Fr::p_value") if "Fr::p_value" in c.raw else c.value("wkdibe::group_order")
        chk = lambda w, ok: (w, "ok" if ok else "fail", "", None)
        return [chk("group order constant == r = x^4 - x^2 + 1", r == R_REF),
                chk("v1_2 * lambda == 1 (mod r)", (v12 * lam - 1) % R_REF == 0),
                chk("v2_1 + lambda == 0 (mod r)", (v21 + lam) % R_REF == 0),
                chk("lambda^2 + lambda + 1 == 0 (mod r), lambda != 1", (lam * lam + lam + 1) % R_REF == 0 and lam % R_REF != 1),
                chk("1 + v1_2 * v2_1 == r", 1 + v12 * v21 == R_REF)]
    yield "closed facts", guarded(consts)


def gen_powers(tu):
    def run(path):
        dom = GroupDomain(consts=U.SHARED.get("consts"), drop_leaf=("PowersOfX",))
        I = Interp(tu, dom)
        I.path = path
        f = tu.func("PowersOfX::decompose")
        this = I.new_object("PowersOfX")
        y = I.new_object("BigInt<256>")
        y.val = dom.input_scalar("y")
        I.call(f, this, [y], force_body=True)
        obs = [(w, s, m, None) for (w, s, m) in dom.side]
        cs = [c.val for c in this.f["c"].items]
        if any(c is POISON for c in cs):
            return obs + [("digits written", "fail", repr(cs), None)]
        inputs = set(dom.ranges)
        val = sum((PP(c) * X_ABS ** j for j, c in enumerate(cs)), Poly()) - Poly.var("y")
        obs.append(cong_zero(dom, val, inputs, "c0 + c1|x| + c2|x|^2 + c3|x|^3 == y (mod r)"))
        for j, c in enumerate(cs):
            dom.side = []
            dom.range_obligation(I, c, (X_ABS if j < 3 else 1 << 64), "digit c%d < %s" % (j, "|x|" if j < 3 else "2^64 (wNAF<64> input)"))
            obs += [(w, s, m, None) for (w, s, m) in dom.side]
        return obs
    yield "all 256-bit y", guarded(run)

    def consts(path):
        dom = GroupDomain(consts=U.SHARED.get("consts"))
        c = dom.consts
        chk = lambda w, ok: (w, "ok" if ok else "fail", "", None)
        bx = c.value("bls_x")
        return [chk("bls_x == |x| (reference parameter)", bx == X_ABS),
                chk("bls_x_squared == |x|^2", c.value("bls_x_squared") == X_ABS ** 2),
                chk("bls_x_cubed == |x|^3", c.value("bls_x_cubed") == X_ABS ** 3),
                chk("bls_x_is_negative", c.value("bls_x_is_negative") == 1),
                chk("r == |x|^4 - |x|^2 + 1", R_REF == X_ABS ** 4 - X_ABS ** 2 + 1)]
    yield "closed facts", guarded(consts)


def units():
    lower = ["BigInt::multiply = exact product when it fits; add / subtract / compare / shift_left_in_word<1> / copy exact (C02)", "BigInt::divide_std_dword<d>: a = q*d + rem, rem < d (C02)",
             "floordiv_by_fr_p_value: returns SOME 128-bit value (no accuracy assumed)"]
    return [ScenUnit("decompose_lambda: (+-c0) + (+-c1)*lambda == k (mod r) for every k and every rounded quotient", P, gen_lambda, targets=["decompose_lambda"], contracts_used=lower),
            ScenUnit("PowersOfX::decompose: digits recombine to y (mod r), digits in range", P, gen_powers, targets=["PowersOfX::decompose", "div_exp_coeff"], contracts_used=lower)]


# ---------------------------------------------------------------------------
# C07 / C10: PowersOfX::random -- the accepted sample satisfies y = sum c_i |x|^i, every digit < |x|, y < r
def gen_powers_random(tu):
    def run(path):
        dom = GroupDomain(consts=U.SHARED.get("consts"), drop_leaf=("PowersOfX",))
        dom.prune = True
        dom.tries = 0
        I = Interp(tu, dom)
        I.path = path
        f = tu.func("PowersOfX::random")
        this = I.new_object("PowersOfX")
        y = I.new_object("BigInt<256>")
        # each BigInt<64>::random draws a fresh 64-bit value; the rejection loops may retry (explored for the first rounds)
        orig = dom.big_method

        def big_method(I_, f_, this_, args_):
            if f_.name == "random":
                dom.tries += 1
                if dom.tries > 5:
                    raise Abandon()          # retry depth: every accepted sample is a fresh draw, deeper retries add nothing
                this_.val = dom.fresh_scalar("draw", 0, 1 << 64)
                return None
            return orig(I_, f_, this_, args_)
        dom.big_method = big_method
        I.call(f, this, [y, Cell("rng")], force_body=True)
        obs = [(w, s, m, None) for (w, s, m) in dom.side]
        cs = [c.val for c in this.f["c"].items]
        inputs = set(dom.ranges)
        val = sum((PP(c) * X_ABS ** j for j, c in enumerate(cs)), Poly()) - PP(y.val)
        st, model = residual_check(dom, Lin({"one": val}), inputs)
        # exact integer equality, not only modulo r: the difference is a constant polynomial identity here
        obs.append(("y == c0 + c1|x| + c2|x|^2 + c3|x|^3 (as integers)", "ok" if (val.is_zero()) else "fail", repr(val), None))
        for j, c in enumerate(cs):
            dom.side = []
            dom.range_obligation(I, c, X_ABS, "accepted digit c%d < |x|" % j)
            obs += [(w, s, m, None) for (w, s, m) in dom.side]
        dom.side = []
        dom.range_obligation(I, y.val, R_REF, "accepted y < r")
        obs += [(w, s, m, None) for (w, s, m) in dom.side]
        return obs
    yield "accepted sample", guarded(run)


_du0 = units


def units():
    return _du0() + [ScenUnit("PowersOfX::random: accepted sample is consistent and in range", ["C07", "C10"], gen_powers_random, targets=["PowersOfX::random"], max_paths=2000,
                              contracts_used=["BigInt::multiply exact, add exact (C02)", "BigInt<64>::random: 8 arbitrary bytes", "BigInt::compare"],
                              assumes=["uniformity: digits <-> [0,r) is a bijection on the accepted set (one line, paper)", "termination of the rejection loops is not claimed"])]
