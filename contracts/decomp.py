"""C06 / C07 (decompositions): decompose_lambda and PowersOfX::decompose recombine to the scalar modulo r.

Integer-level view (GROUP back end with BigInt leaves holding exact integer polynomials + path constraints):
callee contracts are the integer statements of the BigInt layer (C02): multiply = exact product (with the obligation
that it fits the destination), add/subtract/compare/shift = exact with carry/borrow forks, divide_std_dword<d>:
a = q*d + rem, 0 <= rem < d.  floordiv_by_fr_p_value is replaced by the weakest contract "returns some 128-bit
value": the recombination identity holds for EVERY rounded quotient, which is why the unreduced-scalar branch is harmless.
Closed facts used (CONST, from the dumped constants against the reference parameters): v1_2*lambda == 1, v2_1 + lambda == 0,
lambda^2 + lambda + 1 == 0 (mod r), 1 + v1_2*v2_1 == r, |x| matches the reference parameter."""
import re
from poly import Poly
from symx import Interp, Leaf, Obj, Arr, Cell, Ptr, POISON, SymxError
from groupdom import GroupDomain, Lin, pmod, residual_check, R_ORDER, TWO256, P as PP, z3_query, _smt_term
from scen import ScenUnit, guarded, Abandon
from bvspec import X_ABS, R as R_REF
import units as U

P = ["C06", "C07"]


def raw(fn):
    fn.raw = True
    return fn


def cong_zero(dom, p, inputs, what):
    """p == 0 (mod r) for all inputs under the path constraints"""
    lin = Lin({"one": p})
    st, model = residual_check(dom, lin, inputs)
    return (what, "ok" if st == "ok" else ("fail" if st == "refuted" else "undecided"), "" if st == "ok" else "%r ; %r" % (lin, model), None)


def gen_lambda(tu):
    def run(path):
        @raw
        def floordiv(I_, f_, this, args):
            args[0].val = I_.dom.fresh_scalar("b2", 0, 1 << 128)      # any 128-bit rounded quotient
            return None
        oc = {q: floordiv for q in tu.by_qname if q.startswith("floordiv_by_fr_p_value")}
        dom = GroupDomain(consts=U.SHARED.get("consts"), obj_contracts=oc)
        I = Interp(tu, dom)
        I.path = path
        f = tu.func("decompose_lambda")
        c0, c1, k = I.new_object("BigInt<256>"), I.new_object("BigInt<256>"), I.new_object("BigInt<256>")
        n0, n1 = Cell(POISON), Cell(POISON)
        k.val = dom.input_scalar("k")
        I.call(f, None, [c0, n0, c1, n1, k], force_body=True)
        lam = dom.consts.value("g1_endomorphism_lambda")
        obs = [(w, s, m, None) for (w, s, m) in dom.side]
        if n0.v is POISON or n1.v is POISON or c0.val is POISON or c1.val is POISON:
            return obs + [("outputs written", "fail", "c0/c1/signs not all written", None)]
        val = (-1 if n0.v else 1) * PP(c0.val) + (-1 if n1.v else 1) * PP(c1.val) * lam - Poly.var("k")
        inputs = {v for v in dom.ranges}
        obs.append(cong_zero(dom, val, inputs, "(+-c0) + (+-c1)*lambda == k (mod r)"))
        for nm, c in (("c0", c0), ("c1", c1)):
            dom.side = []
            dom.range_obligation(I, c.val, TWO256, "%s is a 256-bit value" % nm)
            obs += [(w, s, m, None) for (w, s, m) in dom.side]
        return obs
    yield "all k, all rounded quotients", guarded(run)

    def consts(path):
        dom = GroupDomain(consts=U.SHARED.get("consts"))
        c = dom.consts
        lam, v12, v21 = c.value("g1_endomorphism_lambda"), c.value("g1_v1_2"), c.value("g1_v2_1")
        r = c.value("Fr::p_value") if "Fr::p_value" in c.raw else c.value("wkdibe::group_order")
        chk = lambda w, ok: (w, "ok" if ok else "fail", "", None)
        return [chk("group order constant == r = x^4 - x^2 + 1", r == R_REF),
                chk("v1_2 * lambda == 1 (mod r)", (v12 * lam - 1) % R_REF == 0),
                chk("v2_1 + lambda == 0 (mod r)", (v21 + lam) % R_REF == 0),
                chk("lambda^2 + lambda + 1 == 0 (mod r), lambda != 1", (lam * lam + lam + 1) % R_REF == 0 and lam % R_REF != 1),
                chk("1 + v1_2 * v2_1 == r", 1 + v12 * v21 == R_REF)]
    yield "closed facts", guarded(consts)


def gen_powers(tu):
    def run(path):
        dom = GroupDomain(consts=U.SHARED.get("consts"), drop_leaf=("PowersOfX",))
        I = Interp(tu, dom)
        I.path = path
        f = tu.func("PowersOfX::decompose")
        this = I.new_object("PowersOfX")
        y = I.new_object("BigInt<256>")
        y.val = dom.input_scalar("y")
        I.call(f, this, [y], force_body=True)
        obs = [(w, s, m, None) for (w, s, m) in dom.side]
        cs = [c.val for c in this.f["c"].items]
        if any(c is POISON for c in cs):
            return obs + [("digits written", "fail", repr(cs), None)]
        inputs = set(dom.ranges)
        val = sum((PP(c) * X_ABS ** j for j, c in enumerate(cs)), Poly()) - Poly.var("y")
        obs.append(cong_zero(dom, val, inputs, "c0 + c1|x| + c2|x|^2 + c3|x|^3 == y (mod r)"))
        for j, c in enumerate(cs):
            dom.side = []
            dom.range_obligation(I, c, (X_ABS if j < 3 else 1 << 64), "digit c%d < %s" % (j, "|x|" if j < 3 else "2^64 (wNAF<64> input)"))
            obs += [(w, s, m, None) for (w, s, m) in dom.side]
        return obs
    yield "all 256-bit y", guarded(run)

    def consts(path):
        dom = GroupDomain(consts=U.SHARED.get("consts"))
        c = dom.consts
        chk = lambda w, ok: (w, "ok" if ok else "fail", "", None)
        bx = c.value("bls_x")
        return [chk("bls_x == |x| (reference parameter)", bx == X_ABS),
                chk("bls_x_squared == |x|^2", c.value("bls_x_squared") == X_ABS ** 2),
                chk("bls_x_cubed == |x|^3", c.value("bls_x_cubed") == X_ABS ** 3),
                chk("bls_x_is_negative", c.value("bls_x_is_negative") == 1),
                chk("r == |x|^4 - |x|^2 + 1", R_REF == X_ABS ** 4 - X_ABS ** 2 + 1)]
    yield "closed facts", guarded(consts)


# ---------------------------------------------------------------------------
# BV view of decompose_lambda: the word-level sign / magnitude handling.  The integer-level unit above proves that
# (k - b1 - b2*v2_1) + (b1*v1_2 - b2)*lambda == k (mod r) for EVERY b2; this unit proves that the real body, word for word, outputs
# exactly |k - (P + b1)| with its sign and |b1*v1_2 - b2| with its sign, where b1 = [2k >= r], b2 = whatever floordiv returned (ghost),
# P = whatever BigInt<256>::multiply<128>(b2, v2_1) returned (ghost, with the range axiom P <= (2^128 - 1) * v2_1).
def bv_lambda_unit():
    import bvspec as S, bigint as BI
    from units import BVUnit
    V12 = 0xac45a4010001a40200000000ffffffff
    V21 = 0xac45a4010001a4020000000100000000
    q = "decompose_lambda"
    prelude = "uv256 jpv_P; uv256 jpv_b2; int jpv_b1;\n#define JPV_V12 %s\n#define JPV_PMAX %s\n" % (S.lit(V12, 2, "uv256"), S.lit(((1 << 128) - 1) * V21, 4, "uv256"))
    K, C0, C1 = "OLD256(k)", "VAL256(c0)", "VAL256(c1)"
    tgt = (S.req(S.fresh("c0"), S.fresh("c1"), S.fresh("c0_neg"), S.fresh("c1_neg"), "__CPROVER_pointer_equals(k, c0) || __CPROVER_pointer_equals(k, c1) || " + S.fresh("k"))
           + S.assigns("*c0", "*c1", "*c0_neg", "*c1_neg", "jpv_P", "jpv_b2", "jpv_b1")
           + S.ens("jpv_b1 == ((((uv256)2 * %s) >= SPEC_R) ? 1 : 0)" % K,
                   "*c0_neg ? (%s < jpv_P + jpv_b1 && %s == jpv_P + jpv_b1 - %s) : (%s >= jpv_P + jpv_b1 && %s == %s - (jpv_P + jpv_b1))" % (K, C0, K, K, C0, K),
                   "jpv_b1 == 0 ? (*c1_neg && %s == jpv_b2) : (*c1_neg ? (JPV_V12 < jpv_b2 && %s == jpv_b2 - JPV_V12) : (JPV_V12 >= jpv_b2 && %s == JPV_V12 - jpv_b2))" % (C1, C1, C1),
                   "jpv_b2 < ((uv256)1 << 128)"))
    cs = {q: tgt,
          "BigInt<256>::shift_left_in_word<1>": BI.c_shl1(256), "BigInt<256>::compare": BI.c_compare(256), "BigInt<256>::add": BI.c_add(256), "BigInt<256>::subtract": BI.c_sub(256),
          "BigInt<256>::copy<128>": S.req(S.fresh("self"), S.fresh("a")) + S.assigns("__CPROVER_object_whole(self)") + S.ens("VAL256(self) == (uv256)VAL128(a)"),
          "BigInt<384>::multiply<128>": S.assigns("__CPROVER_object_whole(self)"),
          "BigInt<256>::multiply<128>": S.assigns("__CPROVER_object_whole(self)") + S.ens("VAL256(self) <= JPV_PMAX"),
          "floordiv_by_fr_p_value<128>": S.assigns("__CPROVER_object_whole(result)")}
    ghost = {q: [(r"^\s*BigInt_128 rounded_b2;", "before", "jpv_b1 = rounded_b1;"),
                 (r"floordiv_by_fr_p_value_128\(", "after", "jpv_b2 = (uv256)VAL128(&rounded_b2);"),
                 (r"BigInt_256_multiply_128\(&\(product\)", "after", "jpv_P = VAL256(&product);")]}
    u = BVUnit(q, cs, P, replace=[k_ for k_ in cs if k_ != q], unwind=8, timeout=900, spec_prelude=prelude, ghost=ghost, extra=["--object-bits", "10"],
               canary=("jpv_b2 - JPV_V12)", "jpv_b2 - JPV_V12 + 1)"),
               label="decompose_lambda (words): c0 = |k - (P + b1)|, c1 = |b1*v1_2 - b2| with their signs, b1 = [2k >= r]; P, b2 ghost",
               note="products and the rounded quotient are ghost values (range axiom P <= (2^128-1)*v2_1); the recombination identity over them is the integer-level unit")
    return u


# ---------------------------------------------------------------------------
# BigInt::divide_std_dword<d>.  (A BV unit with CBMC's divider, and one with the axiomatised Euclidean pair, both ran out of time: the
# solver has to derive q < 2^64 from q*d <= a < d*2^64.  The WORD back end tracks that bound arithmetically and decides it at once.)
def gen_divide_word(tu):
    """WORD back end: the real division loop with every digit an exact polynomial; q, r of `/` and `%` are the Euclidean pair of the
    C definition (a == q*d + r, 0 <= r < d), bounds tracked so that the narrowing of the quotient digit is shown lossless"""
    from worddom import WordDomain, wv
    qs = [q for q, f in tu.by_qname.items() if f.body is not None and re.match(r"BigInt<\d+>::divide_std_dword<", q)]
    if not qs:
        import jast
        raise jast.ExtractionError("no instance of BigInt::divide_std_dword")
    for q in sorted(qs):
        for alias in (False, True):
            def run(path, q=q, alias=alias):
                f = tu.func(q)
                d = int(f.targs[0]) % (1 << 64)
                dom = WordDomain(consts=U.SHARED.get("consts"))
                I = Interp(tu, dom)
                I.path = path
                a = I.new_object(f.record.qname)
                a.val = dom.input_words("a", dom.nwords(a.type))
                A = dom.value(a)
                this = a if alias else I.new_object(f.record.qname)
                ret = I.call(f, this, [a], force_body=True)
                ret = wv(I.rv(ret))
                ws = dom.words(this)
                ok = lambda w, c, m="": (w, "ok" if c else "fail", m, None)
                D = dom.reduce_eq(A - dom.value(this) * d - ret.p)
                return [ok("%s%s: VAL(a) == VAL(self) * d + rem (exact, all operands)" % (q, " [self=a]" if alias else ""), D.is_zero(), "residual %r" % D),
                        ok("%s: rem < d" % q, dom.refine(ret).hi < d, "bound %d" % ret.hi),
                        ok("%s: every quotient digit written, below 2^64" % q, all(w is not POISON and wv(w).hi < (1 << 64) for w in ws))]
            yield q + (" [self=a]" if alias else ""), guarded(run)


def _replay_divide(rec, unit, result, fresh, tu, wd, cx):
    """native: the real BigInt<256>::divide_std_dword<|x|> on every 4-digit operand with digits in {0, 1, d-1, d, d+1, 2^64-1}, against Python divmod"""
    import replay as R_, itertools
    d = X_ABS
    digs = [0, 1, d - 1, d, d + 1, (1 << 64) - 1]
    vals = [sum(w << (64 * i) for i, w in enumerate(ws)) for ws in itertools.product(digs, repeat=4)]
    lines = [R_.unity_source(), "#include <stdio.h>", "#include <string.h>", "using namespace embedded_pairing; using namespace embedded_pairing::core; using namespace embedded_pairing::bls12_381;",
             "static const uint64_t DG[6] = {%s};" % ", ".join("%dULL" % x for x in digs),
             "int main(){ unsigned k = 0; for (int i3 = 0; i3 < 6; i3++) for (int i2 = 0; i2 < 6; i2++) for (int i1 = 0; i1 < 6; i1++) for (int i0 = 0; i0 < 6; i0++, k++) {",
             "  uint64_t w[4] = {DG[i3], DG[i2], DG[i1], DG[i0]}; BigInt<256> a, q; memcpy(&a, w, sizeof w); uint64_t r = q.divide_std_dword<%dULL>(a); memcpy(w, &q, sizeof w);" % d,
             "  printf(\"r%u %llu %llu %llu %llu %llu\\n\", k, (unsigned long long)w[0], (unsigned long long)w[1], (unsigned long long)w[2], (unsigned long long)w[3], (unsigned long long)r); } return 0; }"]
    native, err = R_.run_native("\n".join(lines), wd, "divide_native")
    rec["native_driver_error"] = err
    if native is None:
        return False
    for k, a in enumerate(vals):
        out = native.get("r%d" % k)
        if out is None:
            continue
        qv = sum(x << (64 * i) for i, x in enumerate(out[:4]))
        if (qv, out[4]) != divmod(a, d):
            rec["native_finding"] = "real BigInt<256>::divide_std_dword<|x|> on a = %d returns quotient %d, remainder %d; a divmod |x| = %r" % (a, qv, out[4], divmod(a, d))
            rec["confirmed_on_real_code"] = True
            return True
    rec["confirmed_on_real_code"] = False
    return False


def bv_divide_w32_unit():
    """portable configuration without unsigned __int128: divide_std_dword takes its bit-serial branch (64 shift / compare / subtract steps per digit).
    Per-digit step relation asserted at the end of the digit loop; the digits are chained by the ensures clauses as in the word-level unit."""
    import bvspec as S
    from units import BVUnit
    q = "BigInt<256>::divide_std_dword<-3314367850767908864>"
    D = "((uv128)%dULL)" % X_ABS
    prelude = "uint64_t jpv_up[4], jpv_lo[4], jpv_q[4], jpv_rm[4];\n"
    end = "\n".join([
        "jpv_up[i] = dividend_upper; jpv_lo[i] = dividend_lower; jpv_q[i] = quotient; jpv_rm[i] = rem;",
        "__CPROVER_assert((uv128)quotient * %s + (uv128)rem == (((uv128)dividend_upper << 64) | (uv128)dividend_lower), \"division step: upper * 2^64 + lower == quotient * d + rem\");" % D,
        "__CPROVER_assert((uv128)rem < %s, \"division step: rem < d\");" % D])
    c = (S.alias_out_a() + S.assigns("__CPROVER_object_whole(self)", "__CPROVER_object_whole(jpv_up)", "__CPROVER_object_whole(jpv_lo)", "__CPROVER_object_whole(jpv_q)", "__CPROVER_object_whole(jpv_rm)")
         + S.ens("__CPROVER_return_value == jpv_rm[0]", "jpv_up[3] == 0", "jpv_up[2] == jpv_rm[3] && jpv_up[1] == jpv_rm[2] && jpv_up[0] == jpv_rm[1]"))
    u = BVUnit(q, {q: c}, ["C03", "C06"], unwind=66, timeout=1500, spec_prelude=prelude, loop_contracts={q: {("end", 1): end}}, canary=None, tier="thorough",
               label="BigInt<256>::divide_std_dword<|x|> [portable C++, 32-bit words: bit-serial branch]: per-digit division steps exact, remainders chained",
               note="64 restoring-division steps per digit unwound completely")
    u.tu_variant = "w32"
    return u


def word_unit(u):
    u.back_end = "WORD"
    u.replay_hook = _replay_divide
    return u


def closed_v(tu):
    def consts(path):
        dom = GroupDomain(consts=U.SHARED.get("consts"))
        c = dom.consts
        chk = lambda w, ok: (w, "ok" if ok else "fail", "", None)
        return [chk("g1_v1_2, g1_v2_1 are the constants the word-level contract of decompose_lambda was written for", c.value("g1_v1_2") == 0xac45a4010001a40200000000ffffffff and c.value("g1_v2_1") == 0xac45a4010001a4020000000100000000)]
    yield "closed facts", guarded(consts)


def units():
    lower = ["BigInt::multiply = exact product when it fits; add / subtract / compare / shift_left_in_word<1> / copy exact (C02)", "BigInt::divide_std_dword<d>: a = q*d + rem, rem < d (C02)",
             "floordiv_by_fr_p_value: returns SOME 128-bit value (no accuracy assumed)"]
    return [ScenUnit("decompose_lambda: (+-c0) + (+-c1)*lambda == k (mod r) for every k and every rounded quotient", P, gen_lambda, targets=["decompose_lambda"], contracts_used=lower),
            ScenUnit("PowersOfX::decompose: digits recombine to y (mod r), digits in range", P, gen_powers, targets=["PowersOfX::decompose", "div_exp_coeff"], contracts_used=lower),
            word_unit(ScenUnit("BigInt::divide_std_dword<d> (every instance): VAL(a) == VAL(self)*d + rem, rem < d, word level", P + ["C02"], gen_divide_word, targets=[])),
            bv_lambda_unit(), ScenUnit("decompose_lambda (words): constants match the contract", P, closed_v, targets=["decompose_lambda"])]


# ---------------------------------------------------------------------------
# C07 / C10: PowersOfX::random -- the accepted sample satisfies y = sum c_i |x|^i, every digit < |x|, y < r
def gen_powers_random(tu):
    def run(path):
        dom = GroupDomain(consts=U.SHARED.get("consts"), drop_leaf=("PowersOfX",))
        dom.prune = True
        dom.tries = 0
        I = Interp(tu, dom)
        I.path = path
        f = tu.func("PowersOfX::random")
        this = I.new_object("PowersOfX")
        y = I.new_object("BigInt<256>")
        # each BigInt<64>::random draws a fresh 64-bit value; the rejection loops may retry (explored for the first rounds)
        orig = dom.big_method

        tested = []           # digit tuples that went into an acceptance test  y < r

        def big_method(I_, f_, this_, args_):
            if f_.name == "random":
                dom.tries += 1
                # retry depth: explored are (a) no outer retry with at most one digit retry (<= 5 draws) and (b) exactly one outer retry without digit
                # retries (8 draws); deeper retries repeat the same code on fresh draws
                if dom.tries > (8 if tested else 5):
                    raise Abandon()
                this_.val = dom.fresh_scalar("draw", 0, 1 << 64)
                return None
            return orig(I_, f_, this_, args_)
        dom.big_method = big_method
        orig_free = dom.free

        def free(I_, f_, this_, args_):
            # the acceptance test  compare(y, r): remember which digit tuple it judged
            if f_.name == "compare" and len(args_) == 2 and getattr(args_[0], "type", "") == "BigInt<256>":
                tested.append(tuple(repr(PP(c.val)) for c in this.f["c"].items))
            return orig_free(I_, f_, this_, args_)
        dom.free = free
        I.call(f, this, [y, Cell("rng")], force_body=True)
        obs = [(w, s, m, None) for (w, s, m) in dom.side]
        cs = [c.val for c in this.f["c"].items]
        # uniformity on [0, r) rests on WHOLE-tuple rejection: a tuple that failed the test  y < r  is discarded entirely, so no digit of the accepted
        # tuple may have been part of a rejected one (partial re-drawing skews the distribution although every value-level fact still holds)
        stale = {d for t in tested[:-1] for d in t}
        kept = [repr(PP(c)) for c in cs if repr(PP(c)) in stale]
        obs.append(("no digit of the accepted tuple comes from a rejected tuple (whole-tuple rejection: the sample is uniform on [0, r))", "ok" if not kept else "fail",
                    "digits kept across an outer retry: %s" % kept, None))
        obs.append(("the four accepted digits are four different draws", "ok" if len({repr(PP(c)) for c in cs}) == 4 else "fail", repr(cs), None))
        inputs = set(dom.ranges)
        val = sum((PP(c) * X_ABS ** j for j, c in enumerate(cs)), Poly()) - PP(y.val)
        st, model = residual_check(dom, Lin({"one": val}), inputs)
        # exact integer equality, not only modulo r: the difference is a constant polynomial identity here
        obs.append(("y == c0 + c1|x| + c2|x|^2 + c3|x|^3 (as integers)", "ok" if (val.is_zero()) else "fail", repr(val), None))
        for j, c in enumerate(cs):
            dom.side = []
            dom.range_obligation(I, c, X_ABS, "accepted digit c%d < |x|" % j)
            obs += [(w, s, m, None) for (w, s, m) in dom.side]
        dom.side = []
        dom.range_obligation(I, y.val, R_REF, "accepted y < r")
        obs += [(w, s, m, None) for (w, s, m) in dom.side]
        return obs
    yield "accepted sample", guarded(run)


_du0 = units


def units():
    return _du0() + [ScenUnit("PowersOfX::random: accepted sample is consistent and in range", ["C07", "C10"], gen_powers_random, targets=["PowersOfX::random"], max_paths=20000,
                              contracts_used=["BigInt::multiply exact, add exact (C02)", "BigInt<64>::random: 8 arbitrary bytes", "BigInt::compare"],
                              assumes=["uniformity: digits <-> [0,r) is a bijection on the accepted set (one line, paper)", "termination of the rejection loops is not claimed"])]


# ---------------------------------------------------------------------------
# BigInt::divide_std_dword, bit-serial branch (configuration without unsigned __int128): one digit = 64 restoring-division steps
#     top_bit = rem >> 63;  rem = (rem << 1) | bit_i(lower);  if (top_bit == 1 || rem >= d) { rem -= d; quotient |= 1 << i; }
# WORD back end with a LOOP CUT on the bit loop.  Invariant at the head with loop variable i (bits 63 .. i+1 consumed):
#     rem < d,   quotient == Qh * 2^(i+1),   upper * 2^(63-i) + (lower >> (i+1)) == Qh * d + rem
# Base: i == 63, rem == upper < d, quotient == 0.  Step, for every i in 63..0 and every outcome of the two tests: the real body re-establishes the
# invariant for i-1 (the identity is polynomial; rem' in [0, d) and the value of the borrow come from the linear prover).  Exit (i == -1):
# upper * 2^64 + lower == quotient * d + rem, rem < d -- the digit step of the outer loop, which chains as in the 64-bit configurations.
def gen_divide_bitserial(tu):
    from worddom import WordDomain, WVal, wv
    from symx import CutDone, loops_of, locals_of, for_parts, run_iteration, loop_var
    tu32 = U.get_tu(tu, "w32", U.SHARED["workdir"])
    qs = [q for q, f in tu32.by_qname.items() if f.body is not None and re.match(r"BigInt<\d+>::divide_std_dword<", q)]
    if not qs:
        import jast
        raise jast.ExtractionError("no instance of BigInt::divide_std_dword in the 32-bit-word configuration")
    consts32 = U.get_consts_variant(tu32, "w32", U.SHARED["workdir"])
    ok = lambda w, c, m="": (w, "ok" if c else "fail", "" if c else m, None)
    for q in sorted(qs):
        f = tu32.func(q)
        d = int(f.targs[0]) % (1 << 64)
        loops = loops_of(f)
        if len(loops) != 2:
            import jast
            raise jast.ExtractionError("%s: expected the digit loop and the bit loop, found %d loops" % (q, len(loops)))
        names = locals_of(f)
        inner = loops[1]

        def setup(path):
            dom = WordDomain(consts=consts32, word_bits=32)
            dom.use_z3 = True
            dom.incremental = True
            I = Interp(tu32, dom)
            I.path = path
            a = I.new_object(f.record.qname)
            a.val = dom.input_words("a", dom.nwords(a.type))
            this = I.new_object(f.record.qname)
            return dom, I, a, this

        def run_base(path):
            dom, I, a, this = setup(path)
            st = {}

            def cut(I_, n, env):
                init, cond, inc, body = for_parts(n)
                if init.get("kind"):
                    I_.exec(init, env)
                iv = env[loop_var(n)].v
                rem, quo, up = env[names["rem"]].v, env[names["quotient"]].v, env[names["dividend_upper"]].v
                raise CutDone([ok("base: i == 63", iv == 63, repr(iv)), ok("base: quotient == 0", quo == 0, repr(quo)),
                               ok("base: rem == dividend_upper (which is the previous digit's remainder, below d, or 0)", wv(rem).p == wv(up).p, repr(rem))])
            I.loop_cuts[inner["id"]] = cut
            try:
                I.call(f, this, [a], force_body=True)
            except CutDone as e:
                return e.obs
            return [ok("base: bit loop reached", False)]
        yield q + " base", guarded(run_base)

        for i0 in list(range(63, -1, -1)):
            def run_step(path, i0=i0):
                dom, I, a, this = setup(path)
                st = {}

                def cut(I_, n, env):
                    if st.get("entered"):
                        iv = env[loop_var(n)].v
                        rem1, q1 = wv(env[names["rem"]].v), wv(env[names["quotient"]].v)
                        # carry / borrow symbols that the prover pins to 0 or 1 on this path
                        for v in sorted(set(rem1.p.vars()) | set(q1.p.vars())):
                            if v.startswith("b#") or v.startswith("c#"):
                                if dom.prove_lt(Poly.var(v), 1):
                                    dom.constraints.append((Poly.var(v), "=="))
                                elif dom.prove_lt(Poly.const(1) - Poly.var(v), 1):
                                    dom.constraints.append((Poly.var(v) - 1, "=="))
                        if dom.prove_lt(Poly(), 0):
                            raise Abandon()
                        remp, qp = dom.reduce_eq(rem1.p), dom.reduce_eq(q1.p)
                        U_, L_, REM, QH = st["U"], st["L"], st["REM"], st["QH"]
                        # invariant for i0 - 1:  U * 2^(64 - i0) + (L >> i0) == (q' / 2^i0) * d + rem'
                        sh = i0
                        div_ok = all(c % (1 << sh) == 0 for c in qp.t.values())
                        Qh1 = Poly({m: c >> sh for m, c in qp.t.items()}) if div_ok else Poly()
                        Lsh = wv(dom.split(WVal(L_, (1 << 64) - 1), sh)[1]).p
                        D = dom.reduce_eq(U_ * (1 << (64 - i0)) + Lsh - Qh1 * d - remp)
                        raise CutDone([ok("step i=%d: i' == i - 1" % i0, iv == i0 - 1, repr(iv)),
                                       ok("step i=%d: quotient' is a multiple of 2^i" % i0, div_ok, repr(qp)[:200]),
                                       ok("step i=%d: upper * 2^(64-i) + (lower >> i) == (quotient' / 2^i) * d + rem'  (exact)" % i0, D.is_zero(), "residual %r" % D),
                                       ok("step i=%d: rem' < d" % i0, dom.prove_lt(remp, d), "not derivable")])
                    st["entered"] = True
                    init, cond, inc, body = for_parts(n)
                    if init.get("kind"):
                        I_.exec(init, env)
                    env[loop_var(n)].v = i0
                    REM = dom.input_word("rem", d - 1)
                    QH = dom.input_word("qh", (1 << (63 - i0)) - 1) if i0 < 63 else 0
                    U_w = dom.input_word("upper", d - 1)
                    Lw = dom.input_word("lower", (1 << 64) - 1)
                    env[names["rem"]].v = REM
                    env[names["quotient"]].v = WVal(wv(QH).p * (1 << (i0 + 1)), wv(QH).hi << (i0 + 1)) if i0 < 63 else 0
                    env[names["dividend_upper"]].v = U_w
                    env[names["dividend_lower"]].v = Lw
                    st.update(U=U_w.p, L=Lw.p, REM=REM.p, QH=wv(QH).p)
                    # invariant as a fact for the prover: U * 2^(63-i) + (L >> (i+1)) == Qh * d + rem
                    if i0 < 63:
                        # lower >> (i+1), written through the same splits the code performs (lower >> i, then the low bit), so that the symbols coincide
                        Lhi = wv(dom.split(dom.split(Lw, i0)[1], 1)[1]).p
                        inv = U_w.p * (1 << (63 - i0)) + Lhi - wv(QH).p * d - REM.p
                    else:
                        inv = U_w.p - REM.p                   # i == 63: (L >> 64) == 0, Qh == 0
                    dom.constraints.append((inv, "=="))         # the invariant: an equality of the path (used by the prover and by reduce_eq)
                    went = run_iteration(I_, n, env)
                    if not went:
                        raise CutDone([ok("step i=%d: loop guard holds" % i0, False)])
                    return cut(I_, n, env)
                I.loop_cuts[inner["id"]] = cut
                try:
                    I.call(f, this, [a], force_body=True)
                except CutDone as e:
                    return e.obs
                return [ok("step: cut reached", False)]
            yield q + " step i=%d" % i0, guarded(run_step)

        def run_exit(path):
            # the invariant at i == -1 IS the digit relation; here: what the digit loop does with it (store quotient, carry rem on), all digits
            dom, I, a, this = setup(path)
            k = [0]

            def cut(I_, n, env):
                # replace the bit loop by its contract: fresh (quotient, rem) with upper * 2^64 + lower == quotient * d + rem, rem < d
                k[0] += 1
                up, lo = wv(env[names["dividend_upper"]].v), wv(env[names["dividend_lower"]].v)
                Q_ = dom.input_word("dq%d" % k[0], (1 << 64) - 1)
                R_ = WVal(up.p * (1 << 64) + lo.p - Q_.p * d, d - 1)
                env[names["quotient"]].v = Q_
                env[names["rem"]].v = R_
            I.loop_cuts[inner["id"]] = cut
            A = dom.value(a)
            ret = wv(I.rv(I.call(f, this, [a], force_body=True)))
            D = dom.reduce_eq(A - dom.value(this) * d - ret.p)
            return [ok("%s: with the bit loop replaced by its proved relation, VAL(a) == VAL(self) * d + rem over all digits (exact)" % q, D.is_zero(), "residual %r" % D),
                    ok("%s: rem < d" % q, dom.refine(ret).hi < d), ok("%s: one bit loop per digit" % q, k[0] == dom.nwords(a.type) * 32 // 64, str(k[0]))]
        yield q + " digits", guarded(run_exit)


def units_bitserial():
    u = ScenUnit("BigInt::divide_std_dword<d> [portable C++, 32-bit words: bit-serial branch]: loop cut on the 64 restoring-division steps; digits chain to VAL(a) == VAL(self)*d + rem", ["C03", "C06"], gen_divide_bitserial, targets=[],
                 contracts_used=["WORD back end, loop cut (base / step for every bit index and branch outcome / composition)"])
    u.back_end = "WORD"
    return [u]


_du1 = units


def units():
    return _du1() + units_bitserial()
