"""C20: self-contained, stateless, re-entrant.

What contracts give: every function under contract elsewhere has a proved frame (assigns: its outputs only).  This module adds the
whole-library facts that make "no state between calls" and "no external dependency" checkable:
  (1) AST: no function in any library translation unit (portable and assembly-enabled configuration, runtime.cpp, C wrappers) declares a
      local variable with static storage;
  (2) AST: the only namespace-scope objects that are not const are the CPU-dispatch pointers (+ the feature flag they are initialised from)
      and g1_endomorphism_lambda;
  (3) AST: no function body writes to, or takes a mutable reference to, any of those objects (the dispatch pointers are only read / called);
  (4) objects rebuilt from the working tree with the Makefile's flags: undefined symbols are only the C memory primitives and compiler
      arithmetic helpers; writable data/bss symbols are exactly the objects of (2).
Data-race freedom for calls on distinct outputs then follows from disjoint frames (paper lemma); schedules are NOT explored."""
import os, re, subprocess, glob, json
from symx import SymxError
from scen import ScenUnit, guarded
from jast import REPO, TU, dump_ast, unity_source, clang_flags, LIB_SOURCES, norm_type
import units as U

P = ["C20"]
ALLOWED_MUTABLE = {"runtime_fpbase_384_montgomery_reduce", "runtime_bigint_768_multiply", "runtime_bigint_768_square", "cpu_supports_bmi2_adx", "g1_endomorphism_lambda"}
ALLOWED_UNDEF = {"memcpy", "memmove", "memset", "memcmp", "bcmp", "__udivti3", "__umodti3", "__udivmodti4", "__multi3", "_GLOBAL_OFFSET_TABLE_", "__stack_chk_fail"}


def all_roots(wd):
    """JSON ASTs of every library translation unit configuration"""
    roots = []
    roots.append(("portable (DISABLE_ASM)", dump_ast(wd, name="st_portable")))
    roots.append(("C wrappers wkdibe", dump_ast(wd, name="st_wkd", source=unity_source(variant="wkdcapi", with_driver=False))))
    roots.append(("C wrappers lqibe", dump_ast(wd, name="st_lq", source=unity_source(variant="lqcapi", with_driver=False))))
    asm_src = unity_source(with_driver=False) + '#include "%s/src/core/arch/x86_64/runtime.cpp"\n' % REPO
    roots.append(("x86-64 assembly configuration + runtime.cpp", dump_ast(wd, name="st_asm", source=asm_src, asm=True)))
    return roots


def in_repo(n, cur):
    f = n.get("loc", {}).get("file") or n.get("range", {}).get("begin", {}).get("file")
    if f:
        cur[0] = f
    return cur[0]


def pointee_const(qt):
    """is the outermost pointee / referee of this type const-qualified?  None if the type is not a pointer / reference"""
    qt = qt.strip()
    m = re.match(r"^(.*?)(\*|&)\s*(const|__restrict|volatile|\s)*$", qt)
    if not m:
        return None
    inner = m.group(1).strip()
    if inner.endswith("*") or inner.endswith("* const") or inner.endswith("*const"):
        return inner.endswith("const")            # pointer to pointer: constness of the inner pointer itself
    return bool(re.match(r"^const\b", inner) or re.search(r"\bconst$", inner))


def scan_constcasts(root):
    """casts in library code that remove const from a pointee / referee (a routine could then write through a const parameter)"""
    out = []
    cur = [""]

    def read_only_use(parents):
        """the cast value is dereferenced and read on the spot: ... (ParenExpr)* <- UnaryOperator(*) <- ImplicitCastExpr(LValueToRValue)"""
        i = len(parents) - 1
        while i >= 0 and parents[i].get("kind") == "ParenExpr":
            i -= 1
        if i >= 1 and parents[i].get("kind") == "UnaryOperator" and parents[i].get("opcode") == "*":
            j = i - 1
            while j >= 0 and parents[j].get("kind") == "ParenExpr":
                j -= 1
            return j >= 0 and parents[j].get("kind") == "ImplicitCastExpr" and parents[j].get("castKind") == "LValueToRValue"
        return False

    def walk(n, parents=()):
        k = n.get("kind")
        f = in_repo(n, cur)
        if f.startswith(REPO + "/") and k in ("CXXConstCastExpr", "CStyleCastExpr", "CXXReinterpretCastExpr", "CXXStaticCastExpr", "CXXFunctionalCastExpr") and not read_only_use(list(parents)):
            dst = n.get("type", {}).get("qualType", "")
            if n.get("valueCategory") == "lvalue" and not dst.rstrip().endswith("&"):
                dst = dst + " &"
            inner = [c for c in n.get("inner", []) if c.get("kind")]
            src = inner[-1].get("type", {}).get("qualType", "") if inner else ""
            if inner and inner[-1].get("valueCategory") == "lvalue" and k == "CXXConstCastExpr" and not src.rstrip().endswith("&"):
                src = src + " &"
            pd, ps = pointee_const(dst), pointee_const(src)
            if k == "CXXConstCastExpr" and not (pd is True):
                out.append((k, src, dst, os.path.basename(f), n.get("range", {}).get("begin", {}).get("line")))
            elif pd is False and ps is True:
                out.append((k, src, dst, os.path.basename(f), n.get("range", {}).get("begin", {}).get("line")))
        for c in n.get("inner", []):
            walk(c, tuple(parents) + (n,))
    walk(root)
    return out


def scan_long(root):
    """a value whose WRITTEN type is `long` / `unsigned long` (a literal with an L / UL suffix in the source, a variable declared long, an explicit cast
    to long) used as the LEFT operand of `<<` with a shift count that is not a constant below 31: 64 bits wide on the x86-64 / AArch64 targets, 32 on
    ARMv6-M (and LLP64), where the bits shifted past position 31 are lost (and a count >= 32 is undefined).  The fixed-width typedefs and the
    UINT64_C-style macros expand to the right type per target and are not flagged (macro-expanded literals have a scratch-space spelling location;
    typedef'd types carry a desugared type next to the written one); an unsuffixed literal that is long only by magnitude adapts to the target."""
    out = []
    cur = [""]
    LONG = re.compile(r"^(const |volatile )*(unsigned long|long|signed long|long unsigned int|long int|unsigned long int)( const| volatile)*$")

    def written_long(t):
        return isinstance(t, dict) and "desugaredQualType" not in t and "typeAliasDeclId" not in t and bool(LONG.match(t.get("qualType", "").strip()))

    def strip(n):
        while n.get("kind") in ("ParenExpr", "ImplicitCastExpr") and n.get("inner"):
            n = n["inner"][0]
        return n

    def is_written_long_value(n, f):
        n = strip(n)
        k = n.get("kind")
        b = n.get("range", {}).get("begin", {})
        if "spellingLoc" in b or "expansionLoc" in b:
            return None
        if k == "IntegerLiteral" and written_long(n.get("type")):
            tok = ""
            try:
                with open(f, "rb") as fh:
                    fh.seek(b.get("offset", 0))
                    tok = fh.read(b.get("tokLen", 0)).decode("ascii", "replace")
            except OSError:
                tok = "?"
            return tok if (re.search(r"(?i)(ul|lu|l)$", tok) and not re.search(r"(?i)ll", tok)) else None
        if k == "DeclRefExpr" and written_long(n.get("referencedDecl", {}).get("type")):
            return n["referencedDecl"].get("name")
        if k in ("CStyleCastExpr", "CXXStaticCastExpr", "CXXFunctionalCastExpr") and written_long(n.get("type")):
            return "(long) cast"
        return None

    def small_const(n):
        n = strip(n)
        return n.get("kind") == "IntegerLiteral" and int(n.get("value", "99")) < 31

    def walk(n):
        f = in_repo(n, cur)
        if f.startswith(REPO + "/") and n.get("kind") in ("BinaryOperator", "CompoundAssignOperator") and n.get("opcode") in ("<<", "<<=") and len(n.get("inner", [])) == 2:
            who = is_written_long_value(n["inner"][0], f)
            if who is not None and not small_const(n["inner"][1]):
                out.append(("<<", who, os.path.basename(f), n.get("range", {}).get("begin", {}).get("line")))
        for c in n.get("inner", []) or []:
            walk(c)
    walk(root)
    return out


def scan_plainchar(root):
    """values of plain `char` type in library code.  Plain char is signed on x86-64 and unsigned on AArch64 / ARMv6-M (AAPCS), so any comparison,
    shift, widening or table index computed from one differs between the targets the library ships code for; int8_t / uint8_t / signed char /
    unsigned char (what the library uses for digits and bytes) do not.  Pointers to char (byte access, string literals) are not values of the type."""
    out = []
    cur = [""]

    def walk(n):
        f = in_repo(n, cur)
        t = n.get("type", {})
        qt = t.get("desugaredQualType", t.get("qualType", "")) if isinstance(t, dict) else ""
        base = re.sub(r"\b(const|volatile)\b", "", qt).strip()
        if base == "char" and f.startswith(REPO + "/") and n.get("kind") not in ("StringLiteral",):
            out.append((n.get("kind"), n.get("name", ""), os.path.basename(f), n.get("range", {}).get("begin", {}).get("line") or n.get("loc", {}).get("line")))
        for c in n.get("inner", []) or []:
            walk(c)
    walk(root)
    return out


def scan(root):
    statics, mutables, writes = [], [], []
    cur = [""]
    glob_ids = {}

    def is_lib(f):
        return f.startswith(REPO + "/") or f.startswith("/tmp/") and False

    def walk(n, infunc, parents):
        k = n.get("kind")
        f = in_repo(n, cur)
        if k == "VarDecl":
            if infunc and n.get("storageClass") == "static" and is_lib(f):
                statics.append((n.get("name"), f, n.get("loc", {}).get("line")))
            if not infunc and is_lib(f) and not n.get("isImplicit"):
                qt = n["type"].get("desugaredQualType", n["type"]["qualType"]).strip()
                if "(*" in qt:                                   # pointer to function: const only as (*const)
                    is_const = bool(re.search(r"\(\*\s*const\s*\)", qt))
                elif qt.endswith("&"):                           # references cannot be reseated
                    is_const = True
                elif "*" in qt:                                  # object pointer: const only if the pointer itself is (T *const)
                    is_const = bool(re.search(r"\*\s*const$", qt))
                else:
                    is_const = bool(n.get("constexpr") or re.match(r"^const\b", qt) or re.search(r"\bconst$", qt))
                if n.get("storageClass") == "extern" and not any(c.get("kind") for c in n.get("inner", [])):
                    pass
                elif not is_const:
                    mutables.append((n.get("name"), f, qt))
                    glob_ids[n["id"]] = n.get("name")
        body = infunc or (k in ("FunctionDecl", "CXXMethodDecl", "CXXConstructorDecl") )
        for c in n.get("inner", []):
            walk(c, body, parents + [n])

    walk(root, False, [])

    def walk2(n, parents):
        if n.get("kind") == "DeclRefExpr" and n.get("referencedDecl", {}).get("id") in glob_ids:
            par = parents[-1] if parents else {}
            ok = par.get("kind") == "ImplicitCastExpr" and par.get("castKind") in ("LValueToRValue",)
            if par.get("kind") == "ImplicitCastExpr" and par.get("castKind") == "NoOp" and "const" in par.get("type", {}).get("qualType", ""):
                ok = True
            if par.get("kind") == "VarDecl":
                ok = True        # its own initialiser
            infn = any(p.get("kind") in ("FunctionDecl", "CXXMethodDecl") for p in parents)
            if infn and not ok:
                writes.append((glob_ids[n["referencedDecl"]["id"]], par.get("kind"), par.get("castKind"), n.get("range", {}).get("begin", {}).get("line")))
        for c in n.get("inner", []):
            walk2(c, parents + [n])
    walk2(root, [])
    return statics, mutables, writes


MUT = set()
import threading
_LOCK = threading.Lock()
_FACTS = {}


def facts():
    """AST scan of every configuration, once per check run"""
    with _LOCK:
        if "f" not in _FACTS:
            import tempfile, shutil
            wd = tempfile.mkdtemp(prefix="jpv.c20.")
            try:
                roots = all_roots(wd)
                _FACTS["f"] = [(name,) + scan(root) for (name, root) in roots]
                _FACTS["cc"] = [(name, scan_constcasts(root)) for (name, root) in roots]
                _FACTS["pc"] = [(name, scan_plainchar(root)) for (name, root) in roots]
                _FACTS["lg"] = [(name, scan_long(root)) for (name, root) in roots]
            finally:
                shutil.rmtree(wd, ignore_errors=True)
            for (_, _, mutables, _) in _FACTS["f"]:
                MUT.update(m[0] for m in mutables)
        return _FACTS["f"]


def gen_ast(tu):
    def run(path):
        import tempfile
        wd = tempfile.mkdtemp(prefix="jpv.c20.")
        obs = []
        try:
            for (name, statics, mutables, writes) in facts():
                obs.append(("[%s] no function-local static variables" % name, "ok" if not statics else "fail", repr(statics[:6]), None))
                MUT.update(m[0] for m in mutables)
                cc = dict(_FACTS.get("cc", [])).get(name, [])
                obs.append(("[%s] no cast removes const from a pointee or referee except to read the value on the spot (no routine can write through a pointer-to-const parameter)" % name, "ok" if not cc else "fail", repr(cc[:6]), None))
                obs.append(("[%s] no function writes to, or hands out a mutable reference to, a namespace-scope object (%d non-const objects: dispatch table, exported C pointers, g1_endomorphism_lambda)" % (name, len({m[0] for m in mutables})),
                            "ok" if not writes else "fail", repr(writes[:6]), None))
        finally:
            import shutil
            shutil.rmtree(wd, ignore_errors=True)
        return obs
    yield "AST facts", guarded(run)


def gen_objects(tu):
    def run(path):
        import tempfile, shutil, concurrent.futures as cf
        wd = tempfile.mkdtemp(prefix="jpv.c20o.")
        try:
            srcs = sorted(glob.glob(REPO + "/src/core/*.cpp") + glob.glob(REPO + "/src/bls12_381/*.cpp") + glob.glob(REPO + "/src/wkdibe/*.cpp") + glob.glob(REPO + "/src/lqibe/*.cpp") + glob.glob(REPO + "/src/core/arch/x86_64/*.cpp"))
            asms = sorted(glob.glob(REPO + "/src/core/arch/x86_64/*.s"))

            def cc(s):
                o = os.path.join(wd, re.sub(r"\W+", "_", s[len(REPO):]) + ".o")
                if s.endswith(".s"):
                    r = subprocess.run(["as", s, "-o", o], capture_output=True, text=True)
                else:
                    r = subprocess.run(["clang++", "-std=c++17", "-I%s/include" % REPO, "-Ofast", "-fno-vectorize", "-c", s, "-o", o], capture_output=True, text=True)
                return s, o, r.returncode, r.stderr[-400:]
            with cf.ThreadPoolExecutor(max_workers=14) as ex:
                res = list(ex.map(cc, srcs + asms))
            bad = [x for x in res if x[2] != 0]
            if bad:
                raise SymxError("library object does not build: %s" % (bad[0],))
            facts()
            defined, undefined, writable = set(), {}, {}
            for s, o, _, _ in res:
                out = subprocess.run(["nm", o], capture_output=True, text=True).stdout
                for line in out.splitlines():
                    parts = line.split()
                    ty, name = parts[-2], parts[-1]
                    if ty == "U":
                        undefined.setdefault(name, s)
                    else:
                        defined.add(name)
                        if ty in "BbDdCc":
                            writable[name] = (ty, s)
            ext = sorted(n for n in undefined if n not in defined)
            bad_ext = [n for n in ext if n not in ALLOWED_UNDEF]
            obs = [("undefined symbols of the library objects are only memory primitives and compiler helpers", "ok" if not bad_ext else "fail", "external: %s ; not allowed: %s" % (ext, [(n, undefined[n][len(REPO):]) for n in bad_ext]), None)]
            def allowed(nm):
                d = subprocess.run(["c++filt", nm], capture_output=True, text=True).stdout.strip()
                return any(re.search(r"(^|::)%s$" % re.escape(a), d) for a in (MUT | ALLOWED_MUTABLE)), d
            badw = []
            for nm, (ty, s) in writable.items():
                ok, d = allowed(nm)
                if not ok:
                    badw.append((d, ty, s[len(REPO):]))
            obs.append(("every writable data/bss symbol is one of the never-written namespace-scope objects of the AST scan (no hidden state such as function-local statics)", "ok" if not badw else "fail", repr(sorted(badw)[:8]), None))
            return obs
        finally:
            shutil.rmtree(wd, ignore_errors=True)
    yield "objects rebuilt from the working tree (Makefile flags)", guarded(run)


# ---------------------------------------------------------------------------
# C03 / C20: run-time dispatch (src/core/arch/x86_64/runtime.cpp + the CPUID probe)
def gen_dispatch(tu):
    def run(path):
        import tempfile, shutil, asmlift
        wd = tempfile.mkdtemp(prefix="jpv.disp.")
        obs = []
        chk = lambda w, ok, m="": (w, "ok" if ok else "fail", "" if ok else m, None)
        try:
            asm_src = unity_source(with_driver=False) + '#include "%s/src/core/arch/x86_64/runtime.cpp"\n' % REPO
            root = dump_ast(wd, name="disp_asm", source=asm_src, asm=True)
            cur = [""]
            gvars = []          # namespace-scope variable definitions of library files, in order

            def walk(n, infunc):
                k = n.get("kind")
                f = in_repo(n, cur)
                if k == "VarDecl" and not infunc and f.startswith(REPO + "/") and not n.get("isImplicit") and not (n.get("storageClass") == "extern" and not any(c.get("kind") for c in n.get("inner", []))):
                    gvars.append((n, f))
                body = infunc or k in ("FunctionDecl", "CXXMethodDecl", "CXXConstructorDecl")
                for c in n.get("inner", []):
                    walk(c, body)
            walk(root, False)

            def strip(e):
                while e.get("kind") in ("ImplicitCastExpr", "ParenExpr", "ExprWithCleanups", "ConstantExpr") and e.get("inner"):
                    e = e["inner"][0]
                return e

            def calls_in(e):
                out = []
                if e.get("kind") in ("CallExpr", "CXXMemberCallExpr", "CXXOperatorCallExpr"):
                    out.append(e)
                for c in e.get("inner", []):
                    out += calls_in(c)
                return out
            byname = {n.get("name"): (n, f) for n, f in gvars}
            order = [n.get("name") for n, f in gvars]
            probe = "embedded_pairing_core_arch_x86_64_cpu_supports_bmi2_adx"
            flag = byname.get("cpu_supports_bmi2_adx")
            okflag = False
            if flag:
                init = [c for c in flag[0].get("inner", []) if c.get("kind")]
                e = strip(init[0]) if init else {}
                callee = strip(e["inner"][0]) if e.get("kind") == "CallExpr" else {}
                okflag = e.get("kind") == "CallExpr" and callee.get("referencedDecl", {}).get("name") == probe and len(e.get("inner", [])) == 1
            obs.append(chk("cpu_supports_bmi2_adx is initialised by one call of the CPUID probe", okflag))
            for ptr, base in (("runtime_fpbase_384_montgomery_reduce", "fpbase_384_montgomery_reduce"), ("runtime_bigint_768_multiply", "bigint_768_multiply"), ("runtime_bigint_768_square", "bigint_768_square")):
                ent = byname.get(ptr)
                ok, msg = False, "not found"
                if ent:
                    init = [c for c in ent[0].get("inner", []) if c.get("kind")]
                    e = strip(init[0]) if init else {}
                    if e.get("kind") == "ConditionalOperator":
                        c, a, b = [strip(x) for x in e["inner"]]
                        names = [x.get("referencedDecl", {}).get("name") for x in (c, a, b)]
                        ok = names == ["cpu_supports_bmi2_adx", "embedded_pairing_core_arch_x86_64_bmi2_adx_" + base, "embedded_pairing_core_arch_x86_64_" + base]
                        msg = repr(names)
                    ok = ok and order.index("cpu_supports_bmi2_adx") < order.index(ptr) and flag is not None and flag[1] == ent[1]
                obs.append(chk("%s == probe ? bmi2_adx_%s : %s, initialised after the flag in the same translation unit -- both routines meet the same contract (asm units), so every probe value selects the same function" % (ptr, base, base), ok, msg))
            # nothing else is dynamically initialised: no other namespace-scope variable of the library has a call in its initialiser,
            # so no code can run before the table is set up and there is no cross-TU initialisation order to get wrong
            dyn = []
            for n, f in gvars:
                if n.get("name") in ("cpu_supports_bmi2_adx", "runtime_fpbase_384_montgomery_reduce", "runtime_bigint_768_multiply", "runtime_bigint_768_square"):
                    continue
                if n.get("constexpr"):
                    continue
                for c in n.get("inner", []):
                    if c.get("kind") and calls_in(c):
                        dyn.append((n.get("name"), os.path.basename(f)))
            obs.append(chk("no other namespace-scope object of the library has a function call in its initialiser (nothing runs before the dispatch table is set up)", not dyn, repr(dyn[:8])))
            # the probe itself: CPUID leaf 7 sub-leaf 0, EBX bit 8 (BMI2) and bit 19 (ADX), both required, rbx preserved
            funcs = asmlift.disassemble(os.path.join(REPO, "src/core/arch/x86_64/multiply_bmi2_adx.s"), wd)
            ins = [re.sub(r"\s+", " ", t) for a, t in asmlift.routine(funcs, probe)]
            want = ["push %rbx", "mov $0x7,%eax", "xor %ecx,%ecx", "cpuid", "xor %rax,%rax", "bt $0x8,%ebx", "adc %rax,%rax", "xor %rcx,%rcx", "bt $0x13,%ebx", "adc %rcx,%rcx", "and %rcx,%rax", "pop %rbx", "ret"]
            norm = lambda t: re.sub(r"^(ret)q$", r"\1", t.replace("retq", "ret")).strip()
            obs.append(chk("CPUID probe (machine code): leaf 7 / sub-leaf 0, returns EBX[8] & EBX[19] (BMI2 and ADX, Intel SDM), rbx saved and restored", [norm(x) for x in ins] == want, repr(ins)))
        finally:
            shutil.rmtree(wd, ignore_errors=True)
        return obs
    yield "dispatch", guarded(run)


def gen_chartype(tu):
    def run(path):
        obs = []
        facts()
        for (name, pc) in _FACTS.get("pc", []):
            obs.append(("[%s] no value of plain `char` type (signed on x86-64, unsigned on the ARM targets): results cannot depend on the target's char signedness" % name,
                        "ok" if not pc else "fail", repr(pc[:6]), None))
        for (name, lg) in _FACTS.get("lg", []):
            obs.append(("[%s] no value whose written type is `long` / `unsigned long` is shifted left by a count that may reach 31 (32 bits on ARMv6-M, 64 on the other targets)" % name,
                        "ok" if not lg else "fail", repr(lg[:6]), None))
        return obs
    yield "plain char", guarded(run)


def units():
    return [ScenUnit("C03/C20: run-time dispatch table: each pointer is probe ? BMI2/ADX routine : baseline routine of the same operation; CPUID probe; no other dynamic initialisation", ["C03", "C20"], gen_dispatch, contracts_used=["clang AST", "objdump of the assembled probe"]),
            ScenUnit("C20: no function-local statics, no mutable globals beyond the dispatch table, no writes to globals (AST, all configurations)", P, gen_ast, contracts_used=["clang AST"]),
            ScenUnit("C20: undefined symbols and writable sections of the rebuilt objects", P, gen_objects, contracts_used=["clang++ / as / nm on the working tree"]),
            ScenUnit("target-dependent basic types: no value of plain char type, no left shift of a written-long value, in library code (every configuration's AST)", ["C17", "C03", "C06", "C07", "C10", "C02"], gen_chartype, contracts_used=["clang AST"],
                     note="the proofs are carried out for the x86-64 ABI (signed char); this static fact is what lets them stand for the AArch64 / ARMv6-M targets, where plain char is unsigned")]
