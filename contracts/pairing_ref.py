"""C01 (the exported target-group generator): generator_pairing == e(G1 generator, G2 generator), where e is the optimal-ate pairing written from
the definition: the untwisted point psi(Q) = (x'/w^2, y'/w^3) in E(F_q12), Miller's algorithm over the bits of |x| with AFFINE chord-and-tangent
lines in F_q12 (slopes by field inversion), conjugation for the negative parameter, and a plain square-and-multiply by the library's final
exponent 3 (q^12 - 1) / r.  Nothing of the library's projective step formulas, sparse multiplications or addition chains is used; the arithmetic is
tools/tower_ref.py (the defining polynomials).  Together with the refinement units (the real miller_loop / final_exponentiation ARE this algorithm
up to factors in proper subfields, contracts/pairing_c.py) this closes the clause "on the published generators it equals the exported generator".
Also decided here: the reference value is not 1 and its r-th power is 1 (non-degeneracy on the generators, order exactly r because r is prime)."""
from scen import ScenUnit, guarded
import units as U
import tower_ref as TR
from bvspec import Q, R, X_ABS

P = ["C01"]


def inv(a):
    """inverse in the tower by norms (checked by multiplication)"""
    if a.lvl == 1:
        return TR.E(1, (pow(a.c[0], -1, Q),))
    if a.lvl in (2, 12):
        nr = TR.NONRES[a.lvl]
        a0, a1 = a.c
        d = inv(a0 * a0 - nr * (a1 * a1))
        r = TR.E(a.lvl, (a0 * d, (-a1) * d))
    else:
        xi = TR.NONRES[6]
        a0, a1, a2 = a.c
        t0 = a0 * a0 - xi * (a1 * a2)
        t1 = xi * (a2 * a2) - a0 * a1
        t2 = a1 * a1 - a0 * a2
        d = inv(a0 * t0 + xi * (a2 * t1 + a1 * t2))
        r = TR.E(6, (t0 * d, t1 * d, t2 * d))
    if not (a * r == TR.one(a.lvl)):
        raise AssertionError("reference inversion self-check failed")
    return r


def from_mont(raw):
    return raw * pow(1 << 384, -1, Q) % Q


def reference_pairing(xP, yP, xQ, yQ):
    """xP, yP in F_q; xQ, yQ in F_q2 (pairs).  Returns the F_q12 element."""
    one = TR.one(12)
    w = TR.W
    w2i, w3i = inv(w * w), inv(w * w * w)
    Xq = TR.lift(TR.fq2(*xQ), 12) * w2i
    Yq = TR.lift(TR.fq2(*yQ), 12) * w3i
    four = TR.lift(TR.fq(4), 12)
    assert Yq * Yq == Xq * Xq * Xq + four, "psi(Q) is not on E(F_q12)"
    xp, yp = TR.lift(TR.fq(xP), 12), TR.lift(TR.fq(yP), 12)
    assert yp * yp == xp * xp * xp + four, "P is not on E"
    f = one
    Tx, Ty = Xq, Yq
    bits = bin(X_ABS)[3:]
    for b in bits:
        lam = (Tx * Tx * 3) * inv(Ty * 2)
        line = (yp - Ty) - lam * (xp - Tx)
        f = f * f * line
        nx = lam * lam - Tx - Tx
        Ty = lam * (Tx - nx) - Ty
        Tx = nx
        if b == "1":
            lam = (Yq - Ty) * inv(Xq - Tx)
            line = (yp - Ty) - lam * (xp - Tx)
            f = f * line
            nx = lam * lam - Tx - Xq
            Ty = lam * (Tx - nx) - Ty
            Tx = nx
    # x is negative: f_{x,Q} = 1 / f_{|x|,Q} up to a vertical line, i.e. the conjugate (q^6-power) after the final exponentiation
    f = TR.E(12, (f.c[0], -f.c[1]))
    e = 3 * (Q ** 12 - 1) // R
    assert (3 * (Q ** 12 - 1)) % R == 0
    return f ** e


def gen(tu):
    def run(path):
        c = U.SHARED.get("consts")
        g1, g2, gp = c.value("G1Affine::generator"), c.value("G2Affine::generator"), c.value("generator_pairing")
        xP, yP = from_mont(g1["x"]["val"]), from_mont(g1["y"]["val"])
        xQ = (from_mont(g2["x"]["c0"]["val"]), from_mont(g2["x"]["c1"]["val"]))
        yQ = (from_mont(g2["y"]["c0"]["val"]), from_mont(g2["y"]["c1"]["val"]))

        def flat12(v):
            out = []
            for i in ("c0", "c1"):
                for j in ("c0", "c1", "c2"):
                    for k in ("c0", "c1"):
                        out.append(from_mont(v[i][j][k]["val"]))
            return out
        lib = TR.from_flat(12, flat12(gp))
        chk = lambda w_, ok, m="": (w_, "ok" if ok else "fail", "" if ok else m, None)
        obs = [chk("the published generators are the standard BLS12-381 generators' coordinates on their curves (G1: y^2 = x^3 + 4; G2: y^2 = x^3 + 4(1+u))",
                   (yP * yP - xP ** 3 - 4) % Q == 0 and TR.fq2(*yQ) * TR.fq2(*yQ) == TR.fq2(*xQ) * TR.fq2(*xQ) * TR.fq2(*xQ) + TR.fq2(4, 4))]
        try:
            ref = reference_pairing(xP, yP, xQ, yQ)
        except AssertionError as e:
            return obs + [chk("reference pairing computable", False, str(e))]
        obs.append(chk("generator_pairing == reference optimal-ate pairing of the generators (affine Miller loop in F_q12, plain exponentiation by 3(q^12-1)/r)", lib == ref,
                       "library constant differs from the reference value (equal to its inverse: %s)" % (lib * ref == TR.one(12))))
        obs.append(chk("the reference value is not 1 and its r-th power is 1 (order exactly r)", not (ref == TR.one(12)) and ref ** R == TR.one(12)))
        return obs
    yield "generator pairing", guarded(run)


def gen_native(tu):
    """BOUNDED: the real pairing() on sampled subgroup points (and identity cases) against the reference pairing of the same coordinates"""
    def run(path):
        import replay as R_, tempfile, shutil
        wd = tempfile.mkdtemp(prefix="jpv.pr.")
        try:
            ks = [(1, 1), (2, 3), (0x1234567, 0x89abcdef0123), (R - 1, 5), (7, R - 2), (0, 9), (11, 0)]
            lines = [R_.unity_source(), "#include <stdio.h>", "#include <string.h>", "using namespace embedded_pairing; using namespace embedded_pairing::core; using namespace embedded_pairing::bls12_381;",
                     "static void pr(const char* n, int k, const void* p, size_t s){ printf(\"%s%d\", n, k); for(size_t i=0;i<s/8;i++) printf(\" %llu\", (unsigned long long)((const uint64_t*)p)[i]); printf(\"\\n\"); }",
                     "int main(){"]
            for k, (a, b) in enumerate(ks):
                wa = ", ".join("%dULL" % ((a >> (64 * i)) & (2**64 - 1)) for i in range(4))
                wb = ", ".join("%dULL" % ((b >> (64 * i)) & (2**64 - 1)) for i in range(4))
                lines.append("  { BigInt<256> a, b; uint64_t wa[4] = {%s}, wb[4] = {%s}; memcpy(&a, wa, 32); memcpy(&b, wb, 32); G1 p; G2 q; p.multiply(G1Affine::generator, a); q.multiply(G2Affine::generator, b);"
                             " G1Affine pa; G2Affine qa; pa.from_projective(p); qa.from_projective(q); Fq12 e; pairing(e, pa, qa);"
                             " uint64_t inf[2] = {(uint64_t)pa.is_zero(), (uint64_t)qa.is_zero()}; pr(\"inf\", %d, inf, 16); pr(\"px\", %d, &pa.x, 48); pr(\"py\", %d, &pa.y, 48); pr(\"qx\", %d, &qa.x, 96); pr(\"qy\", %d, &qa.y, 96); pr(\"e\", %d, &e, 576); }" % (wa, wb, k, k, k, k, k, k))
            lines.append("  return 0; }")
            native, err = R_.run_native("\n".join(lines), wd, "pairing_native")
            if native is None:
                raise SymxErrorLike(err)
            val = lambda ws: from_mont(sum(x << (64 * i) for i, x in enumerate(ws)))
            obs = []
            for k, (a, b) in enumerate(ks):
                e = native["e%d" % k]
                lib = TR.from_flat(12, [val(e[6 * i:6 * i + 6]) for i in range(12)])
                if native["inf%d" % k] != [0, 0]:
                    ok = lib == TR.one(12)
                    what = "identity member -> 1"
                else:
                    px, py = val(native["px%d" % k]), val(native["py%d" % k])
                    qx = (val(native["qx%d" % k][:6]), val(native["qx%d" % k][6:]))
                    qy = (val(native["qy%d" % k][:6]), val(native["qy%d" % k][6:]))
                    ok = lib == reference_pairing(px, py, qx, qy)
                    what = "== reference pairing of the same coordinates"
                obs.append(("native pairing([%d]G1, [%d]G2) %s" % (a % 10**6, b % 10**6, what), "ok" if ok else "fail", "", None))
            return obs
        finally:
            shutil.rmtree(wd, ignore_errors=True)
    yield "sampled points", guarded(run)


def gen_native_products(tu):
    """BOUNDED: the real pairing_product on mixed lists of plain and prepared pairs (sampled subgroup points, identity members, a negated pair, a
    prepared point shared by two pairs) against the product of the single pairings of the same pairs (Fq12::multiply).  The value-level units of
    contracts/pairing_c.py decide products over an ABSTRACT Fq12; code that writes the accumulator's coefficients directly is outside that
    abstraction (undecided there) -- this run is the bounded stand-in for such code."""
    def run(path):
        import replay as R_, tempfile, shutil
        wd = tempfile.mkdtemp(prefix="jpv.pp.")
        try:
            src = R_.unity_source() + r"""
#include <stdio.h>
#include <string.h>
using namespace embedded_pairing; using namespace embedded_pairing::core; using namespace embedded_pairing::bls12_381;
static void mk1(G1Affine& o, uint64_t k) { BigInt<256> s; memset(&s, 0, sizeof s); memcpy(&s, &k, 8); G1 p; p.multiply(G1Affine::generator, s); o.from_projective(p); }
static void mk2(G2Affine& o, uint64_t k) { BigInt<256> s; memset(&s, 0, sizeof s); memcpy(&s, &k, 8); G2 p; p.multiply(G2Affine::generator, s); o.from_projective(p); }
int main() {
  G1Affine P[6]; G2Affine Q[6]; G2Prepared QP[6];
  uint64_t a[6] = {3, 0, 11, 5, 7, 1}, b[6] = {2, 9, 0, 13, 4, 6};      /* P[1] and Q[2] are identities */
  for (int i = 0; i < 6; i++) { mk1(P[i], a[i]); mk2(Q[i], b[i]); QP[i].prepare(Q[i]); }
  G1Affine Pn; Pn.negate(P[0]);
  int shapes[9][2] = {{1,1},{2,1},{1,2},{2,2},{3,2},{0,2},{2,0},{3,3},{1,3}};
  int bad = 0;
  for (int t = 0; t < 9; t++) {
    int na = shapes[t][0], np = shapes[t][1];
    AffinePair ap[3]; PreparedPair pp[3]; Fq12 want, one; want.copy(Fq12::one);
    for (int j = 0; j < na; j++) { ap[j].g1 = &P[j]; ap[j].g2 = &Q[j + 3 > 5 ? 5 : j + 3]; Fq12 e; pairing(e, *ap[j].g1, *ap[j].g2); want.multiply(want, e); }
    for (int j = 0; j < np; j++) { int k = (t == 7 && j == 2) ? 3 : j + 3; pp[j].g1 = (t == 4 && j == 0) ? &Pn : &P[5 - j]; pp[j].g2 = &QP[k > 5 ? 5 : k]; Fq12 e; pairing(e, *pp[j].g1, Q[k > 5 ? 5 : k]); want.multiply(want, e); }
    Fq12 got; pairing_product(got, ap, na, pp, np);
    int ok = memcmp(&got, &want, sizeof got) == 0;
    printf("case%d %d\n", t, ok); if (!ok) bad++;
    /* a second product on the same records (cursors must have been reset) */
    pairing_product(got, ap, na, pp, np); ok = memcmp(&got, &want, sizeof got) == 0; printf("again%d %d\n", t, ok);
  }
  return 0; }
"""
            native, err = R_.run_native(src, wd, "pairing_products_native")
            if native is None:
                raise SymxErrorLike(err)
            shapes = [(1, 1), (2, 1), (1, 2), (2, 2), (3, 2), (0, 2), (2, 0), (3, 3), (1, 3)]
            obs = []
            for t, (na, np_) in enumerate(shapes):
                for tag in ("case", "again"):
                    ok = native.get("%s%d" % (tag, t)) == [1]
                    obs.append(("native pairing_product(%d plain + %d prepared pairs%s) == product of the single pairings" % (na, np_, ", records reused" if tag == "again" else ""), "ok" if ok else "fail",
                                "" if ok else "list shape (%d plain, %d prepared), points [k]G1 / [k]G2 with small k, identities at fixed places" % (na, np_), None))
            return obs
        finally:
            shutil.rmtree(wd, ignore_errors=True)
    yield "mixed lists", guarded(run)


class SymxErrorLike(Exception):
    pass


def units():
    return [ScenUnit("generator_pairing == e(G1 generator, G2 generator) by the definition-level reference pairing; order r", P, gen, targets=[],
                     contracts_used=["tools/tower_ref.py: tower arithmetic from the defining polynomials", "the refinement of miller_loop / final_exponentiation to this algorithm: contracts/pairing_c.py"]),
            ScenUnit("native pairing_product on mixed plain / prepared lists == product of the single pairings (sampled points)", ["C08", "C01"], gen_native_products, kind="bounded",
                     bound="9 list shapes up to 3 + 3 pairs, fixed small multiples of the generators, identity members, records reused", targets=[],
                     note="bounded stand-in for code that writes the Miller accumulator's representation directly (outside the schedule units' abstraction)"),
            ScenUnit("native pairing() == definition-level reference pairing on sampled subgroup points and identity cases", P, gen_native, tier="thorough", kind="bounded",
                     bound="7 point pairs ([a]G1, [b]G2), incl. a = 0 / b = 0 and a, b near r", targets=[], note="bounded evidence for the step the refinement argument takes from the literature")]
