"""C05 (and the curve part of C18): Projective<F> / Affine<F> point arithmetic against the
chord-and-tangent law on y^2 = x^3 + b, with the base field F an ABSTRACT commutative ring
(one proof shape, run on both instantiations F = Fq (G1) and F = Fq2 (G2)).

Oracle: the affine group law  x3 = l^2 - x1 - x2,  y3 = l (x1 - x3) - y1  with
l = (y2-y1)/(x2-x1) (chord) or 3 x1^2 / (2 y1) (tangent, a = 0), stated in cross-multiplied form on
the Jacobian coordinates (x = X/Z^2, y = Y/Z^3), plus the choice of representative Z3.
Every path through the abstract predicates (is_zero / equal) gets its own obligation."""
from poly import Poly
from ringdom import RingDomain, RingUnit, SpecUndetermined
import units as U

P = ["C05", "C18"]
INST = {"Fq": dict(proj="Projective<Fq>", aff="Affine<Fq, Fr, g1_b_coeff_var>", G="G1"),
        "Fq2": dict(proj="Projective<Fq2>", aff="Affine<Fq2, Fr, g2_b_coeff_var>", G="G2")}


def dom(F):
    return lambda: RingDomain({F, "BigInt<256>", "BigInt<384>", "BigInt<128>", "BigInt<512>"}, consts=U.SHARED.get("consts"))


def xyz(c, who):
    return c.inp(who + ".x"), c.inp(who + ".y"), c.inp(who + ".z")


def same_as(c, who, out="this"):
    x, y, z = xyz(c, who)
    return {out + ".x": x, out + ".y": y, out + ".z": z}


def dbl_relations(c, X, Y, Z, out="this"):
    """tangent law at (X:Y:Z), a = 0, cross-multiplied; Z3 = 2 Y Z fixes the representative"""
    X3, Y3, Z3 = c.post[out + ".x"], c.post[out + ".y"], c.post[out + ".z"]
    lN, lD = 3 * X * X, 2 * Y * Z            # lambda = lN / lD   (3x^2/2y with x = X/Z^2, y = Y/Z^3)
    return {
        out + ".z": lD,
        # x3 = l^2 - 2 x          times Z^2 lD^2 (with Z3 = lD)
        "rel:x3 = l^2 - 2x": X3 * Z * Z - (lN * lN * Z * Z - 2 * X * lD * lD),
        # y3 = l (x - x3) - y     times Z^3 lD^3
        "rel:y3 = l(x - x3) - y": Y3 * Z * Z * Z - (lN * (X * lD * lD * Z - X3 * Z * Z * Z) - Y * lD * lD * lD),
    }


def add_relations(c, P1, P2, out="this"):
    X1, Y1, Z1 = P1
    X2, Y2, Z2 = P2
    X3, Y3, Z3 = c.post[out + ".x"], c.post[out + ".y"], c.post[out + ".z"]
    lN = Y2 * Z1 ** 3 - Y1 * Z2 ** 3        # (y2 - y1) Z1^3 Z2^3
    H = X2 * Z1 ** 2 - X1 * Z2 ** 2         # (x2 - x1) Z1^2 Z2^2
    D = H * Z1 * Z2                         # lambda = lN / D
    return {
        out + ".z": 2 * D,
        # x3 = l^2 - x1 - x2      times (2D)^2 Z1^2 Z2^2
        "rel:x3 = l^2 - x1 - x2": X3 * Z1 ** 2 * Z2 ** 2 - (4 * lN * lN * Z1 ** 2 * Z2 ** 2 - 4 * D * D * (X1 * Z2 ** 2 + X2 * Z1 ** 2)),
        # y3 = l (x1 - x3) - y1   times (2D)^3 Z1^3
        "rel:y3 = l(x1 - x3) - y1": Y3 * Z1 ** 3 - (2 * lN * (4 * X1 * D * D * Z1 - X3 * Z1 ** 3) - 8 * Y1 * D ** 3),
    }


def spec_multiply2(c):
    X, Y, Z = xyz(c, "other")
    if c.truth_of_zero(Z):
        return same_as(c, "other")
    return dbl_relations(c, X, Y, Z)


def spec_add_proj(c):
    a, b = xyz(c, "a"), xyz(c, "b")
    if c.truth_of_zero(b[2]):
        return same_as(c, "a")
    if c.truth_of_zero(a[2]):
        return same_as(c, "b")
    U1, U2 = a[0] * b[2] ** 2, b[0] * a[2] ** 2
    S1, S2 = a[1] * b[2] ** 3, b[1] * a[2] ** 3
    if c.truth_of_zero(U1 - U2) and c.truth_of_zero(S1 - S2):
        return dbl_relations(c, *a)          # same point -> tangent law
    return add_relations(c, a, b)            # includes opposite points: H = 0 gives Z3 = 0 (identity)


def spec_add_mixed(c):
    a = xyz(c, "a")
    inf = c.pre["b.infinity"]
    if inf:
        return same_as(c, "a")
    b = (c.inp("b.x"), c.inp("b.y"), Poly.const(1))
    if c.truth_of_zero(a[2]):
        return {"this.x": b[0], "this.y": b[1], "this.z": Poly.const(1)}
    U2, S2 = b[0] * a[2] ** 2, b[1] * a[2] ** 3
    if c.truth_of_zero(a[0] - U2) and c.truth_of_zero(a[1] - S2):
        return dbl_relations(c, *a)
    return add_relations(c, a, b)


def spec_negate_proj(c):
    x, y, z = xyz(c, "a")
    return {"this.x": x, "this.y": -y, "this.z": z}


def spec_equal_proj(c):
    a, b = xyz(c, "a"), xyz(c, "b")
    if c.truth_of_zero(a[2]):
        return {"return": 1 if c.truth_of_zero(b[2]) else 0}
    if c.truth_of_zero(b[2]):
        return {"return": 0}
    ex = c.truth_of_zero(a[0] * b[2] ** 2 - b[0] * a[2] ** 2)
    if not ex:
        return {"return": 0}
    ey = c.truth_of_zero(a[1] * b[2] ** 3 - b[1] * a[2] ** 3)
    return {"return": 1 if ey else 0}


def spec_from_affine(c):
    if c.pre["a.infinity"]:
        return {"this.z": Poly.const(0)}       # identity: z = 0 (x, y arbitrary)
    return {"this.x": c.inp("a.x"), "this.y": c.inp("a.y"), "this.z": Poly.const(1)}


def spec_from_projective(c):
    X, Y, Z = xyz(c, "a")
    if c.truth_of_zero(Z):
        return {"this.infinity": 1}
    # x = X / Z^2, y = Y / Z^3   cross-multiplied (z = 1 fast path: same statement)
    return {"this.infinity": 0,
            "rel:x Z^2 = X": c.post["this.x"] * Z * Z - X,
            "rel:y Z^3 = Y": c.post["this.y"] * Z ** 3 - Y}


def spec_negate_aff(c):
    return {"this.x": c.inp("a.x"), "this.y": -c.inp("a.y"), "this.infinity": c.pre["a.infinity"]}


def spec_equal_aff(c):
    ia, ib = c.pre["a.infinity"], c.pre["b.infinity"]
    if ia != ib:
        return {"return": 0}
    if ia:
        return {"return": 1}
    ex = c.truth_of_zero(c.inp("a.x") - c.inp("b.x"))
    ey = c.truth_of_zero(c.inp("a.y") - c.inp("b.y"))
    return {"return": 1 if (ex and ey) else 0}


def spec_is_on_curve_for(F):
    def spec(c):
        x, y = c.inp("this.x"), c.inp("this.y")
        # b = 4 on G1; on G2 the constant 4(u+1), an element of the abstract base ring (its value is a closed fact, checked below)
        B = Poly.const(4) if F == "Fq" else Poly.var("K:g2_b_coeff_var")
        return {"return": 1 if c.truth_of_zero(y * y - (x * x * x + B)) else 0}
    return spec


def inf_cases(names):
    import itertools
    out = []
    for vals in itertools.product((0, 1), repeat=len(names)):
        def setup(I, objs, vals=vals):
            for n, v in zip(names, vals):
                objs[n].f["infinity"].v = v
        out.append((",".join("%s.inf=%d" % nv for nv in zip(names, vals)), setup))
    return out


def units():
    us = []
    for F, T in INST.items():
        pj, af = T["proj"], T["aff"]
        used = [F + "::" + m for m in ("add", "subtract", "multiply", "square", "multiply2", "negate", "copy", "is_zero", "equal", "inverse")]
        mk = lambda tgt, sp, **kw: RingUnit(tgt, P, dom(F), sp, contracts_used=used, **kw)
        us.append(mk(pj + "::multiply2", spec_multiply2))
        us.append(mk(pj + "::add(const %s &, const %s &__restrict)" % (pj, pj), spec_add_proj, label=pj + "::add(Projective)"))
        us.append(mk(pj + "::add(const %s &, const %s &__restrict)" % (pj, af), spec_add_mixed, label=pj + "::add(Affine)", cases=inf_cases(["b"])))
        us.append(mk(pj + "::negate", spec_negate_proj))
        us.append(mk(pj + "::equal", spec_equal_proj))
        us.append(mk(pj + "::from_affine", spec_from_affine, cases=inf_cases(["a"])))
        us.append(mk(af + "::from_projective", spec_from_projective))
        us.append(mk(af + "::negate", spec_negate_aff, cases=inf_cases(["a"])))
        us.append(mk(af + "::equal", spec_equal_aff, cases=inf_cases(["a", "b"])))
    return us


# ---------------------------------------------------------------------------
# C09 / C10: y recovery from x (sign chosen by the lexicographic comparison of y and -y) and the curve equation test
def spec_get_point_from_x(greater, checked):
    def spec(c):
        x = c.inp("x")
        leg = [d for (lab, d) in c.trace if isinstance(lab, tuple) and lab[0] == "legendre"]
        if checked and leg and leg[0] == -1:
            return {"return": 0}
        if checked and not leg:
            raise SpecUndetermined("validating recovery must test whether x^3 + b is a square")
        yo = c.post["this.y"]
        roots = [v for v in (yo.vars() if isinstance(yo, Poly) else []) if v.startswith("sqrt#")]
        if len(roots) != 1:
            return {"return": 1, "rel:y is a square root of x^3 + b": Poly.var("no-root")}
        S = Poly.var(roots[0])
        cmpd = [d for (lab, d) in c.trace if isinstance(lab, tuple) and lab[0] == "compare"]
        if yo == S:
            sign = cmpd[0] if cmpd else None
        elif yo == -S:
            sign = -cmpd[0] if cmpd else None
        else:
            return {"return": 1, "rel:y is +-sqrt(x^3 + b)": yo * yo - S * S}
        out = {"return": 1, "this.x": x, "this.infinity": 0}
        if sign is None:
            raise SpecUndetermined("the sign of y was never compared with -y")
        if sign != 0:
            out["rel:(y > -y) == greater"] = Poly.const(0 if ((sign == 1) == bool(greater)) else 1)
        return out
    return spec


def more_units():
    us = []
    for F, T in INST.items():
        af = T["aff"]
        used = [F + "::" + m for m in ("square", "multiply", "add", "negate", "copy", "square_root (some root of a square)", "legendre", "compare (total order, antisymmetric)")]
        for greater in (0, 1):
            for checked in (0, 1):
                us.append(RingUnit(af + "::get_point_from_x", ["C09", "C10"], dom(F), spec_get_point_from_x(greater, checked), contracts_used=used,
                                   label=af + "::get_point_from_x[greater=%d,checked=%d]" % (greater, checked), scalar_args={"greater": greater, "checked": checked},
                                   patterns=lambda p: True))
        us.append(RingUnit(af + "::is_on_curve", ["C09", "C05"], dom(F), spec_is_on_curve_for(F), contracts_used=used))
    return us


_cu0 = units


def units():
    return _cu0() + more_units()


# ---------------------------------------------------------------------------
# C10: try-and-increment: the result is the first x >= start accepted by get_point_from_x (loop cut: step + exit), from_hash wiring
def tai_units():
    from symx import Interp, Path, CutDone, loops_of, run_iteration, for_parts, Cell, Obj
    from scen import ScenUnit, guarded
    us = []
    for F, T in INST.items():
        af = T["aff"]
        q = af + "::try_and_increment"

        def gen(tu, F=F, af=af, q=q):
            f = tu.func(q)
            loop = loops_of(f)[0]

            def run(path):
                calls = []

                def gp(I_, f_, this, args):
                    x, greater, checked = args
                    found = I_.path.decide(("get_point_from_x", "accepts"), (1, 0))
                    calls.append((x.val, I_.rv(greater), I_.rv(checked), found))
                    if found:
                        this.f["x"].val = x.val
                        this.f["y"].val = Poly.var("root")
                        this.f["infinity"].v = 0
                    return found
                gp.raw = True
                d = RingDomain({F, "BigInt<256>", "BigInt<384>"}, consts=U.SHARED.get("consts"), obj_contracts={af + "::get_point_from_x": gp})
                I = Interp(tu, d)
                I.path = path
                I.scopes = [f.record.qname]
                this = I.new_object(f.record.qname)
                start = I.new_object(F)
                start.val = Poly.var("start")
                g = I.path.decide(("arg", "greater"), (0, 1))
                names = {}

                def cut(I_, n, env):
                    xs = [v for k, v in env.items() if hasattr(v, "type") and getattr(v, "type", None) == F and v is not start]
                    xloc = xs[0]
                    base_ok = (xloc.val == Poly.var("start"))
                    X = Poly.var("X")
                    xloc.val = X
                    went = run_iteration(I_, n, env)
                    obs = [("base: x == start", "ok" if base_ok else "fail", "", None)]
                    c = calls[-1]
                    obs.append(("candidate tested is the current x, with the caller's sign flag, validating", "ok" if (c[0] == X and c[1] == g and c[2] == 1) else "fail", repr(c), None))
                    if went:
                        obs.append(("rejected: x' == x + 1 (no candidate skipped)", "ok" if xloc.val == X + 1 else "fail", repr(xloc.val), None))
                    else:
                        obs.append(("accepted: result x == current x", "ok" if this.f["x"].val == X else "fail", repr(this.f["x"].val), None))
                    raise CutDone(obs)
                I.loop_cuts[loop["id"]] = cut
                try:
                    I.call(f, this, [start, Cell(g)])
                except CutDone as c_:
                    return c_.obs
                return [("cut", "fail", "loop not reached", None)]
            yield "step/exit", guarded(run)
        us.append(ScenUnit(q + ": first accepted x >= start", ["C10"], gen, targets=[q], contracts_used=[af + "::get_point_from_x (RING unit)", F + "::add, copy"],
                           assumes=["termination of try-and-increment (density of squares) is not claimed"]))
        q2 = af + "::from_hash"

        def gen2(tu, F=F, af=af, q2=q2):
            f = tu.func(q2)

            def run(path):
                calls = []

                def tai(I_, f_, this, args):
                    calls.append((args[0].val, I_.rv(args[1])))
                tai.raw = True
                d = RingDomain({F, "BigInt<256>", "BigInt<384>"}, consts=U.SHARED.get("consts"), obj_contracts={af + "::try_and_increment": tai})
                I = Interp(tu, d)
                I.path = path
                I.scopes = [f.record.qname]
                this = I.new_object(f.record.qname)
                from symx import Ptr, Arr
                buf = Ptr(Arr("uint8_t", [Cell(0) for _ in range(96)]), 0)
                I.call(f, this, [Cell(buf)])
                top = [dd for (lab, dd) in path.trace if isinstance(lab, tuple) and lab[0] == "hash_reduce"]
                ok = len(calls) == 1 and repr(calls[0][0]).startswith("hash_reduce#") and calls[0][1] == (top[-1] if top else None)
                return [("from_hash == try_and_increment(hash_reduce(read_big_endian(hash)), flag returned by hash_reduce)", "ok" if ok else "fail", repr(calls), None)]
            yield "wiring", guarded(run)
        us.append(ScenUnit(q2 + ": deterministic function of the hash bytes", ["C10"], gen2, targets=[q2], contracts_used=[F + "::read_big_endian, hash_reduce (BV units)", af + "::try_and_increment"]))
    return us


_cu1 = units


def units():
    return _cu1() + tai_units()
