"""C02 / C03 (multiplicative layer): BigInt::multiply / square, FpBase::montgomery_reduce / multiply / square, Fp::set / get -- BV back end.

Machine multiplication word x word -> dword is the uninterpreted symbol M (DESIGN 3.4): JPV_MUL(x,y) = M(min(x,y), max(x,y)) with
the axiom  M(x,y) <= (2^w - 1)^2  (a theorem; keeps the accumulators from wrapping) and, in the Montgomery step, the axiom
(L)  lo(M(lo(a*inv), p0)) + a == 0 (mod 2^w)  (a theorem given inv*p0 == -1 mod 2^w, which is a closed fact checked on the constants).
Every routine then has a deterministic postcondition over M:
     multiply:          val(res) == sum_{i,j} M(a_i, b_j) 2^{w(i+j)}
     montgomery_reduce: val(res) < p  and  val(res) 2^N + d p 2^N == val(a) + sum_{k,j} M(u_k, p_j) 2^{w(k+j)},  d in {0,1},
                        with u_k the multipliers chosen by the code (ghost-recorded) and the low N bits of the right-hand side zero.
The word loops have constant trip counts and are unrolled exactly (complete).  Reading sum M(a_i,b_j) 2^{w(i+j)} as a*b is
distributivity (paper lemma, listed)."""
from bvspec import *
from units import BVUnit
import bigint as BI
import fp as FP

P = ["C02"]

MDEF = r'''
jpv_u128 __CPROVER_uninterpreted_mul(uint64_t, uint64_t);
static inline jpv_u128 jpv_M(uint64_t x, uint64_t y)
{
  jpv_u128 r = __CPROVER_uninterpreted_mul(x < y ? x : y, x < y ? y : x);
  __CPROVER_assume(r <= (jpv_u128)0xfffffffffffffffeULL * (jpv_u128)0xffffffffffffffffULL + (jpv_u128)0xffffffffffffffffULL - (jpv_u128)0xfffffffffffffffeULL);   /* (2^64-1)^2 */
  return r;
}
'''
DEFINES = "#define JPV_MUL(x, y) jpv_M((uint64_t)(x), (uint64_t)(y))\n"


def msum(n, a, b, ty, na=None, nb=None):
    na = na or n // 64
    nb = nb or n // 64
    return "(" + " + ".join("((%s)jpv_M(%s[%d], %s[%d]) << %d)" % (ty, a, i, b, j, 64 * (i + j)) for i in range(na) for j in range(nb)) + ")"


def c_bigint_multiply(nres, na, nb):
    """BigInt<nres>::multiply<na>(a: BigInt<na>, b: BigInt<nb>), both __restrict"""
    ty = "uv%d" % nres
    return (req(fresh("self"), fresh("a"), fresh("b")) + assigns("__CPROVER_object_whole(self)") +
            ens("VAL%d(self) == %s" % (nres, msum(nres, "a->words", "b->words", ty, na // 64, nb // 64))))


def c_bigint_square(nres, na):
    ty = "uv%d" % nres
    return (req(fresh("self"), fresh("a")) + assigns("__CPROVER_object_whole(self)") +
            ens("VAL%d(self) == %s" % (nres, msum(nres, "a->words", "a->words", ty, na // 64, na // 64))))


def c_mont(n):
    N = n // 64
    ty = "uv%d" % (2 * n)
    S = "(" + " + ".join("((%s)jpv_M(jpv_u[%d], p->words[%d]) << %d)" % (ty, k, j, 64 * (k + j)) for k in range(N) for j in range(N)) + ")"
    A0 = "OLD%d(a)" % (2 * n)
    Mq = "SPEC_MOD%d" % n
    return (req(fresh("self"), fresh("a"), fresh("p"), "VAL%d(p) == %s" % (n, Mq), "inv_word == %dULL" % mont_inv_word(n),
                "VAL%d(a) < ((%s)%s << %d)" % (2 * n, ty, Mq, n)) +
            assigns("__CPROVER_object_whole(self)", "__CPROVER_object_whole(a)", "__CPROVER_object_whole(jpv_u)") +
            ens("VAL%d(&self->val) < %s" % (n, Mq),
                "(((%s)VAL%d(&self->val)) << %d) == %s + %s || (((%s)VAL%d(&self->val)) << %d) + ((%s)%s << %d) == %s + %s" % (ty, n, n, A0, S, ty, n, n, ty, Mq, n, A0, S),
                "((%s + %s) & ((((%s)1) << %d) - 1)) == 0" % (A0, S, ty, n)))


def ghost_mont(q):
    # record the multiplier u of every row, and state axiom (L) for it
    return {q: [(r"unsigned long u = ", "after",
                 "jpv_u[i] = u;\n__CPROVER_assume((uint64_t)(jpv_M(u, (*p).words[0]) + (jpv_u128)(*a).words[i]) == 0); /* axiom (L) */")]}


def units():
    us = []
    for n, tier in ((384, "experimental"), (256, "experimental")):
        N = n // 64
        q = FP.FB(n) + "::montgomery_reduce"
        cs = {q: c_mont(n), FP.FB(n) + "::reduce": FP.fb_reduce(n)}
        u = BVUnit(q, cs, P, replace=[FP.FB(n) + "::reduce"], unwind=N + 2, tier=tier, timeout=3000, spec_prelude=MDEF + "uint64_t jpv_u[%d];\n" % N,
                   ghost=ghost_mont(q), canary=("< %s)" % ("SPEC_MOD%d" % n), "< %s - 1)" % ("SPEC_MOD%d" % n)), extra=["--object-bits", "10"],
                   note="word x word products are the uninterpreted symbol M with the range axiom and axiom (L); loops unrolled exactly (constant trip counts)")
        u.defines_text = DEFINES
        us.append(u)
    return us


# ---------------------------------------------------------------------------
# BigInt::multiply by row lemmas: after row i the low (i + nb + 1) words equal the sum of the first i+1 rows of M-products.
# Each lemma is asserted and then assumed (a cut): the next row is proved from the previous lemma, not from the whole history.
def helpers(nres, na, nb):
    return (r'''
static uv%(R)d jpv_partial(const BigInt_%(R)d *x, int n) { uv%(R)d s = 0; for (int k = 0; k < n; k++) s |= (uv%(R)d)x->words[k] << (64 * k); return s; }
static uv%(R)d jpv_rows(const BigInt_%(A)d *a, const BigInt_%(B)d *b, int rows) { uv%(R)d s = 0; for (int r = 0; r < rows; r++) for (int j = 0; j < %(NB)d; j++) s += (uv%(R)d)jpv_M(a->words[r], b->words[j]) << (64 * (r + j)); return s; }
''' % dict(R=nres, A=na, B=nb, NB=nb // 64))


def mul_unit(nres, na, nb, tier="quick"):
    q = "BigInt<%d>::multiply<%d>" % (nres, na)
    NB = nb // 64
    lemma0 = "__CPROVER_assert(jpv_partial(self, %d) == jpv_rows(a, b, 1), \"multiply: row 0 lemma\"); __CPROVER_assume(jpv_partial(self, %d) == jpv_rows(a, b, 1));" % (NB + 1, NB + 1)
    lemma = "__CPROVER_assert(jpv_partial(self, i + %d) == jpv_rows(a, b, i + 1), \"multiply: row lemma\"); __CPROVER_assume(jpv_partial(self, i + %d) == jpv_rows(a, b, i + 1));" % (NB + 1, NB + 1)
    u = BVUnit(q, {q: c_bigint_multiply(nres, na, nb)}, P, unwind=max(nres // 64, 8) + 2, tier=tier, timeout=1500, spec_prelude=MDEF + helpers(nres, na, nb),
               loop_contracts={q: {("end", 2): lemma}},
               ghost={q: [(r"\(self\)->words\[g_BigInt_%d_word_length\] = carry" % nb, "after", lemma0)]},
               canary=("== (", "== 1 + ("), extra=["--object-bits", "10"],
               note="products as M; one asserted-then-assumed lemma per row (cut points), loops unrolled exactly")
    u.defines_text = DEFINES
    return u


_fu0 = units


def units():
    return _fu0() + [mul_unit(768, 384, 384, "experimental")]
