"""C01 / C08: the pairing (src/bls12_381/pairing.cpp) as a refinement of the reference optimal-ate algorithm.

SCHEDULE view (TermDomain): miller_doubling_step / miller_addition_step are uninterpreted state transformers on the running
G2 point (terms dbl(T), add(T,Q)) that emit uninterpreted line triples ldbl(T), ladd(T,Q); ell(f, l, P) multiplies the
accumulator by the formal line value ell(l,P).  The accumulator is an exponent vector over the formal line values in the cyclic
group F_q12^* (square = *2, conjugate = *q^6, multiply = +), so two computations are equal iff they perform the same multiset of
line evaluations with the same powers.  The 62 + 1 iterations are executed exactly (constant trip count).
Oracle: the textbook Miller loop over the bits of |x| for x = -0xd201000000010000 (from the BLS12-381 definition, not from bls_x):
   f = 1, T = Q;  for i = 62 .. 0:  f = f^2 * l_{T,T}(P), T = 2T;  if bit i: f = f * l_{T,Q}(P), T = T + Q;   conjugate (x < 0).
EXPONENT view (final exponentiation): every F_q12 operation acts on discrete logs in F_q12^* (multiply +, square *2, inverse -,
frobenius_map(k) *q^k, conjugate *q^6); running the real control flow on exponents gives a closed integer E_code, and
E_code == 3 * (q^12 - 1) / r  (mod q^12 - 1)  is the obligation ("the reduced pairing cubed").
What is NOT decided here: that this algorithm is a bilinear non-degenerate pairing (divisor theory; literature)."""
import itertools
from poly import Poly
from symx import Interp, Leaf, Obj, Arr, Cell, Ptr, POISON, Finding, SymxError
from groupdom import GroupDomain, Lin, LinE, G1A_T, G2A_T, G2_T, GT_T
from ringdom import RingDomain
from scen import ScenUnit, guarded
from bvspec import X_ABS, Q, R
import units as U

N12 = Q ** 12 - 1


class TermDomain(GroupDomain):
    """leaves: Fq12 (LinE), MillerTriple (line term), G2 running point (term), affine points (name, infinity)"""

    def __init__(self, **kw):
        GroupDomain.__init__(self, extra_leaf=("MillerTriple",), **kw)
        self.steps = []

    def zero(self, t):
        return LinE() if t == GT_T else POISON

    def contract_for(self, I, f, this, args):
        if f.qname in self.obj_contracts:
            return self.obj_contracts[f.qname]
        if isinstance(this, Leaf):
            return self.method
        if this is None and f.name in ("miller_doubling_step", "miller_addition_step", "ell"):
            return self.free
        return None

    def global_object(self, I, qn, ts):
        o = I.new_object(ts)
        if isinstance(o, Leaf) and o.type == GT_T:
            o.val = LinE()          # Fq12::one
            return o
        return RingDomain.global_object(self, I, qn, ts)

    def method(self, I, f, this, args):
        n, t = f.name, this.type
        if t == GT_T:
            v = lambda i: self.val(args[i])
            if n == "copy":
                this.val = v(0)
            elif n == "square":
                this.val = v(0).scale(2)
            elif n == "multiply":
                this.val = v(0) + v(1)
            elif n == "conjugate":
                this.val = v(0).scale(Q ** 6)
            else:
                raise SymxError("Fq12::%s in the schedule view" % n)
            return None
        if t in (G1A_T, G2A_T):
            if n == "is_zero":
                return 1 if self.val(this)[2] else 0
            raise SymxError("%s on an affine point in the schedule view" % n)
        if t == G2_T:
            if n == "from_affine":
                this.val = ("aff", self.val(args[0])[1])
                return None
            raise SymxError("G2::%s in the schedule view" % n)
        return GroupDomain.method(self, I, f, this, args)

    def free(self, I, f, this, args):
        n = f.name
        if n == "miller_doubling_step":
            res, r = args
            T = self.val(r)
            res.val = ("ldbl", T)
            r.val = ("dbl", T)
            self.steps.append("D")
            return None
        if n == "miller_addition_step":
            res, r, g2 = args
            T = self.val(r)
            Qn = self.val(g2)[1]
            res.val = ("ladd", T, Qn)
            r.val = ("add", T, Qn)
            self.steps.append("A")
            return None
        if n == "ell":
            fv, coeffs, g1 = args
            fv.val = self.val(fv) + LinE.gen(repr(("ell", self.val(coeffs), self.val(g1)[1])))
            self.steps.append("L")
            return None
        raise SymxError(f.qname)


def reference(Pn, Qn):
    """textbook Miller loop for |x| (bits 62..0 below the leading one), conjugated because x < 0"""
    f = LinE()
    T = ("aff", Qn)
    lines = []
    for i in range(62, -1, -1):
        f = f.scale(2)
        l = ("ldbl", T)
        lines.append(l)
        f = f + LinE.gen(repr(("ell", l, Pn)))
        T = ("dbl", T)
        if (X_ABS >> i) & 1:
            l = ("ladd", T, Qn)
            lines.append(l)
            f = f + LinE.gen(repr(("ell", l, Pn)))
            T = ("add", T, Qn)
    return f.scale(Q ** 6), lines


def mkdom(tu, path):
    dom = TermDomain(consts=U.SHARED.get("consts"))
    I = Interp(tu, dom)
    I.path = path
    return dom, I


def pt(I, t, name, inf=False):
    o = I.new_object(t)
    o.val = ("pt", name, inf)
    return o


def eqv(oid, got, want, cx=None):
    ok = isinstance(got, Lin) and (got - want).is_zero()
    return (oid, "ok" if ok else "fail", "" if ok else "code has %d line factors, reference %d; difference %s" % (len(getattr(got, "t", {})), len(want.t), repr(got - want)[:300] if isinstance(got, Lin) else repr(got)), cx)


def prepared(I, tu, Qn, inf=False):
    g2p = I.new_object("G2Prepared")
    f = tu.func("G2Prepared::prepare")
    I.call(f, g2p, [pt(I, "G2Affine", Qn, inf)])
    return g2p


def gen_single(tu):
    def run_affine(path):
        dom, I = mkdom(tu, path)
        f = tu.func("miller_loop(Fq12 &, const G1Affine &, const G2Affine &)")
        res = I.new_object("Fq12")
        I.call(f, None, [res, pt(I, "G1Affine", "P"), pt(I, "G2Affine", "Q")])
        ref, lines = reference("P", "Q")
        return [eqv("miller_loop(P, Q) == reference Miller loop for |x|, conjugated", res.val, ref),
                ("number of line evaluations == 68", "ok" if len(lines) == 68 and dom.steps.count("L") == 68 else "fail", "%d" % dom.steps.count("L"), None)]
    yield "affine pair", guarded(run_affine)

    def run_prepare(path):
        dom, I = mkdom(tu, path)
        g2p = prepared(I, tu, "Q")
        ref, lines = reference("P", "Q")
        obs = [("prepare: infinity flag == g2.is_zero()", "ok" if g2p.f["infinity"].v == 0 else "fail", repr(g2p.f["infinity"].v), None),
               ("prepare: num_coeffs == 68 == array length", "ok" if len(g2p.f["coeffs"].items) == 68 == len(lines) else "fail", "%d" % len(g2p.f["coeffs"].items), None)]
        for k, (c, l) in enumerate(zip(g2p.f["coeffs"].items, lines)):
            obs.append(("prepare: coeffs[%d] is the %d-th line of the reference schedule" % (k, k), "ok" if c.val == l else "fail", repr(c.val)[:120], None))
        return obs
    yield "G2Prepared::prepare", guarded(run_prepare)

    def run_prepared(path):
        dom, I = mkdom(tu, path)
        g2p = prepared(I, tu, "Q")
        f = tu.func("miller_loop(Fq12 &, const G1Affine &, const G2Prepared &)")
        res = I.new_object("Fq12")
        I.call(f, None, [res, pt(I, "G1Affine", "P"), g2p])
        ref, lines = reference("P", "Q")
        return [eqv("miller_loop(P, prepare(Q)) == miller_loop(P, Q)", res.val, ref)]
    yield "prepared pair", guarded(run_prepared)


def gen_product(NMAX):
    """pairing products: every mixture of plain and prepared pairs up to NMAX each, identity members at every position"""
    def gen(tu):
        f = tu.func("miller_loop(Fq12 &, AffinePair *, unsigned long, PreparedPair *, unsigned long)")
        kinds = ("ok", "g1inf", "g2inf")
        for n in range(0, NMAX + 1):
            for m in range(0, NMAX + 1):
                for pat in itertools.product(kinds, repeat=n + m):
                    tag = "affine=%d,prepared=%d,%s" % (n, m, "/".join(pat))

                    def run(path, n=n, m=m, pat=pat):
                        dom, I = mkdom(tu, path)
                        ap = [I.new_object("AffinePair") for _ in range(n)]
                        pp = [I.new_object("PreparedPair") for _ in range(m)]
                        want = LinE()
                        for j, (pr, kd) in enumerate(zip(ap + pp, pat)):
                            Pn, Qn = "P%d" % j, "Q%d" % j
                            pr.f["g1"].v = Ptr(pt(I, "G1Affine", Pn, kd == "g1inf"))
                            if j < n:
                                pr.f["g2"].v = Ptr(pt(I, "G2Affine", Qn, kd == "g2inf"))
                            else:
                                pr.f["g2"].v = Ptr(prepared(I, tu, Qn, kd == "g2inf"))
                                pr.f["coeff_idx"].v = 12345          # stale state from an earlier product: must be reset
                            if kd == "ok":
                                want = want + reference(Pn, Qn)[0]
                        res = I.new_object("Fq12")
                        A = Ptr(Arr("AffinePair", ap), 0) if n else None
                        Bp = Ptr(Arr("PreparedPair", pp), 0) if m else None
                        I.call(f, None, [res, Cell(A), Cell(n), Cell(Bp), Cell(m)])
                        return [eqv("product == product of the single Miller loops of the non-identity pairs", res.val, want, dict(op="pairing:product", n=n, m=m, pat=list(pat)))]
                    run.cx = dict(op="pairing:product", n=n, m=m, pat=list(pat))
                    yield tag, guarded(run)
    return gen


def gen_product_long(N, shapes):
    """BOUNDED: one long product (N plain + N prepared pairs, an identity member at a few positions, also beyond position 64): a per-pair bit mask,
    a narrow pair counter or a fixed-size scratch array shows only past the machine-word / small-constant boundary"""
    def gen(tu):
        f = tu.func("miller_loop(Fq12 &, AffinePair *, unsigned long, PreparedPair *, unsigned long)")
        for (n, m) in shapes:
            def run(path, n=n, m=m):
                dom, I = mkdom(tu, path)
                ap = [I.new_object("AffinePair") for _ in range(n)]
                pp = [I.new_object("PreparedPair") for _ in range(m)]
                want = LinE()
                for j, pr in enumerate(ap + pp):
                    k = j if j < n else j - n
                    kd = "g1inf" if k in (3, N - 4) else ("g2inf" if k in (5, N - 2) else "ok")
                    Pn, Qn = "P%d" % j, "Q%d" % j
                    pr.f["g1"].v = Ptr(pt(I, "G1Affine", Pn, kd == "g1inf"))
                    if j < n:
                        pr.f["g2"].v = Ptr(pt(I, "G2Affine", Qn, kd == "g2inf"))
                    else:
                        pr.f["g2"].v = Ptr(prepared(I, tu, Qn, kd == "g2inf"))
                        pr.f["coeff_idx"].v = 12345
                    if kd == "ok":
                        want = want + reference(Pn, Qn)[0]
                res = I.new_object("Fq12")
                A = Ptr(Arr("AffinePair", ap), 0) if n else None
                Bp = Ptr(Arr("PreparedPair", pp), 0) if m else None
                I.call(f, None, [res, Cell(A), Cell(n), Cell(Bp), Cell(m)])
                return [eqv("product of %d + %d pairs == product of the single Miller loops of the non-identity pairs" % (n, m), res.val, want, dict(op="pairing:product-long", n=n, m=m))]
            run.cx = dict(op="pairing:product-long", n=n, m=m)
            yield "affine=%d,prepared=%d" % (n, m), guarded(run)
    return gen


class ExpDomain(RingDomain):
    """discrete logs in F_q12^* (cyclic of order q^12 - 1)"""

    def __init__(self, **kw):
        RingDomain.__init__(self, {"Fq12", "BigInt<64>"}, **kw)

    def zero(self, t):
        return 0

    def global_object(self, I, qn, ts):
        o = I.new_object(ts)
        if isinstance(o, Leaf) and o.type == "Fq12":
            o.val = 0             # Fq12::one
            return o
        return RingDomain.global_object(self, I, qn, ts)

    def contract_for(self, I, f, this, args):
        if isinstance(this, Leaf):
            return self.method
        return None

    def method(self, I, f, this, args):
        n = f.name
        if this.type != "Fq12":
            return RingDomain.method(self, I, f, this, args)
        v = lambda i: self.val(args[i])
        if n == "copy":
            this.val = v(0)
        elif n == "multiply":
            this.val = (v(0) + v(1)) % N12
        elif n == "square":
            this.val = (2 * v(0)) % N12
        elif n == "inverse":
            this.val = (-v(0)) % N12
        elif n == "conjugate":
            this.val = (v(0) * Q ** 6) % N12
        elif n == "frobenius_map":
            this.val = (v(0) * Q ** I.rv(args[1])) % N12
        else:
            raise SymxError("Fq12::%s in the exponent view" % n)
        return None


def gen_final_exp(tu):
    def run(path, alias):
        dom = ExpDomain(consts=U.SHARED.get("consts"))
        I = Interp(tu, dom)
        I.path = path
        f = tu.func("final_exponentiation")
        a = I.new_object("Fq12")
        a.val = 1
        res = a if alias else I.new_object("Fq12")
        I.call(f, None, [res, a])
        E = res.val
        want = (3 * (N12 // R)) % N12
        return [("(q^12 - 1) divisible by r", "ok" if N12 % R == 0 else "fail", "", None),
                ("final exponent == 3 (q^12-1)/r  (mod q^12-1)%s" % (" with result aliasing the input" if alias else ""), "ok" if E == want else "fail", "E_code = %s..." % hex(E)[:40] if isinstance(E, int) else repr(E), None),
                ("r * E_code == 0 (mod q^12-1): every output has order dividing r", "ok" if isinstance(E, int) and (E * R) % N12 == 0 else "fail", "", None)]
    yield "distinct", guarded(lambda p: run(p, False))
    yield "result = a", guarded(lambda p: run(p, True))


def gen_wrappers(tu):
    """pairing / pairing_product: Miller loop, then final_exponentiation(result, result); identity short-circuit"""
    def run(path, q, args_kind):
        calls = []

        def rec(name):
            def h(I_, f_, this, args):
                calls.append((name, [id(a) for a in args]))
                return None
            h.raw = True
            return h
        oc = {}
        for fq in tu.by_qname:
            if fq.startswith("miller_loop("):
                oc[fq] = rec("miller_loop")
        oc["final_exponentiation"] = rec("final_exponentiation")
        dom = TermDomain(consts=U.SHARED.get("consts"), obj_contracts=oc)
        I = Interp(tu, dom)
        I.path = path
        f = tu.func(q)
        res = I.new_object("Fq12")
        if args_kind == "product":
            args = [res, Cell(None), Cell(0), Cell(None), Cell(0)]
        else:
            args = [res, pt(I, "G1Affine", "P"), (pt(I, "G2Affine", "Q") if args_kind == "affine" else I.new_object("G2Prepared"))]
        I.call(f, None, args)
        ok = [c[0] for c in calls] == ["miller_loop", "final_exponentiation"] and calls[1][1] == [id(res), id(res)] and calls[0][1][0] == id(res)
        return [("%s == final_exponentiation(miller_loop(...)), in place" % q, "ok" if ok else "fail", repr([c[0] for c in calls]), None)]
    for fq in sorted(tu.by_qname):
        if tu.by_qname[fq].body is None:
            continue
        if fq == "pairing(Fq12 &, const G1Affine &, const G2Affine &)":
            yield fq, guarded(lambda p, fq=fq: run(p, fq, "affine"))
        elif fq == "pairing(Fq12 &, const G1Affine &, const G2Prepared &)":
            yield fq, guarded(lambda p, fq=fq: run(p, fq, "prepared"))
        elif fq == "pairing_product":
            yield fq, guarded(lambda p, fq=fq: run(p, fq, "product"))


def units():
    lower = ["miller_doubling_step / miller_addition_step: uninterpreted state transformers here; their content (tangent / chord lines, Jacobian doubling / mixed addition) is the RING units below",
             "ell: f *= (line value at P); multiply_by_c014 is the sparse product (C04)", "Fq12::square / multiply / conjugate / inverse / frobenius_map act on discrete logs as *2, +, *q^6, -, *q^k (C04)",
             "optimal-ate Miller loop over |x| followed by the final exponentiation is a bilinear non-degenerate pairing (literature; NOT decided here)"]
    us = [ScenUnit("miller_loop / G2Prepared::prepare follow the reference Miller schedule for |x|", ["C01", "C08"], gen_single,
                   targets=["miller_loop(Fq12 &, AffinePair *, unsigned long, PreparedPair *, unsigned long)", "G2Prepared::prepare"], contracts_used=lower),
          ScenUnit("miller_loop: pairing products (<= 2 plain + <= 2 prepared pairs, identities anywhere)", ["C08", "C01"], gen_product(2), kind="bounded", bound="list lengths <= 2 + 2 (all identity patterns)",
                   targets=["miller_loop(Fq12 &, AffinePair *, unsigned long, PreparedPair *, unsigned long)"], contracts_used=lower, max_paths=100000),
          ScenUnit("miller_loop: one long pairing product, 66 plain pairs (identity members also beyond position 64)", ["C08", "C01"], gen_product_long(66, ((66, 0),)), kind="bounded",
                   bound="list length 66, one identity pattern", targets=["miller_loop(Fq12 &, AffinePair *, unsigned long, PreparedPair *, unsigned long)"], contracts_used=lower,
                   note="past one 64-bit word of per-pair state"),
          ScenUnit("miller_loop: one long pairing product, 66 prepared pairs (identity members also beyond position 64)", ["C08", "C01"], gen_product_long(66, ((0, 66),)), kind="bounded",
                   bound="list length 66, one identity pattern", targets=["miller_loop(Fq12 &, AffinePair *, unsigned long, PreparedPair *, unsigned long)"], contracts_used=lower,
                   note="past one 64-bit word of per-pair state"),
          ScenUnit("miller_loop: one long pairing product, 70 + 70 pairs", ["C08"], gen_product_long(70, ((70, 70),)), kind="bounded", tier="thorough",
                   bound="list lengths 70 + 70, one identity pattern", targets=["miller_loop(Fq12 &, AffinePair *, unsigned long, PreparedPair *, unsigned long)"], contracts_used=lower),
          ScenUnit("miller_loop: pairing products (<= 3 plain + <= 3 prepared pairs)", ["C08"], gen_product(3), tier="thorough", kind="bounded", bound="list lengths <= 3 + 3",
                   targets=["miller_loop(Fq12 &, AffinePair *, unsigned long, PreparedPair *, unsigned long)"], contracts_used=lower, max_paths=100000),
          ScenUnit("final_exponentiation: exponent == 3 (q^12-1)/r", ["C01", "C18"], gen_final_exp, targets=["final_exponentiation"], contracts_used=lower),
          ScenUnit("pairing / pairing_product == final_exponentiation o miller_loop", ["C01", "C08"], gen_wrappers, targets=["pairing_product"], contracts_used=lower)]
    return us


# ---------------------------------------------------------------------------
# C01: the line functions (RING back end over an abstract Fq2): tangent / chord through the running point, up to a common factor
from ringdom import RingUnit
import curve as CV


def dom_fq2():
    return RingDomain({"Fq2", "BigInt<64>", "BigInt<256>", "BigInt<384>"}, consts=U.SHARED.get("consts"))


def proportional(c, got, want, tag):
    """(a : b : c) as a projective triple: all 2x2 minors of [got; want] vanish, and got is not the zero triple identically"""
    out = {}
    names = ("a", "b", "c")
    for i in range(3):
        for j in range(i + 1, 3):
            out["rel:%s: %s*ref_%s - %s*ref_%s == 0" % (tag, names[i], names[j], names[j], names[i])] = got[i] * want[j] - got[j] * want[i]
    return out


def spec_doubling(c):
    X, Y, Z = c.inp("r.x"), c.inp("r.y"), c.inp("r.z")
    out = CV.dbl_relations(c, X, Y, Z, out="r")
    got = (c.post["result.a"], c.post["result.b"], c.post["result.c"])
    # tangent at (x, y) = (X/Z^2, Y/Z^3) on y^2 = x^3 + b:  (y_P - y) - lambda (x_P - x), lambda = 3x^2 / 2y ;
    # coefficients of (y_P, x_P, 1) times 2y Z^6:  (2 Y Z^3 : -3 X^2 Z^2 : 3 X^3 - 2 Y^2)
    want = (2 * Y * Z ** 3, -3 * X * X * Z * Z, 3 * X ** 3 - 2 * Y * Y)
    out.update(proportional(c, got, want, "tangent line"))
    out["rel:line triple is exactly 2 * (2YZ^3, -3X^2Z^2, 3X^3 - 2Y^2) (scaling by an element of Fq2 only)"] = got[0] - 2 * want[0]
    return out


def spec_addition(c):
    X, Y, Z = c.inp("r.x"), c.inp("r.y"), c.inp("r.z")
    xq, yq = c.inp("g2.x"), c.inp("g2.y")
    out = CV.add_relations(c, (X, Y, Z), (xq, yq, Poly.const(1)), out="r")
    got = (c.post["result.a"], c.post["result.b"], c.post["result.c"])
    # chord through T = (X/Z^2, Y/Z^3) and Q = (xq, yq): slope R / (Z H), H = xq Z^2 - X, R = yq Z^3 - Y ;
    # coefficients of (y_P, x_P, 1) times Z H:  (Z H : -R : R xq - yq Z H)
    H = xq * Z * Z - X
    Rr = yq * Z ** 3 - Y
    want = (Z * H, -Rr, Rr * xq - yq * Z * H)
    out.update(proportional(c, got, want, "chord line"))
    return out


def gen_ell(tu):
    def run(path):
        calls = []

        def c014(I_, f_, this, args):
            calls.append((this, args))
        c014.raw = True
        d = RingDomain({"Fq", "BigInt<384>"}, consts=U.SHARED.get("consts"), obj_contracts={"Fq12::multiply_by_c014": c014})
        I = Interp(tu, d)
        I.path = path
        f = tu.func("ell")
        fv = I.new_object("Fq12")
        co = I.new_object("MillerTriple")
        g1 = I.new_object("G1Affine")
        from ringdom import leaves_of
        for nm, o in (("co", co), ("g1", g1)):
            for p, lf in leaves_of(o, nm, {}).items():
                if isinstance(lf, Leaf):
                    lf.val = Poly.var(p)
                else:
                    lf.v = 0
        I.call(f, None, [fv, co, g1])
        if len(calls) != 1:
            return [("ell multiplies f once by a sparse element", "fail", "%d calls" % len(calls), None)]
        this, (a, c0, c1, c4) = calls[0]
        V = Poly.var
        ok = (this is fv and a is fv and c0 is co.f["c"] and
              c1.f["c0"].val == V("co.b.c0") * V("g1.x") and c1.f["c1"].val == V("co.b.c1") * V("g1.x") and
              c4.f["c0"].val == V("co.a.c0") * V("g1.y") and c4.f["c1"].val == V("co.a.c1") * V("g1.y"))
        return [("ell: f *= c + (b * x_P) v + (a * y_P) v w   (the line evaluated at P, M-type untwist times w^3)", "ok" if ok else "fail", "", None)]
    yield "ell", guarded(run)


_pu0 = units


def units():
    us = _pu0()
    used = ["Fq2::" + m for m in ("add", "subtract", "multiply", "square", "multiply2", "negate")]
    us.append(RingUnit("miller_doubling_step", ["C01"], dom_fq2, spec_doubling, in_out=("r",), contracts_used=used,
                       note="running point: Jacobian doubling (same relations as Projective::multiply2, C05); line: the tangent, up to a factor in Fq2 (killed by the final exponentiation)"))
    us.append(RingUnit("miller_addition_step", ["C01"], dom_fq2, spec_addition, in_out=("r",), contracts_used=used,
                       note="running point: mixed addition (same relations as Projective::add(Affine), C05); line: the chord through T and Q, up to a factor in Fq2"))
    us.append(ScenUnit("ell: sparse multiplication by the line value at P", ["C01"], gen_ell, targets=["ell"], contracts_used=["Fq::multiply", "Fq12::multiply_by_c014 (C04 RING unit)"]))
    return us
