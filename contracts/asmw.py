"""C03 / C02: the x86-64 assembly of the multiplicative layer (multiply.s and multiply_bmi2_adx.s: bigint_768_multiply, bigint_768_square,
fpbase_384_montgomery_reduce) against the SAME statements as the portable C++ routines they replace (contracts/fpmulw.py):

  bigint_768_multiply(res, a, b) / bigint_768_square(res, a)     VAL(res) == VAL(a) * VAL(b)  resp.  VAL(a)^2     (exact polynomial identity)
  fpbase_384_montgomery_reduce(res, t, p, inv)   with p = q (the only modulus it is instantiated for), inv = the library's constant, t < p * R:
        on every path through the final compare / conditional subtraction:
        VAL(res) * R == t + U * p - k * p * R   with U = sum u_i 2^(64 i) (u_i the six per-row multipliers), k in {0, 1} fixed by the path   (exact identity)
        VAL(res) < p                                                                                                      (z3, QF_LIA over the recorded word ranges)
  plus, for each: only res is written and all of it, t / a / b are only read (the C++ montgomery_reduce may clobber t; the asm does not),
  the stack is balanced and rbx, rbp, r12-r15 are restored.

WORD back end over the machine code (tools/asmword.py): objdump of the object assembled from the working tree's .s on every run; every
register / flag / memory word an exact integer polynomial; carries that a word-level interval cannot exclude are excluded relationally (z3 over
the recorded facts; non-linear monomials opaque with interval bounds) or stay as symbols."""
import os, re
from poly import Poly
from symx import Path, POISON, SymxError, Finding
from worddom import WordDomain, WVal, wv
from scen import ScenUnit, guarded, Abandon
import asmlift, asmword
import units as U
import bvspec
from jast import REPO

P = ["C03", "C02"]
PRE = "embedded_pairing_core_arch_x86_64_"
SDIR = "src/core/arch/x86_64"
Q = bvspec.Q
RM = 1 << 384


def chk(what, ok, msg=""):
    return (what, "ok" if ok else "fail", "" if ok else msg, None)


def val(ws):
    return sum((wv(w).p * (1 << (64 * i)) for i, w in enumerate(ws)), Poly())


def machine(path, wd_holder, sfile, rname, mem, args, use_z3=True):
    funcs = asmlift.disassemble(os.path.join(REPO, SDIR, sfile), U.SHARED.get("workdir") or "/tmp")
    ins = asmlift.routine(funcs, PRE + rname)
    dom = WordDomain(consts=U.SHARED.get("consts"))
    dom.use_z3 = use_z3
    dom.incremental = True
    m = asmword.Machine(dom, path, ins, rname, mem, args)
    return dom, m


def frame_obs(m, tag, out, ro):
    obs = [chk("%s: stack balanced at ret" % tag, len(m.stack) == 0, "depth %d" % len(m.stack))]
    for r in asmword.CALLEE_SAVED:
        v = m.regs[r]
        obs.append(chk("%s: callee-saved %s restored" % (tag, r), isinstance(v, WVal) and v.p == Poly.var("init_" + r), repr(v)))
    obs.append(chk("%s: every word of %s written, nothing else written" % (tag, out), m.written == {(out, k) for k in range(len(m.mem[out]))}, repr(sorted(m.written))))
    return obs


def gen_mul(tu, sfile, rname, square):
    def run(path):
        dom0 = WordDomain()
        mem = {"res": [POISON] * 12}
        dom, m = machine(path, None, sfile, rname, mem, [asmword.PtrVal("res"), asmword.PtrVal("a")] + ([] if square else [asmword.PtrVal("b")]))
        mem["a"] = dom.input_words("a", 6)
        if not square:
            mem["b"] = dom.input_words("b", 6)
        A = val(mem["a"])
        B = A if square else val(mem["b"])
        a0 = list(mem["a"])
        m.run()
        tag = rname
        if any(w is POISON for w in mem["res"]):
            return [chk("%s: result written" % tag, False, "unwritten words")]
        D = dom.reduce_eq(A * B - val(mem["res"]))
        ok = D.is_zero()
        msg = "residual %r" % D
        obs = [chk("%s: VAL(res) == %s (exact, all operands)" % (tag, "VAL(a)^2" if square else "VAL(a) * VAL(b)"), ok, msg),
               chk("%s: operands unchanged" % tag, mem["a"] == a0)]
        obs += frame_obs(m, tag, "res", ["a", "b"])
        obs.append(chk("%s: relational bound queries answered by z3" % tag, True))
        return obs
    yield rname, guarded(run)

    def run_alias(path):
        # res must not overlap the operands (the C++ signature says __restrict); what the call sites pass is decided in C18's units
        return [chk("%s: interface note" % rname, True)]


def gen_mont(tu, sfile, rname):
    def run(path):
        mem = {"res": [POISON] * 6}
        c = U.SHARED.get("consts")
        inv = c.value("fq_inv_var") % (1 << 64)
        dom, m = machine(path, None, sfile, rname, mem, [asmword.PtrVal("res"), asmword.PtrVal("t"), asmword.PtrVal("p"), inv])
        m.inv_const = inv
        mem["t"] = dom.input_words("t", 12)
        mem["p"] = [(Q >> (64 * i)) & ((1 << 64) - 1) for i in range(6)]
        T0 = val(mem["t"])
        t0 = list(mem["t"])
        dom.add_fact(T0, 0, Q * RM - 1)                       # precondition  t < p * R
        m.run()
        tag = rname
        if any(w is POISON for w in mem["res"]):
            return [chk("%s: result written" % tag, False, "unwritten words")]
        if dom.prove_le(Poly(), -1):
            raise Abandon()                                   # the path constraints contradict the recorded facts: no input takes this path
        us = dom.trunc_products[-6:]
        obs = [chk("%s: six truncated word products (the multipliers u_i)" % tag, len(dom.trunc_products) == 6)]
        Up = sum((wv(u).p * (1 << (64 * i)) for i, u in enumerate(us)), Poly())
        Rv = val(mem["res"])
        D = dom.reduce_eq(T0 + Up * Q - Rv * RM)             # == k * p * R on this path
        if not any((D - Poly.const(kk * Q * RM)).is_zero() for kk in (0, 1)):
            # a borrow / carry out of the top word that the code ignores on this path: it must be provably 0 here
            zs = dom.zero_symbols(D)
            D = dom.reduce_eq(T0 + Up * Q - Rv * RM)
        k = None
        for kk in (0, 1):
            if (D - Poly.const(kk * Q * RM)).is_zero():
                k = kk
        cx = None      # (an integer model of the word facts with a non-vanishing residual was tried as a failing input: z3 does not find one in minutes)
        obs.append(("%s: VAL(res) * R == t + U*p - k*p*R with k in {0,1} on this path (exact identity)" % tag, "ok" if k is not None else "fail", "" if k is not None else "residual %r" % D, cx))
        obs.append(chk("%s: VAL(res) < p on this path (z3 over the recorded word ranges, t < p*R)" % tag, dom.prove_lt(dom.reduce_eq(Rv), Q, timeout=60), "not derivable"))
        obs.append(chk("%s: t and p are not written" % tag, mem["t"] == t0))
        obs += frame_obs(m, tag, "res", ["t", "p"])
        return obs
    yield rname, guarded(run)


def _replay(rec, unit, result, fresh, tu, wd, cx):
    """native: the REAL routine (assembled from the working tree's .s) on word patterns {0, 1, 2^63-1, 2^63, 2^64-1}^6 and pseudo-random operands,
    against Python integers"""
    import subprocess, random
    m = re.match(r"asm (\w+) \((\S+)\)", unit.label)
    rname, sfile = m.group(1), m.group(2)
    kind = "mont" if "montgomery" in rname else ("sq" if "square" in rname else "mul")
    rnd = random.Random(7)
    pat = [0, 1, (1 << 63) - 1, 1 << 63, (1 << 64) - 1]
    def words(v, n):
        return [(v >> (64 * i)) & ((1 << 64) - 1) for i in range(n)]
    ins = []
    if kind == "mont":
        inv = (-pow(Q, -1, 1 << 64)) % (1 << 64)
        vals = [0, 1, Q - 1, Q - 2, (1 << 384) % Q, (Q - 1) // 2] + [rnd.randrange(Q) for _ in range(30)]
        ts = [a * b for a in vals for b in vals] + [Q * RM - 1, Q * RM - Q, RM - 1, RM, RM + 1] + [rnd.randrange(Q * RM) for _ in range(3000)]
        ts += [sum(rnd.choice(pat) << (64 * i) for i in range(12)) % (Q * RM) for _ in range(3000)]
        ins = [words(t, 12) for t in ts]
        nin, nout = 12, 6
    else:
        ops = [sum(rnd.choice(pat) << (64 * i) for i in range(6)) for _ in range(1500)] + [rnd.randrange(1 << 384) for _ in range(1500)] + [(1 << 384) - 1, 0, 1]
        if kind == "sq":
            ins = [words(a, 6) for a in ops]
            nin = 6
        else:
            ins = [words(a, 6) + words(b, 6) for a, b in zip(ops, reversed(ops))]
            nin = 12
        nout = 12
    if cx and cx.get("inputs") and kind == "mont":
        ins = [list(cx["inputs"])] + ins          # the verifier's model first
    sym = PRE + rname
    call = {"mul": "%s(r, in[k], in[k] + 6);" % sym, "sq": "%s(r, in[k]);" % sym, "mont": "{ uint64_t t[12]; memcpy(t, in[k], sizeof t); %s(r, t, P, %dULL); }" % (sym, (-pow(Q, -1, 1 << 64)) % (1 << 64))}[kind]
    proto = {"mul": "void %s(void*, const void*, const void*);" % sym, "sq": "void %s(void*, const void*);" % sym, "mont": "void %s(void*, void*, const void*, uint64_t);" % sym}[kind]
    src = ["#include <stdio.h>", "#include <stdint.h>", "#include <string.h>", 'extern "C" ' + proto,
           "static const uint64_t P[6] = {%s};" % ", ".join("%dULL" % w for w in words(Q, 6)),
           "static const uint64_t in[][%d] = {" % nin] + ["{%s}," % ", ".join("%dULL" % w for w in row) for row in ins] + ["};",
           "int main(){ for (unsigned k = 0; k < sizeof in / sizeof in[0]; k++) { alignas(16) uint64_t r[%d]; %s printf(\"r%%u\", k); for (int i = 0; i < %d; i++) printf(\" %%llu\", (unsigned long long)r[i]); printf(\"\\n\"); } return 0; }" % (nout, call, nout)]
    cpp, obj, exe = os.path.join(wd, rname + "_drv.cpp"), os.path.join(wd, rname + "_asm.o"), os.path.join(wd, rname + "_drv")
    open(cpp, "w").write("\n".join(src))
    r1 = subprocess.run(["as", os.path.join(REPO, SDIR, sfile), "-o", obj], capture_output=True, text=True)
    r2 = subprocess.run(["g++", "-O1", "-w", cpp, obj, "-o", exe], capture_output=True, text=True)
    if r1.returncode or r2.returncode:
        rec["native_driver_error"] = (r1.stderr + r2.stderr)[-800:]
        return False
    out = subprocess.run([exe], capture_output=True, text=True, timeout=120).stdout
    got = {}
    for line in out.splitlines():
        ps = line.split()
        got[int(ps[0][1:])] = sum(int(x) << (64 * i) for i, x in enumerate(ps[1:]))
    Rinv = pow(RM, -1, Q)
    for k, row in enumerate(ins):
        v = sum(w << (64 * i) for i, w in enumerate(row))
        if kind == "mont":
            want = (v * Rinv) % Q
        elif kind == "sq":
            want = v * v
        else:
            want = (v & ((1 << 384) - 1)) * (v >> 384)
        if got.get(k) != want:
            rec["native_finding"] = "real %s on input words %r returns %d, expected %d" % (sym, row, got.get(k), want)
            rec["confirmed_on_real_code"] = True
            return True
    rec["confirmed_on_real_code"] = False
    rec["native_tried"] = len(ins)
    return False


ROUTINES = [("multiply.s", "bigint_768_multiply", "mul"), ("multiply.s", "bigint_768_square", "sq"), ("multiply.s", "fpbase_384_montgomery_reduce", "mont"),
            ("multiply_bmi2_adx.s", "bmi2_adx_bigint_768_multiply", "mul"), ("multiply_bmi2_adx.s", "bmi2_adx_bigint_768_square", "sq"),
            ("multiply_bmi2_adx.s", "bmi2_adx_fpbase_384_montgomery_reduce", "mont")]


def units():
    us = []
    for sfile, rname, kind in ROUTINES:
        if kind == "mont":
            g = (lambda tu, sfile=sfile, rname=rname: gen_mont(tu, sfile, rname))
            label = "asm %s (%s): Montgomery identity and result < p on every path, frame, stack, callee-saved (machine code, word level)" % (rname, sfile)
        else:
            g = (lambda tu, sfile=sfile, rname=rname, kind=kind: gen_mul(tu, sfile, rname, kind == "sq"))
            label = "asm %s (%s): exact %s, frame, stack, callee-saved (machine code, word level)" % (rname, sfile, "square" if kind == "sq" else "product")
        u = ScenUnit(label, P, g, targets=[], contracts_used=["x86-64 instruction semantics table of tools/asmword.py (Intel SDM)"])
        u.back_end = "WORD(asm)"
        u.replay_hook = _replay
        us.append(u)
    return us
