"""C03 / C02: the x86-64 assembly of the multiplicative layer (multiply.s and multiply_bmi2_adx.s: bigint_768_multiply, bigint_768_square,
fpbase_384_montgomery_reduce) against the SAME statements as the portable C++ routines they replace (contracts/fpmulw.py):

  bigint_768_multiply(res, a, b) / bigint_768_square(res, a)     VAL(res) == VAL(a) * VAL(b)  resp.  VAL(a)^2     (exact polynomial identity)
  fpbase_384_montgomery_reduce(res, t, p, inv)   with p = q (the only modulus it is instantiated for), inv = the library's constant, t < p * R:
        on every path through the final compare / conditional subtraction:
        VAL(res) * R == t + U * p - k * p * R   with U = sum u_i 2^(64 i) (u_i the six per-row multipliers), k in {0, 1} fixed by the path   (exact identity)
        VAL(res) < p                                                                                                      (z3, QF_LIA over the recorded word ranges)
  plus, for each: only res is written and all of it, t / a / b are only read (the C++ montgomery_reduce may clobber t; the asm does not),
  the stack is balanced and rbx, rbp, r12-r15 are restored.

WORD back end over the machine code (tools/asmword.py): objdump of the object assembled from the working tree's .s on every run; every
register / flag / memory word an exact integer polynomial; carries that a word-level interval cannot exclude are excluded relationally (z3 over
the recorded facts; non-linear monomials opaque with interval bounds) or stay as symbols."""
import os, re
from poly import Poly
from symx import Path, POISON, SymxError, Finding
from worddom import WordDomain, WVal, wv
from scen import ScenUnit, guarded, Abandon
import asmlift, asmword
import units as U
import bvspec
from jast import REPO, ExtractionError

P = ["C03", "C02"]
PRE = "embedded_pairing_core_arch_x86_64_"
SDIR = "src/core/arch/x86_64"
Q = bvspec.Q
RM = 1 << 384


def chk(what, ok, msg=""):
    return (what, "ok" if ok else "fail", "" if ok else msg, None)


def val(ws):
    return sum((wv(w).p * (1 << (64 * i)) for i, w in enumerate(ws)), Poly())


def machine(path, wd_holder, sfile, rname, mem, args, use_z3=True):
    funcs = asmlift.disassemble(os.path.join(REPO, SDIR, sfile), U.SHARED.get("workdir") or "/tmp")
    ins = asmlift.routine(funcs, PRE + rname)
    dom = WordDomain(consts=U.SHARED.get("consts"))
    dom.use_z3 = use_z3
    dom.incremental = True
    m = asmword.Machine(dom, path, ins, rname, mem, args)
    return dom, m


def frame_obs(m, tag, out, ro):
    obs = [chk("%s: stack balanced at ret" % tag, len(m.stack) == 0, "depth %d" % len(m.stack))]
    for r in asmword.CALLEE_SAVED:
        v = m.regs[r]
        obs.append(chk("%s: callee-saved %s restored" % (tag, r), isinstance(v, WVal) and v.p == Poly.var("init_" + r), repr(v)))
    obs.append(chk("%s: every word of %s written, nothing else written" % (tag, out), m.written == {(out, k) for k in range(len(m.mem[out]))}, repr(sorted(m.written))))
    return obs


def gen_mul(tu, sfile, rname, square):
    def run(path):
        dom0 = WordDomain()
        mem = {"res": [POISON] * 12}
        dom, m = machine(path, None, sfile, rname, mem, [asmword.PtrVal("res"), asmword.PtrVal("a")] + ([] if square else [asmword.PtrVal("b")]))
        mem["a"] = dom.input_words("a", 6)
        if not square:
            mem["b"] = dom.input_words("b", 6)
        A = val(mem["a"])
        B = A if square else val(mem["b"])
        a0 = list(mem["a"])
        m.run()
        tag = rname
        if any(w is POISON for w in mem["res"]):
            return [chk("%s: result written" % tag, False, "unwritten words")]
        D = dom.reduce_eq(A * B - val(mem["res"]))
        ok = D.is_zero()
        msg = "residual %r" % D
        obs = [chk("%s: VAL(res) == %s (exact, all operands)" % (tag, "VAL(a)^2" if square else "VAL(a) * VAL(b)"), ok, msg),
               chk("%s: operands unchanged" % tag, mem["a"] == a0)]
        obs += frame_obs(m, tag, "res", ["a", "b"])
        obs.append(chk("%s: relational bound queries answered by z3" % tag, True))
        return obs
    yield rname, guarded(run)

    def run_alias(path):
        # res must not overlap the operands (the C++ signature says __restrict); what the call sites pass is decided in C18's units
        return [chk("%s: interface note" % rname, True)]


def gen_mont(tu, sfile, rname):
    def run(path):
        mem = {"res": [POISON] * 6}
        c = U.SHARED.get("consts")
        inv = c.value("fq_inv_var") % (1 << 64)
        dom, m = machine(path, None, sfile, rname, mem, [asmword.PtrVal("res"), asmword.PtrVal("t"), asmword.PtrVal("p"), inv])
        m.inv_const = inv
        mem["t"] = dom.input_words("t", 12)
        mem["p"] = [(Q >> (64 * i)) & ((1 << 64) - 1) for i in range(6)]
        T0 = val(mem["t"])
        t0 = list(mem["t"])
        dom.add_fact(T0, 0, Q * RM - 1)                       # precondition  t < p * R
        m.run()
        tag = rname
        if any(w is POISON for w in mem["res"]):
            return [chk("%s: result written" % tag, False, "unwritten words")]
        if dom.prove_le(Poly(), -1):
            raise Abandon()                                   # the path constraints contradict the recorded facts: no input takes this path
        us = dom.trunc_products[-6:]
        obs = [chk("%s: six truncated word products (the multipliers u_i)" % tag, len(dom.trunc_products) == 6)]
        Up = sum((wv(u).p * (1 << (64 * i)) for i, u in enumerate(us)), Poly())
        Rv = val(mem["res"])
        D = dom.reduce_eq(T0 + Up * Q - Rv * RM)             # == k * p * R on this path
        if not any((D - Poly.const(kk * Q * RM)).is_zero() for kk in (0, 1)):
            # a borrow / carry out of the top word that the code ignores on this path: it must be provably 0 here
            zs = dom.zero_symbols(D)
            D = dom.reduce_eq(T0 + Up * Q - Rv * RM)
        k = None
        for kk in (0, 1):
            if (D - Poly.const(kk * Q * RM)).is_zero():
                k = kk
        cx = None      # (an integer model of the word facts with a non-vanishing residual was tried as a failing input: z3 does not find one in minutes)
        obs.append(("%s: VAL(res) * R == t + U*p - k*p*R with k in {0,1} on this path (exact identity)" % tag, "ok" if k is not None else "fail", "" if k is not None else "residual %r" % D, cx))
        obs.append(chk("%s: VAL(res) < p on this path (z3 over the recorded word ranges, t < p*R)" % tag, dom.prove_lt(dom.reduce_eq(Rv), Q, timeout=60), "not derivable"))
        obs.append(chk("%s: t and p are not written" % tag, mem["t"] == t0))
        obs += frame_obs(m, tag, "res", ["t", "p"])
        return obs
    yield rname, guarded(run)


def _replay(rec, unit, result, fresh, tu, wd, cx):
    """native: the REAL routine (assembled from the working tree's .s) on word patterns {0, 1, 2^63-1, 2^63, 2^64-1}^6 and pseudo-random operands,
    against Python integers"""
    import subprocess, random
    m = re.match(r"asm (\w+) \((\S+)\)", unit.label)
    rname, sfile = m.group(1), m.group(2)
    kind = "mont" if "montgomery" in rname else ("sq" if "square" in rname else "mul")
    rnd = random.Random(7)
    pat = [0, 1, (1 << 63) - 1, 1 << 63, (1 << 64) - 1]
    def words(v, n):
        return [(v >> (64 * i)) & ((1 << 64) - 1) for i in range(n)]
    ins = []
    if kind == "mont":
        inv = (-pow(Q, -1, 1 << 64)) % (1 << 64)
        vals = [0, 1, Q - 1, Q - 2, (1 << 384) % Q, (Q - 1) // 2] + [rnd.randrange(Q) for _ in range(30)]
        ts = [a * b for a in vals for b in vals] + [Q * RM - 1, Q * RM - Q, RM - 1, RM, RM + 1] + [rnd.randrange(Q * RM) for _ in range(3000)]
        ts += [sum(rnd.choice(pat) << (64 * i) for i in range(12)) % (Q * RM) for _ in range(3000)]
        ins = [words(t, 12) for t in ts]
        nin, nout = 12, 6
    else:
        ops = [sum(rnd.choice(pat) << (64 * i) for i in range(6)) for _ in range(1500)] + [rnd.randrange(1 << 384) for _ in range(1500)] + [(1 << 384) - 1, 0, 1]
        if kind == "sq":
            ins = [words(a, 6) for a in ops]
            nin = 6
        else:
            ins = [words(a, 6) + words(b, 6) for a, b in zip(ops, reversed(ops))]
            nin = 12
        nout = 12
    if cx and cx.get("inputs") and kind == "mont":
        ins = [list(cx["inputs"])] + ins          # the verifier's model first
    sym = PRE + rname
    call = {"mul": "%s(r, in[k], in[k] + 6);" % sym, "sq": "%s(r, in[k]);" % sym, "mont": "{ uint64_t t[12]; memcpy(t, in[k], sizeof t); %s(r, t, P, %dULL); }" % (sym, (-pow(Q, -1, 1 << 64)) % (1 << 64))}[kind]
    proto = {"mul": "void %s(void*, const void*, const void*);" % sym, "sq": "void %s(void*, const void*);" % sym, "mont": "void %s(void*, void*, const void*, uint64_t);" % sym}[kind]
    src = ["#include <stdio.h>", "#include <stdint.h>", "#include <string.h>", 'extern "C" ' + proto,
           "static const uint64_t P[6] = {%s};" % ", ".join("%dULL" % w for w in words(Q, 6)),
           "static const uint64_t in[][%d] = {" % nin] + ["{%s}," % ", ".join("%dULL" % w for w in row) for row in ins] + ["};",
           "int main(){ for (unsigned k = 0; k < sizeof in / sizeof in[0]; k++) { alignas(16) uint64_t r[%d]; %s printf(\"r%%u\", k); for (int i = 0; i < %d; i++) printf(\" %%llu\", (unsigned long long)r[i]); printf(\"\\n\"); } return 0; }" % (nout, call, nout)]
    cpp, obj, exe = os.path.join(wd, rname + "_drv.cpp"), os.path.join(wd, rname + "_asm.o"), os.path.join(wd, rname + "_drv")
    open(cpp, "w").write("\n".join(src))
    r1 = subprocess.run(["as", os.path.join(REPO, SDIR, sfile), "-o", obj], capture_output=True, text=True)
    r2 = subprocess.run(["g++", "-O1", "-w", cpp, obj, "-o", exe], capture_output=True, text=True)
    if r1.returncode or r2.returncode:
        rec["native_driver_error"] = (r1.stderr + r2.stderr)[-800:]
        return False
    out = subprocess.run([exe], capture_output=True, text=True, timeout=120).stdout
    got = {}
    for line in out.splitlines():
        ps = line.split()
        got[int(ps[0][1:])] = sum(int(x) << (64 * i) for i, x in enumerate(ps[1:]))
    Rinv = pow(RM, -1, Q)
    for k, row in enumerate(ins):
        v = sum(w << (64 * i) for i, w in enumerate(row))
        if kind == "mont":
            want = (v * Rinv) % Q
        elif kind == "sq":
            want = v * v
        else:
            want = (v & ((1 << 384) - 1)) * (v >> 384)
        if got.get(k) != want:
            rec["native_finding"] = "real %s on input words %r returns %d, expected %d" % (sym, row, got.get(k), want)
            rec["confirmed_on_real_code"] = True
            return True
    rec["confirmed_on_real_code"] = False
    rec["native_tried"] = len(ins)
    return False


NATIVE_DRIVER = r"""
#include <stdio.h>
#include <stdint.h>
#include <string.h>
#include <stdlib.h>
typedef unsigned __int128 u128;
extern "C" {
void embedded_pairing_core_arch_x86_64_bigint_768_multiply(void*, const void*, const void*);
void embedded_pairing_core_arch_x86_64_bmi2_adx_bigint_768_multiply(void*, const void*, const void*);
void embedded_pairing_core_arch_x86_64_bigint_768_square(void*, const void*);
void embedded_pairing_core_arch_x86_64_bmi2_adx_bigint_768_square(void*, const void*);
void embedded_pairing_core_arch_x86_64_fpbase_384_montgomery_reduce(void*, void*, const void*, uint64_t);
void embedded_pairing_core_arch_x86_64_bmi2_adx_fpbase_384_montgomery_reduce(void*, void*, const void*, uint64_t);
bool embedded_pairing_core_arch_x86_64_cpu_supports_bmi2_adx(void);
}
static const uint64_t P[6] = {@P@};
static const uint64_t INV = @INV@ULL;
static void ref_mul(uint64_t* r, const uint64_t* a, const uint64_t* b) {
    memset(r, 0, 96);
    for (int i = 0; i < 6; i++) { uint64_t c = 0; for (int j = 0; j < 6; j++) { u128 t = (u128)a[i] * b[j] + r[i + j] + c; r[i + j] = (uint64_t)t; c = (uint64_t)(t >> 64); } r[i + 6] = c; }
}
static int geq(const uint64_t* a, const uint64_t* b, int n) { for (int i = n - 1; i >= 0; i--) { if (a[i] != b[i]) return a[i] > b[i]; } return 1; }
static void ref_mont(uint64_t* res, const uint64_t* t0) {
    uint64_t t[13]; memcpy(t, t0, 96); t[12] = 0;
    for (int i = 0; i < 6; i++) {
        uint64_t u = t[i] * INV, c = 0;
        for (int j = 0; j < 6; j++) { u128 x = (u128)u * P[j] + t[i + j] + c; t[i + j] = (uint64_t)x; c = (uint64_t)(x >> 64); }
        for (int k = i + 6; k < 13 && c; k++) { u128 x = (u128)t[k] + c; t[k] = (uint64_t)x; c = (uint64_t)(x >> 64); }
    }
    uint64_t* T = t + 6;                      /* T < 2p, t[12] == 0 for inputs below p*R */
    if (t[12] || geq(T, P, 6)) { uint64_t bw = 0; for (int i = 0; i < 6; i++) { u128 d = (u128)T[i] - P[i] - bw; res[i] = (uint64_t)d; bw = (uint64_t)(d >> 64) & 1; } }
    else memcpy(res, T, 48);
}
static uint64_t s = 88172645463325252ULL;
static uint64_t rnd() { s ^= s << 13; s ^= s >> 7; s ^= s << 17; return s; }
static const uint64_t PAT[6] = {0, 1, ~0ULL, 0x8000000000000000ULL, 0x7fffffffffffffffULL, 0xffffffff00000000ULL};
static void fill(uint64_t* a, int n, long k) { for (int i = 0; i < n; i++) a[i] = (k & 1) ? rnd() : ((rnd() % 3) ? PAT[rnd() % 6] : rnd()); }
int main(int argc, char** argv) {
    long N = atol(argv[1]);
    int bmi = embedded_pairing_core_arch_x86_64_cpu_supports_bmi2_adx();
    long bad[6] = {0, 0, 0, 0, 0, 0};
    alignas(16) uint64_t a[6], b[6], r[12], e[12], t[12], q[6], f[6];
    for (long k = 0; k < N; k++) {
        fill(a, 6, k); fill(b, 6, k);
        ref_mul(e, a, b);
        embedded_pairing_core_arch_x86_64_bigint_768_multiply(r, a, b); if (memcmp(r, e, 96)) bad[0]++;
        if (bmi) { embedded_pairing_core_arch_x86_64_bmi2_adx_bigint_768_multiply(r, a, b); if (memcmp(r, e, 96)) bad[1]++; }
        ref_mul(e, a, a);
        embedded_pairing_core_arch_x86_64_bigint_768_square(r, a); if (memcmp(r, e, 96)) bad[2]++;
        if (bmi) { embedded_pairing_core_arch_x86_64_bmi2_adx_bigint_768_square(r, a); if (memcmp(r, e, 96)) bad[3]++; }
        /* reduction input below p * 2^384: the product of two values below p */
        a[5] %= P[5]; b[5] %= P[5];
        ref_mul(t, a, b);
        ref_mont(f, t);
        memcpy(e, t, 96); embedded_pairing_core_arch_x86_64_fpbase_384_montgomery_reduce(q, e, P, INV); if (memcmp(q, f, 48)) bad[4]++;
        if (bmi) { memcpy(e, t, 96); embedded_pairing_core_arch_x86_64_bmi2_adx_fpbase_384_montgomery_reduce(q, e, P, INV); if (memcmp(q, f, 48)) bad[5]++; }
    }
    printf("bmi %d\ncases %ld\n", bmi, N);
    for (int i = 0; i < 6; i++) printf("bad%d %ld\n", i, bad[i]);
    return 0;
}
"""


def gen_native_differential(tu, n=2000000):
    """BOUNDED: the real assembled routines of both variants against a schoolbook reference written with unsigned __int128"""
    def run(path):
        import subprocess, tempfile, shutil
        wd = tempfile.mkdtemp(prefix="jpv.nd.")
        try:
            inv = (-pow(Q, -1, 1 << 64)) % (1 << 64)
            src = NATIVE_DRIVER.replace("@P@", ", ".join("%dULL" % ((Q >> (64 * i)) & ((1 << 64) - 1)) for i in range(6))).replace("@INV@", str(inv))
            open(os.path.join(wd, "d.cpp"), "w").write(src)
            objs = []
            for sf in ("multiply.s", "multiply_bmi2_adx.s"):
                o = os.path.join(wd, sf + ".o")
                r = subprocess.run(["as", os.path.join(REPO, SDIR, sf), "-o", o], capture_output=True, text=True)
                if r.returncode:
                    raise ExtractionError("assembler failed on %s: %s" % (sf, r.stderr[-300:]))
                objs.append(o)
            r = subprocess.run(["g++", "-O2", "-w", os.path.join(wd, "d.cpp")] + objs + ["-o", os.path.join(wd, "d")], capture_output=True, text=True)
            if r.returncode:
                raise ExtractionError("native driver does not compile: " + r.stderr[-600:])
            out = subprocess.run([os.path.join(wd, "d"), str(n)], capture_output=True, text=True, timeout=1800).stdout
            vals = dict(l.split() for l in out.splitlines() if l.strip())
            names = ["bigint_768_multiply", "bmi2_adx_bigint_768_multiply", "bigint_768_square", "bmi2_adx_bigint_768_square", "fpbase_384_montgomery_reduce", "bmi2_adx_fpbase_384_montgomery_reduce"]
            obs = []
            for i, nm in enumerate(names):
                ran = vals.get("bmi") == "1" or "bmi2" not in nm
                obs.append(("native %s == schoolbook reference on %s pseudo-random / pattern operands%s" % (nm, vals.get("cases"), "" if ran else " (NOT RUN: this CPU lacks BMI2/ADX)"), "ok" if vals.get("bad%d" % i) == "0" else "fail", "%s mismatches" % vals.get("bad%d" % i), None))
            return obs
        finally:
            shutil.rmtree(wd, ignore_errors=True)
    yield "native differential", guarded(run)


ROUTINES = [("multiply.s", "bigint_768_multiply", "mul"), ("multiply.s", "bigint_768_square", "sq"), ("multiply.s", "fpbase_384_montgomery_reduce", "mont"),
            ("multiply_bmi2_adx.s", "bmi2_adx_bigint_768_multiply", "mul"), ("multiply_bmi2_adx.s", "bmi2_adx_bigint_768_square", "sq"),
            ("multiply_bmi2_adx.s", "bmi2_adx_fpbase_384_montgomery_reduce", "mont")]


def units():
    us = []
    for sfile, rname, kind in ROUTINES:
        if kind == "mont":
            g = (lambda tu, sfile=sfile, rname=rname: gen_mont(tu, sfile, rname))
            label = "asm %s (%s): Montgomery identity and result < p on every path, frame, stack, callee-saved (machine code, word level)" % (rname, sfile)
        else:
            g = (lambda tu, sfile=sfile, rname=rname, kind=kind: gen_mul(tu, sfile, rname, kind == "sq"))
            label = "asm %s (%s): exact %s, frame, stack, callee-saved (machine code, word level)" % (rname, sfile, "square" if kind == "sq" else "product")
        u = ScenUnit(label, P, g, targets=[], contracts_used=["x86-64 instruction semantics table of tools/asmword.py (Intel SDM)"])
        u.back_end = "WORD(asm)"
        u.replay_hook = _replay
        us.append(u)
    nd = ScenUnit("x86-64 768-bit routines, both variants: native differential run against a schoolbook __int128 reference (2*10^6 operands per routine)", ["C03"], gen_native_differential,
                  tier="thorough", kind="bounded", bound="2*10^6 pseudo-random and pattern operands per routine (xorshift, fixed seed)", targets=[],
                  note="bounded evidence only: the proof is the word-level units; this run exercises the REAL assembled code on the host CPU")
    nd.back_end = "NATIVE"
    us.append(nd)
    return us
