"""C15 / C17: marshalling of the scheme objects (src/wkdibe/marshal.cpp, include/wkdibe/api.hpp, src/lqibe/marshal.cpp).

Oracle = the wire format named in the property, written independently of the code:
   G1 point: 48 bytes compressed / 96 uncompressed;  G2 point: 96 / 192;  GT element: 576;  slot index: 4 bytes big-endian
   Params    : flag byte | g (G2) | g1 (G2) | g2 (G1) | g3 (G1) | [pairing (GT) if uncompressed] | [hsig (G1) if flag != 0] | h_0 .. h_{l-1} (G1)
   SecretKey : flag byte | a0 (G1) | a1 (G2) | [bsig (G1) if flag != 0] | (hexp (G1), idx) x l
(a) length functions, for ALL lengths n in [1, 2^32] and all first bytes: the reported slot count l is the unique one with
    n = fixed(flag) + l * slot, else -1 (ghost witness l makes the completeness direction a universally quantified statement);
(b) marshal / unmarshal on a buffer of exactly that many bytes: every access inside the buffer and inside the slot array of the
    reported size; marshal writes every byte; unmarshal reads component k from the place marshal wrote component k
    (group encoders replaced by ghost recorders)."""
from bvspec import *
from units import BVUnit

G1S = {1: 48, 0: 96}
G2S = {1: 96, 0: 192}
GTS = 576
P15 = ["C15", "C17"]


def fixed(kind, c, flag_expr):
    """bytes before the slot list"""
    if kind == "Params":
        base = 1 + 2 * G2S[c] + 2 * G1S[c] + (0 if c else GTS)
    else:
        base = 1 + G1S[c] + G2S[c]
    return "((size_t)%d + ((%s) ? (size_t)%d : (size_t)0))" % (base, flag_expr, G1S[c])


def slot(kind, c):
    return G1S[c] if kind == "Params" else 4 + G1S[c]


def c_unmarshalled_length(kind, c):
    W = fixed(kind, c, "*(const uint8_t *)marshalled != 0")
    S = slot(kind, c)
    return (req("__CPROVER_is_fresh(marshalled, 1)", "1 <= marshalledLength && marshalledLength <= ((size_t)1 << 32)") + assigns() +
            ens("__CPROVER_return_value == -1 || (__CPROVER_return_value >= 0 && marshalledLength == %s + (size_t)__CPROVER_return_value * (size_t)%d)" % (W, S),
                "(0 <= jpv_l && jpv_l < (1 << 24) && marshalledLength == %s + (size_t)jpv_l * (size_t)%d) ==> __CPROVER_return_value == jpv_l" % (W, S)))


def c_marshalled_length(kind, c):
    W = fixed(kind, c, "signatures")
    return req("0 <= length && length < (1 << 24)") + assigns() + ens("__CPROVER_return_value == %s + (size_t)length * (size_t)%d" % (W, slot(kind, c)))


def c_set_length(kind, c):
    W = fixed(kind, c, "*(const uint8_t *)marshalled != 0")
    S = slot(kind, c)
    return (req(fresh("self"), "__CPROVER_is_fresh(marshalled, 1)", "1 <= marshalledLength && marshalledLength <= ((size_t)1 << 32)") + assigns("self->l") +
            ens("__CPROVER_return_value == -1 ==> self->l == __CPROVER_old(self->l)",
                "__CPROVER_return_value != -1 ==> (self->l == __CPROVER_return_value && __CPROVER_return_value >= 0 && marshalledLength == %s + (size_t)__CPROVER_return_value * (size_t)%d)" % (W, S),
                "(0 <= jpv_l && jpv_l < (1 << 24) && marshalledLength == %s + (size_t)jpv_l * (size_t)%d) ==> __CPROVER_return_value == jpv_l" % (W, S)))


def c_get_marshalled_length(kind, c):
    W = fixed(kind, c, "self->signatures")
    return req(fresh("self"), "0 <= self->l && self->l < (1 << 24)") + assigns() + ens("__CPROVER_return_value == %s + (size_t)self->l * (size_t)%d" % (W, slot(kind, c)))


GHOST_L = "int jpv_l;\n"
HAVOC_L = "  { int jpv_nd; jpv_l = jpv_nd; }\n"


def units():
    us = []
    for kind in ("Params", "SecretKey"):
        for c in (1, 0):
            K = "wkdibe::%s::" % kind
            def mk(name, contract, canary, **kw):
                q = K + "%s<%d>" % (name, c)
                u = BVUnit(q, dict({q: contract}, **kw.pop("more", {})), P15, unwind=4, canary=canary, spec_prelude=GHOST_L, timeout=900, **kw)
                u.tu_variant = "wkdcapi"
                u.harness_pre = HAVOC_L
                return u
            us.append(mk("unmarshalledLength", c_unmarshalled_length(kind, c), ("== jpv_l", "== jpv_l + 1")))
            us.append(mk("marshalledLength", c_marshalled_length(kind, c), ("(size_t)length *", "(size_t)1 + (size_t)length *")))
            us.append(mk("setLength", c_set_length(kind, c), ("== jpv_l", "== jpv_l + 1"), replace=[K + "unmarshalledLength<%d>" % c],
                         more={K + "unmarshalledLength<%d>" % c: c_unmarshalled_length(kind, c)}))
            us.append(mk("getMarshalledLength", c_get_marshalled_length(kind, c), ("(size_t)self->l *", "(size_t)1 + (size_t)self->l *"), replace=[K + "marshalledLength<%d>" % c],
                         more={K + "marshalledLength<%d>" % c: c_marshalled_length(kind, c)}))
    return us


# ---------------------------------------------------------------------------
# native replay of a refuted length obligation: the REAL function on the witness (first byte, length) against the format oracle
def make_len_hook(kind, c, name):
    def hook(rec, unit, result, fresh, tu, wd, wit):
        import subprocess, os
        from jast import unity_source, clang_flags
        b0 = int(wit.get("marshalled_byte0", 0)) & 0xff
        base = (1 + 2 * G2S[c] + 2 * G1S[c] + (0 if c else GTS)) if kind == "Params" else (1 + G1S[c] + G2S[c])
        S = slot(kind, c)
        cands = []
        if "marshalledLength" in wit:
            cands.append((b0, int(wit["marshalledLength"])))
        g = rec.get("ghost_state", {})
        if "jpv_l" in g:
            for fl in (b0, 0, 1, 2):
                cands.append((fl, base + (G1S[c] if fl else 0) + int(g["jpv_l"]) * S))
        rec["candidates"] = cands
        for (fl, n) in cands:
            if not (1 <= n <= 1 << 32):
                continue
            W = base + (G1S[c] if fl else 0)
            want = (n - W) // S if (n >= W and (n - W) % S == 0) else -1
            src = unity_source(variant="wkdcapi") + """
#include <stdio.h>
int main() { unsigned char b[8] = {%d, 0}; printf("ret %%d\\n", embedded_pairing::wkdibe::%s::unmarshalledLength<%s>(b, %dUL)); return 0; }
""" % (fl, kind, "true" if c else "false", n)
            p = os.path.join(wd, "len_native.cpp")
            open(p, "w").write(src)
            r = subprocess.run(["clang++"] + clang_flags() + ["-O1", "-w", p, "-o", p[:-4]], capture_output=True, text=True)
            if r.returncode != 0:
                rec["native_driver_error"] = r.stderr[-800:]
                return False
            out = subprocess.run([p[:-4]], capture_output=True, text=True).stdout
            got = int(out.split("ret")[1].split()[0])
            rec.setdefault("native_runs", []).append(dict(first_byte=fl, length=n, returned=got, format_says=want))
            if got != want:
                rec["confirmed_on_real_code"] = True
                rec["failing_input"] = dict(first_byte=fl, marshalledLength=n, returned=got, expected=want)
                return True
        rec["confirmed_on_real_code"] = False
        return False
    return hook


_mu0 = units


def units():
    us = _mu0()
    import re
    for u in us:
        m = re.match(r"wkdibe::(Params|SecretKey)::(unmarshalledLength|setLength)<(\d)>", u.label)
        if m:
            u.replay_hook = make_len_hook(m.group(1), int(m.group(3)), m.group(2))
    return us


# ===========================================================================
# (b) marshal / unmarshal structure, with the group encoders replaced by ghost recorders (trusted stubs, listed)
TRACE = r'''
#define JPV_MAXEV 12
size_t jpv_ev_off[JPV_MAXEV]; size_t jpv_ev_len[JPV_MAXEV]; uint64_t jpv_ev_tag[JPV_MAXEV]; int jpv_nev; _Bool jpv_all_ok; uint64_t jpv_pair_g1, jpv_pair_g2;
const void *jpv_buf; size_t jpv_buflen;
static void jpv_record(const void *p, size_t len, uint64_t tag)
{
  __CPROVER_assert(jpv_nev < JPV_MAXEV, "ghost trace capacity");
  __CPROVER_assert(__CPROVER_same_object(p, jpv_buf), "encoder / decoder works inside the caller's buffer");
  size_t off = (size_t)(__CPROVER_POINTER_OFFSET(p) - __CPROVER_POINTER_OFFSET(jpv_buf));
  __CPROVER_assert(off <= jpv_buflen && len <= jpv_buflen - off, "encoded element lies inside the buffer");
  if (jpv_nev < JPV_MAXEV) { jpv_ev_off[jpv_nev] = off; jpv_ev_len[jpv_nev] = len; jpv_ev_tag[jpv_nev] = tag; }
  jpv_nev++;
}
#define JPV_TAG(p) (*(const uint64_t *)(p))
#define JPV_SETTAG(p, v) (*(uint64_t *)(p) = (v))
'''


def stub_copy():
    return "{ JPV_SETTAG(self, JPV_TAG($0)); }"


def stub_encode(size):
    return "{ jpv_record(self, %d, JPV_TAG($0)); uint8_t jpv_x, jpv_y; ((uint8_t *)self)[0] = jpv_x; ((uint8_t *)self)[%d] = jpv_y; }" % (size, size - 1)


def stub_decode(size):
    return ("{ jpv_record(self, %d, 0); uint8_t jpv_x = ((const uint8_t *)self)[0], jpv_y = ((const uint8_t *)self)[%d]; uint8_t jpv_nd; _Bool jpv_ok = (jpv_nd & 1) != 0;" % (size, size - 1) +
            " JPV_SETTAG($0, 0x1000 + (uint64_t)(__CPROVER_POINTER_OFFSET(self) - __CPROVER_POINTER_OFFSET(jpv_buf))); jpv_all_ok = jpv_all_ok && jpv_ok; return jpv_ok; }")


STUB_WBE = "{ jpv_record($0, 576, JPV_TAG(self)); uint8_t jpv_x, jpv_y; ((uint8_t *)$0)[0] = jpv_x; ((uint8_t *)$0)[575] = jpv_y; }"
STUB_RBE = "{ jpv_record($0, 576, 0); uint8_t jpv_x = ((const uint8_t *)$0)[0], jpv_y = ((const uint8_t *)$0)[575]; JPV_SETTAG(self, 0x1000 + (uint64_t)(__CPROVER_POINTER_OFFSET($0) - __CPROVER_POINTER_OFFSET(jpv_buf))); }"
STUB_PAIR = "{ jpv_pair_g1 = JPV_TAG($1); jpv_pair_g2 = JPV_TAG($2); JPV_SETTAG($0, 0x2000); }"

G1A, G2A = "Affine<Fq, Fr, g1_b_coeff_var>", "Affine<Fq2, Fr, g2_b_coeff_var>"


def stubs(tu, c):
    st = {
        G1A + "::from_projective": stub_copy(), G2A + "::from_projective": stub_copy(),
        "Projective<Fq>::from_affine": stub_copy(), "Projective<Fq2>::from_affine": stub_copy(),
        "Encoding<G1Affine, %d>::encode" % c: stub_encode(G1S[c]), "Encoding<G2Affine, %d>::encode" % c: stub_encode(G2S[c]),
        "Encoding<G1Affine, %d>::decode" % c: stub_decode(G1S[c]), "Encoding<G2Affine, %d>::decode" % c: stub_decode(G2S[c]),
        "Fq12::write_big_endian": STUB_WBE, "Fq12::read_big_endian": STUB_RBE,
    }
    for q in tu.by_qname:
        if q.startswith("pairing<") or q == "pairing" or q.startswith("pairing("):
            st[q] = STUB_PAIR
    return st


def layout(kind, c, sig, l):
    """[(component expression relative to self, size, kind)] in wire order; kind in g1 g2 gt idx flag"""
    L = []
    if kind == "wkdibe::Params":
        L = [("flag", 1, None), ("g", G2S[c], "&self->g"), ("g1", G2S[c], "&self->g1"), ("g2", G1S[c], "&self->g2"), ("g3", G1S[c], "&self->g3")]
        if not c:
            L.append(("pairing", GTS, "&self->pairing"))
        if sig:
            L.append(("hsig", G1S[c], "&self->hsig"))
        L += [("h[%d]" % i, G1S[c], "&self->h[%d]" % i) for i in range(l)]
    elif kind == "wkdibe::SecretKey":
        L = [("flag", 1, None), ("a0", G1S[c], "&self->a0"), ("a1", G2S[c], "&self->a1")]
        if sig:
            L.append(("bsig", G1S[c], "&self->bsig"))
        for i in range(l):
            L += [("b[%d].hexp" % i, G1S[c], "&self->b[%d].hexp" % i), ("b[%d].idx" % i, 4, "idx:%d" % i)]
    elif kind == "wkdibe::Ciphertext":
        L = [("a", GTS, "&self->a"), ("b", G2S[c], "&self->b"), ("c", G1S[c], "&self->c")]
    elif kind == "wkdibe::Signature":
        L = [("a0", G1S[c], "&self->a0"), ("a1", G2S[c], "&self->a1")]
    elif kind == "wkdibe::MasterKey":
        L = [("g2alpha", G1S[c], "&self->g2alpha")]
    elif kind == "wkdibe::FreeSlot":
        L = [("hexp", G1S[c], "&self->hexp"), ("idx", 4, "idx:self")]
    elif kind == "lqibe::Params":
        L = [("p", G2S[c], "&self->p"), ("sp", G2S[c], "&self->sp")]
    elif kind == "lqibe::MasterKey":
        L = [("s", 32, "raw:&self->s")]
    elif kind == "lqibe::ID":
        L = [("q", G1S[c], "&self->q")]
    elif kind == "lqibe::SecretKey":
        L = [("sq", G1S[c], "&self->sq")]
    elif kind == "lqibe::Ciphertext":
        L = [("rp", G2S[c], "&self->rp")]
    out, off = [], 0
    for (nm, sz, ref) in L:
        out.append((nm, off, sz, ref))
        off += sz
    return out, off


def ev_exists(off, size, tag_expr, nev):
    return "(" + " || ".join("(jpv_ev_off[%d] == %d && jpv_ev_len[%d] == %d && jpv_ev_tag[%d] == %s)" % (j, off, j, size, j, tag_expr) for j in range(nev)) + ")"


def be32(off):
    return "(((uint32_t)((const uint8_t *)buffer)[%d] << 24) | ((uint32_t)((const uint8_t *)buffer)[%d] << 16) | ((uint32_t)((const uint8_t *)buffer)[%d] << 8) | (uint32_t)((const uint8_t *)buffer)[%d])" % (off, off + 1, off + 2, off + 3)


def has_slots(kind):
    return kind in ("wkdibe::Params", "wkdibe::SecretKey")


def slot_type(kind):
    return {"wkdibe::Params": ("h", "Projective_Fq"), "wkdibe::SecretKey": ("b", "wkdibe_FreeSlot")}[kind]


def c_marshal(kind, c, sig, l):
    lay, n = layout(kind, c, sig, l)
    evs = [(off, sz, ref) for (nm, off, sz, ref) in lay if ref and not ref.startswith("idx:") and not ref.startswith("raw:")]
    pre = [fresh("self"), "__CPROVER_is_fresh(buffer, %d)" % n]
    if has_slots(kind):
        fld, ty = slot_type(kind)
        pre += ["self->l == %d" % l, "self->signatures == %d" % sig]
        if l:
            pre.append("__CPROVER_is_fresh(self->%s, %d * sizeof(%s))" % (fld, l, ty))
    pre += ["jpv_nev == 0", "jpv_buf == buffer", "jpv_buflen == %d" % n]
    post = ["jpv_nev == %d" % len(evs)]
    for (off, sz, ref) in evs:
        post.append(ev_exists(off, sz, "JPV_TAG(%s)" % ref, len(evs)))
    for (nm, off, sz, ref) in lay:
        if nm == "flag":
            post.append("((const uint8_t *)buffer)[0] == %d" % (1 if sig else 0))
        if ref and ref.startswith("raw:"):
            # the object's bytes as they lie in memory
            post += ["((const uint8_t *)buffer)[%d] == ((const uint8_t *)(%s))[%d]" % (off + k, ref[4:], k) for k in range(sz)]
        if ref and ref.startswith("idx:"):
            who = ref[4:]
            src = "self->idx" if who == "self" else "self->b[%s].idx" % who
            post.append("%s == %s" % (be32(off), src))
    return req(*pre) + assigns("__CPROVER_object_whole(buffer)", "__CPROVER_object_whole(jpv_ev_off)", "__CPROVER_object_whole(jpv_ev_len)", "__CPROVER_object_whole(jpv_ev_tag)", "jpv_nev") + ens(*post), n


def c_unmarshal(kind, c, sig, l):
    lay, n = layout(kind, c, sig, l)
    evs = [(off, sz, ref) for (nm, off, sz, ref) in lay if ref and not ref.startswith("idx:") and not ref.startswith("raw:")]
    pre = [fresh("self"), "__CPROVER_is_fresh(buffer, %d)" % n]
    if has_slots(kind):
        fld, ty = slot_type(kind)
        pre += ["self->l == %d" % l, ("((const uint8_t *)buffer)[0] != 0" if sig else "((const uint8_t *)buffer)[0] == 0")]
        if l:
            pre.append("__CPROVER_is_fresh(self->%s, %d * sizeof(%s))" % (fld, l, ty))
    pre += ["jpv_nev == 0", "jpv_all_ok == 1", "jpv_buf == buffer", "jpv_buflen == %d" % n]
    good = ["__CPROVER_return_value == 1"]
    post = ["__CPROVER_return_value == jpv_all_ok"]
    concl = ["jpv_nev == %d" % len(evs)]
    for (nm, off, sz, ref) in lay:
        if ref is None:
            if has_slots(kind):
                concl.append("self->signatures == %d" % (1 if sig else 0))
        elif ref.startswith("raw:"):
            concl += ["((const uint8_t *)(%s))[%d] == ((const uint8_t *)buffer)[%d]" % (ref[4:], k, off + k) for k in range(sz)]
        elif ref.startswith("idx:"):
            who = ref[4:]
            dst = "self->idx" if who == "self" else "self->b[%s].idx" % who
            concl.append("%s == %s" % (dst, be32(off)))
        else:
            concl.append("JPV_TAG(%s) == 0x1000 + %d" % (ref, off))
    if kind == "wkdibe::Params" and c:
        # compressed parameters: the pairing value is recomputed from the decoded g2 (G1) and g1 (G2)
        g2off = [o for (nm, o, s, r) in lay if nm == "g2"][0]
        g1off = [o for (nm, o, s, r) in lay if nm == "g1"][0]
        concl += ["JPV_TAG(&self->pairing) == 0x2000", "jpv_pair_g1 == 0x1000 + %d" % g2off, "jpv_pair_g2 == 0x1000 + %d" % g1off]
    post.append("__CPROVER_return_value ==> (%s)" % " && ".join(concl))
    targets = ["__CPROVER_object_whole(self)", "__CPROVER_object_whole(jpv_ev_off)", "__CPROVER_object_whole(jpv_ev_len)", "__CPROVER_object_whole(jpv_ev_tag)", "jpv_nev", "jpv_all_ok", "jpv_pair_g1", "jpv_pair_g2"]
    if has_slots(kind) and l:
        targets.append("__CPROVER_object_whole(self->%s)" % slot_type(kind)[0])
    return req(*pre) + assigns(*targets) + ens(*post), n


def struct_units():
    us = []
    kinds = [("wkdibe::Params", (0, 1, 2)), ("wkdibe::SecretKey", (0, 1, 2)), ("wkdibe::Ciphertext", (0,)), ("wkdibe::Signature", (0,)), ("wkdibe::MasterKey", (0,)), ("wkdibe::FreeSlot", (0,)),
             ("lqibe::Params", (0,)), ("lqibe::MasterKey", (0,)), ("lqibe::ID", (0,)), ("lqibe::SecretKey", (0,)), ("lqibe::Ciphertext", (0,))]
    for kind, ls in kinds:
        for c in (1, 0):
            for l in ls:
                for sig in ((0, 1) if has_slots(kind) else (0,)):
                    for op, mkc in (("marshal", c_marshal), ("unmarshal", c_unmarshal)):
                        q = "%s::%s<%d>" % (kind, op, c)
                        contract, n = mkc(kind, c, sig, l)
                        bodies = []
                        if kind == "wkdibe::SecretKey":
                            bodies = ["wkdibe::FreeSlot::%s<%d>" % (op, c), "wkdibe::uint32_swap_endianness"]
                        if kind == "wkdibe::FreeSlot":
                            bodies = ["wkdibe::uint32_swap_endianness"]
                        lab = q + ("[l=%d,flag=%d]" % (l, sig) if has_slots(kind) else "")
                        u = BVUnit(q, {q: contract}, P15, bodies=bodies, unwind=l + 2, label=lab, spec_prelude=TRACE, timeout=900,
                                   canary=("jpv_nev == %d" % len([1 for x in layout(kind, c, sig, l)[0] if x[3] and not x[3].startswith("idx:") and not x[3].startswith("raw:")]), "jpv_nev == 77"),
                                   kind="bounded" if has_slots(kind) else "proof", bound=("slot count l = %d" % l) if has_slots(kind) else None,
                                   tier="quick" if l <= 1 else "quick", extra=["--object-bits", "10"],
                                   note="group encoders / decoders / pairing replaced by ghost recorders (trusted stubs); buffer of exactly the format's length")
                        u.stub_factory = (lambda tu, c=c: stubs(tu, c))
                        if kind == "lqibe::MasterKey":
                            u.tu_variant = "lqcapi"         # header-only templates: instantiated by the C wrappers
                        us.append(u)
    return us


_mu1 = units


def units():
    return _mu1() + struct_units()


# native replay of an alignment obligation: the REAL marshal / unmarshal under UBSan (-fsanitize=alignment) on a 16-byte aligned buffer
def align_hook(rec, unit, result, fresh, tu, wd, wit):
    import subprocess, os
    from jast import unity_source, clang_flags
    if not any("alignment:" in (f[1] + (f[2] if len(f) > 2 else "")) for f in fresh):
        return False
    if "lqibe::MasterKey" in unit.label:
        src = unity_source(variant="lqcapi") + r"""
#include <stdio.h>
#include <string.h>
namespace L = embedded_pairing::lqibe;
int main() {
  alignas(16) unsigned char raw[96]; L::MasterKey m, m2; memset(&m, 0x5a, sizeof m);
  m.marshal<true>(raw + 1); m2.unmarshal<true>(raw + 1, true); m.marshal<false>(raw + 1); m2.unmarshal<false>(raw + 1, true);
  printf("roundtrip %d\n", (int)(memcmp(&m, &m2, sizeof m) == 0));
  return 0; }
"""
        p = os.path.join(wd, "align_native_lq.cpp")
        open(p, "w").write(src)
        r = subprocess.run(["clang++"] + clang_flags() + ["-O1", "-w", "-fsanitize=alignment", p, "-o", p[:-4]], capture_output=True, text=True)
        if r.returncode != 0:
            rec["native_driver_error"] = r.stderr[-1200:]
            return False
        r = subprocess.run([p[:-4]], capture_output=True, text=True, timeout=300)
        out = (r.stdout + r.stderr)
        rec["native_ubsan_output"] = out[-1500:]
        ok = "misaligned address" in out
        if not ok:
            # aggregate copies are not instrumented by -fsanitize=alignment; the optimised build uses aligned vector moves and faults
            r = subprocess.run(["clang++"] + clang_flags() + ["-O3", "-w", p, "-o", p[:-4] + "_o3"], capture_output=True, text=True)
            if r.returncode == 0:
                r = subprocess.run([p[:-4] + "_o3"], capture_output=True, text=True, timeout=300)
                rec["native_o3_exit"] = r.returncode
                ok = r.returncode < 0
        rec["confirmed_on_real_code"] = ok
        if ok:
            rec["failing_input"] = "lqibe::MasterKey::marshal / unmarshal on a buffer at address 16k+1 (any byte pointer is a valid argument): UBSan report or hardware fault (signal) in the optimised build"
        return ok
    src = unity_source() + r"""
#include <stdio.h>
#include <stdlib.h>
#include <string.h>
namespace W = embedded_pairing::wkdibe;
static unsigned long long st = 88172645463325252ULL;
static void rng(void* b, size_t n) { unsigned char* p = (unsigned char*)b; for (size_t i = 0; i < n; i++) { st ^= st << 13; st ^= st >> 7; st ^= st << 17; p[i] = (unsigned char)(st >> 32); } }
int main() {
  static W::G1 h[2]; W::Params params; params.h = h; W::MasterKey msk;
  W::setup(params, msk, 2, true, rng);
  W::Attribute a[1]; W::AttributeList al; al.attrs = a; al.length = 0; al.omitAllFromKeysUnlessPresent = false;
  static W::FreeSlot slots[2]; W::SecretKey sk; sk.b = slots;
  W::keygen(sk, params, msk, al, rng);
  size_t n = sk.getMarshalledLength<true>();
  void* buf = aligned_alloc(16, (n + 15) / 16 * 16);
  sk.marshal<true>(buf);
  static W::FreeSlot slots2[2]; W::SecretKey sk2; sk2.b = slots2; sk2.setLength<true>(buf, n);
  bool ok = sk2.unmarshal<true>(buf, true);
  printf("roundtrip %d\n", (int)ok);
  return 0; }
"""
    p = os.path.join(wd, "align_native.cpp")
    open(p, "w").write(src)
    r = subprocess.run(["clang++"] + clang_flags() + ["-O1", "-w", "-fsanitize=alignment", p, "-o", p[:-4]], capture_output=True, text=True)
    if r.returncode != 0:
        rec["native_driver_error"] = r.stderr[-1200:]
        return False
    r = subprocess.run([p[:-4]], capture_output=True, text=True, timeout=300)
    out = (r.stdout + r.stderr)
    rec["native_ubsan_output"] = out[-1500:]
    ok = "misaligned address" in out
    rec["confirmed_on_real_code"] = ok
    if ok:
        rec["failing_input"] = "SecretKey with one free slot and signatures, marshal<true>/unmarshal<true> on a 16-byte aligned buffer (slot array starts at offset 193)"
    return ok


_mu2 = units


def units():
    us = _mu2()
    for u in us:
        if ("::marshal<" in u.label or "::unmarshal<" in u.label) and "every l" not in u.label:
            if getattr(u, "replay_hook", None) is None:
                u.replay_hook = align_hook
    return us
