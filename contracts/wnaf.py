"""C06 (recoding): WnafScalar<bits,w>::from_bigint (include/bls12_381/wnaf.hpp) -- BV back end, loop contract.

Oracle (from the property: "the signed-digit recoding always represents exactly the scalar and never exceeds its
fixed-size digit buffer"): with c_0 = scalar, every iteration writes a digit d and leaves  c' with  2*c' + d == c
(as integers, no wrap), d odd or zero, |d| < 2^w; the loop ends with c == 0; every write index is <= bits.
Telescoping gives  scalar == sum d_j 2^j  (paper lemma, listed).  The buffer bound is proved through the locally
inductive invariant   2*c < 2^(bits+1-i) + 2^z ,  c == 0 (mod 2^z)   with ghost z = number of pending zero digits."""
from bvspec import *
from units import BVUnit
import bigint as BI

P = ["C06", "C17"]


def WS(bits, w):
    return "WnafScalar<%d, %d>" % (bits, w)


def c_clear(n):
    words = {64: 2}.get(n, n // 64)
    return req(fresh("self")) + assigns("__CPROVER_object_whole(self)") + ens(" && ".join("self->words[%d] == 0" % k for k in range(words)))


def c_add_lo(n):
    """the value of the low n bits and (for widths that fill their double words) the carry"""
    if n % 128 == 0:
        return BI.c_add(n)
    return alias_out_a_b() + assigns("__CPROVER_object_whole(self)") + ens("VAL%d(self) == ((OLD%d(a) + OLD%d(b)) & (((uv%d)1 << %d) - 1))" % (n, n, n, n, n))


def c_sub_lo(n):
    if n % 128 == 0:
        return BI.c_sub(n)
    return alias_out_a_b() + assigns("__CPROVER_object_whole(self)") + ens("VAL%d(self) == ((OLD%d(a) - OLD%d(b)) & (((uv%d)1 << %d) - 1))" % (n, n, n, n, n))


def c_from_bigint(bits, w):
    return req(fresh("self"), fresh("scalar")) + assigns("__CPROVER_object_whole(self)", "jpv_z", "jpv_done", "jpv_c0") + ens(
        "0 <= self->wnaf_size && self->wnaf_size <= %d" % (bits + 1),
        "jpv_done == 1")


def loop_contract(bits, w):
    n = bits
    nw = max(1, bits // 64)
    inv = [
        "0 <= i && i <= %d" % (bits + 1),
        "0 <= jpv_z && jpv_z <= %d" % w,
        "(VAL%d(&c) & (((uv%d)1 << jpv_z) - 1)) == 0" % (n, n),
        "((uv%d)2 * VAL%d(&c)) < (((uv%d)1 << (%d - i)) + ((uv%d)1 << jpv_z))" % (n, n, n, bits + 1, n),
        "a.words[0] < 256" + "".join(" && a.words[%d] == 0" % k for k in range(1, nw)),
        "carry == 0",
    ]
    txt = "__CPROVER_assigns(@LOCALS@, jpv_z, jpv_c0, __CPROVER_object_whole(self))\n"
    txt += "".join("__CPROVER_loop_invariant(%s)\n" % x for x in inv)
    txt += "__CPROVER_decreases(%d - i)\n" % (bits + 2)
    begin = "jpv_c0 = VAL%d(&c);" % n
    end = "\n".join([
        "__CPROVER_assert(u == 0 || (u & 1) == 1, \"recoding: digit is odd or zero\");",
        "__CPROVER_assert(-%d < u && u < %d, \"recoding: |digit| < 2^w\");" % (1 << w, 1 << w),
        "__CPROVER_assert(self->wnaf[i - 1] == u, \"recoding: digit stored without truncation\");",
        "__CPROVER_assert((sv%d)2 * (sv%d)VAL%d(&c) + (sv%d)u == (sv%d)jpv_c0, \"recoding: step relation 2*c' + d == c (no carry lost)\");" % (n, n, n, n, n),
        "jpv_z = (u != 0) ? %d : (jpv_z > 0 ? jpv_z - 1 : 0);" % w,
    ])
    return {1: txt, ("begin", 1): begin, ("end", 1): end}


def prelude(bits):
    return ("typedef signed __CPROVER_bitvector[%d] sv%d;\n" % (bits + 64, bits) +
            "uv%d jpv_c0; int jpv_z; int jpv_done;\n" % bits)


GHOST = lambda q: {q: [(r"^\s*int i = 0;", "after", "jpv_z = 0; jpv_done = 0;"),
                       (r"\(self\)->wnaf_size = i", "after", "jpv_done = 1;")]}


def units():
    us = []
    for bits, w, tier, to in ((64, 2, "quick", 600), (128, 4, "quick", 900), (256, 4, "quick", 1200), (512, 4, "thorough", 7200)):
        n = bits
        W = max(1, bits // 64)
        B = BI.B(n)
        q = WS(bits, w) + "::from_bigint"
        cs = {q: c_from_bigint(bits, w),
              B + "::copy<%d>" % n: BI.c_copy(n), B + "::clear": c_clear(n), B + "::is_zero": BI.c_is_zero(n), B + "::is_odd": BI.c_is_odd(n),
              B + "::subtract": c_sub_lo(n), B + "::add": c_add_lo(n), B + "::shift_right_in_word<1>": BI.c_shr1(n), B + "::compare": BI.c_compare(n)}
        repl = [k for k in cs if k != q]
        us.append(BVUnit(q, cs, P, replace=repl, unwind=12, extra=["--object-bits", "12"], loop_contracts={q: loop_contract(bits, w)}, tier=tier, timeout=to,
                         spec_prelude=prelude(bits), ghost=GHOST(q), canary=("wnaf_size <= %d" % (bits + 1), "wnaf_size <= %d" % (bits - 7)),
                         note="loop contract: invariants + decreases; ghost z (pending zero digits), ghost step relation"))
        # the callee contracts at this width (enforced in their own units)
        if bits in (64, 128, 512) or True:
            mk = lambda t, c, canary, **kw: BVUnit(B + "::" + t, {B + "::" + t: c}, ["C06", "C02"], unwind=kw.pop("unwind", W + 3), tier=tier, canary=canary, **kw)
            us.append(mk("is_zero", BI.c_is_zero(n), ("== 0)", "== 1)")))
            us.append(mk("is_odd", BI.c_is_odd(n), ("== 1)", "== 0)")))
            us.append(mk("shift_right_in_word<1>", BI.c_shr1(n), ("== OLD", "== 1 + OLD")))
            us.append(mk("copy<%d>" % n, BI.c_copy(n), ("== OLD", "!= OLD"), unwind=n // 8 + 2))
            us.append(mk("compare", BI.c_compare(n), ("== -1) ==", "== 1) ==")))
            if bits == 64:
                us.append(mk("add", c_add_lo(n), ("OLD%d(a) + OLD%d(b)" % (n, n), "OLD%d(a) + OLD%d(b) + 1" % (n, n)), strip_restrict=True))
                us.append(mk("subtract", c_sub_lo(n), ("OLD%d(a) - OLD%d(b)" % (n, n), "OLD%d(a) - OLD%d(b) - 1" % (n, n)), strip_restrict=True))
        us.append(BVUnit(B + "::clear", {B + "::clear": c_clear(n)}, ["C06", "C02"], unwind=n // 8 + 18, tier=tier, canary=("words[0] == 0", "words[0] == 1")))
    return us


# ---------------------------------------------------------------------------
# native replay: run the REAL from_bigint on a scalar taken from the verifier's counterexample (the input scalar of the
# trace, or the value of c at the failing iteration -- an arbitrary loop state with value c is reached by the scalar c itself)
def make_hook(bits, w):
    def hook(rec, unit, result, fresh, tu, wd, wit):
        import subprocess, os
        import replay as RP
        from jast import unity_source
        cands = []
        sc = wit.get("scalar")
        if isinstance(sc, dict):
            cands.append(sum(v << (64 * k) for k, v in sc.items()) % (1 << bits))
        g = rec.get("ghost_state", {})
        if "jpv_c0" in g:
            cands.append(int(g["jpv_c0"]) % (1 << bits))
        rec["candidates"] = [hex(c) for c in cands]
        for s in cands:
            nw = max(2, bits // 64)
            src = unity_source() + """
#include <stdio.h>
#include <string.h>
using namespace embedded_pairing::core; using namespace embedded_pairing::bls12_381;
int main() {
  static unsigned long long w[%d] = {%s};
  BigInt<%d> s; memset(&s, 0, sizeof s); memcpy(&s, w, %d);
  static struct { WnafScalar<%d, %d> ws; signed char slack[64]; } box; memset(&box, 0x55, sizeof box);
  box.ws.from_bigint(s);
  printf("size %%d\\n", box.ws.wnaf_size);
  int n = box.ws.wnaf_size; if (n < 0) n = 0; if (n > %d + 60) n = %d + 60;
  printf("digits"); for (int i = 0; i < n; i++) printf(" %%d", (int)((signed char*)box.ws.wnaf)[i]); printf("\\n");
  return 0; }
""" % (nw, ", ".join("0x%xULL" % ((s >> (64 * k)) & (2**64 - 1)) for k in range(nw)), bits, bits // 8, bits, w, bits, bits)
            p = os.path.join(wd, "wnaf_native.cpp")
            open(p, "w").write(src)
            exe = os.path.join(wd, "wnaf_native")
            from jast import clang_flags
            r = subprocess.run(["clang++"] + clang_flags() + ["-O1", "-w", p, "-o", exe], capture_output=True, text=True)
            if r.returncode != 0:
                rec["native_driver_error"] = r.stderr[-1500:]
                return False
            out = subprocess.run([exe], capture_output=True, text=True, timeout=60).stdout
            size = int(out.split("size")[1].split()[0])
            digits = [int(x) for x in out.split("digits")[1].split()]
            total = sum(d << j if d >= 0 else -((-d) << j) for j, d in enumerate(digits))
            bad = []
            if total != s:
                bad.append("digits sum to %s, scalar is %s" % (hex(total), hex(s)))
            if size > bits + 1:
                bad.append("wnaf_size %d exceeds the buffer of %d" % (size, bits + 1))
            if any((d != 0 and d % 2 == 0) or abs(d) >= (1 << w) for d in digits):
                bad.append("digit out of range / even")
            rec.setdefault("native_runs", []).append(dict(scalar=hex(s), wnaf_size=size, digits=digits[-8:], problems=bad))
            if bad:
                rec["confirmed_on_real_code"] = True
                rec["failing_input"] = dict(scalar=hex(s), problems=bad)
                return True
        rec["confirmed_on_real_code"] = False
        return False
    return hook


_units1 = units


def units():
    us = _units1()
    for u in us:
        m = __import__("re").match(r"WnafScalar<(\d+), (\d+)>::from_bigint", u.label)
        if m:
            u.replay_hook = make_hook(int(m.group(1)), int(m.group(2)))
    return us


_wu0 = units


def units():
    """+ the recoding loop on the portable configuration with 32-bit words (the byte / double-word views of the union differ there)"""
    from units import w32_clone
    us = _wu0()
    out = []
    for u in us:
        if u.tier == "quick" and u.target.endswith("::from_bigint"):
            c = w32_clone(u, props=("C03", "C06"))
            c.unwind = u.unwind
            import re as _re
            c.contracts = {k: (BI.c_shr1(int(_re.search(r"BigInt<(\d+)>", k).group(1)), 32) if "shift_right_in_word<1>" in k else v) for k, v in u.contracts.items()}
            # BigInt<64> occupies one 64-bit storage word without __int128 (two with it: the union holds a 128-bit double word)
            c.contracts = {k: (v.replace(" && self->words[1] == 0", "") if k == "BigInt<64>::clear" else v) for k, v in c.contracts.items()}
            out.append(c)
    return us + out
