"""C07: target-group exponentiation (src/bls12_381/fq12_cyclotomic.cpp, include/bls12_381/fq12.hpp) at the GROUP rung.

GT is written additively (exponent view): multiply = +, square_cyclotomic = *2, conjugate / inverse = negation,
frobenius_map(.,k) = multiplication by q^k = x^k (mod r).  The bit loops are cut at their head (base + inductive step for
every bit pattern and every accumulator value), Horner's rule is the paper step.  With PowersOfX::decompose
(sum c_j |x|^j == k mod r, integer-level unit) this gives a^k for every 256-bit k."""
import itertools
from poly import Poly
from symx import Interp, Leaf, Obj, Arr, Cell, Ptr, POISON, Finding, SymxError, CutDone, loops_of, locals_of, run_iteration, for_parts, loop_var
from groupdom import GroupDomain, Lin, R_ORDER
from scen import ScenUnit, guarded
from bvspec import X as BLS_X, X_ABS
import units as U
from scalarmul import mk, lin_eq, run_cut, norm, sweep, guard_after

P = ["C07"]


def gen_exp_powers(tu):
    q = "Fq12::exponentiate_gt(const Fq12 &, const PowersOfX &)"
    f = tu.func(q)
    loop = [l for l in loops_of(f) if l["kind"] == "ForStmt"][-2]
    names = locals_of(f)

    def setup(path, alias=False):
        dom, I = mk(tu, path, drop_leaf=("PowersOfX",))
        A = Lin.gen("a")
        a = I.new_object("Fq12")
        this = a if alias else I.new_object("Fq12")          # x.exponentiate_gt(x, k): used in place by callers (C18)
        a.val = A
        sc = I.new_object("PowersOfX")
        for c in sc.f["c"].items:
            c.val = 0
        return dom, I, A, this, a, sc

    def tval(e):
        """a table entry: the element itself, or the element a pointer entry refers to"""
        if hasattr(e, "val"):
            return e.val
        v = e.v if isinstance(e, Cell) else e
        return v.deref().val

    def run_base(path, alias=False):
        dom, I, A, this, a, sc = setup(path, alias)

        def cut(I_, n, env):
            init, cond, inc, body = for_parts(n)
            if init.get("kind"):
                I_.exec(init, env)
            t = env[names["t"]]
            obs = [lin_eq("base: result == 1", this.val, Lin()),
                   ("base: found_one == false", "ok" if env[names["found_one"]].v == 0 else "fail", "", None),
                   ("base: i == 63 (every digit is below |x| < 2^64)", "ok" if env[loop_var(n)].v == 63 else "fail", repr(env[loop_var(n)].v), None)]
            for j, e in enumerate(t.items):
                obs.append(lin_eq("base: t[%d] == a^(|x|^%d)" % (j, j), tval(e), A.scale(X_ABS ** j)))
            raise CutDone(obs)
        I.loop_cuts[loop["id"]] = cut
        return run_cut(I, f, this, [a, sc])
    yield "base", guarded(run_base)
    yield "base [out = a]", guarded(lambda p: run_base(p, True))

    def run_step(path, alias=False):
        dom, I, A, this, a, sc = setup(path, alias)

        def cut(I_, n, env):
            init, cond, inc, body = for_parts(n)
            if init.get("kind"):
                I_.exec(init, env)
            i0 = sweep(I_, 64, 41)
            bits = [I_.path.decide(("cut", "bit%d" % j), (0, 1)) for j in range(4)]
            f1 = I_.path.decide(("cut", "found_one"), (0, 1))
            env[loop_var(n)].v = i0
            env[names["found_one"]].v = f1
            for c, b in zip(sc.f["c"].items, bits):
                c.val = b << i0
            R = Poly.var("R") if f1 else Poly.const(0)
            this.val = A.scale(R)
            went = run_iteration(I_, n, env)
            want = A.scale(2 * R + sum(b * X_ABS ** j for j, b in enumerate(bits)))
            raise CutDone([("step: guard holds", "ok" if went else "fail", "", None),
                           lin_eq("step[bits=%s,found_one=%d]: acc' == acc^2 * prod t_j^(b_j)" % (bits, f1), this.val, want),
                           ("step: found_one'", "ok" if env[names["found_one"]].v == (1 if (f1 or any(bits)) else 0) else "fail", "", None),
                           ("step: i' == i - 1", "ok" if env[loop_var(n)].v == i0 - 1 else "fail", "", None), guard_after(I_, n, env, i0)] +
                          [lin_eq("frame: t[%d]" % j, tval(e), A.scale(X_ABS ** j)) for j, e in enumerate(env[names["t"]].items)])
        I.loop_cuts[loop["id"]] = cut
        return run_cut(I, f, this, [a, sc])
    yield "step", guarded(run_step)
    yield "step [out = a]", guarded(lambda p: run_step(p, True))


def gen_nodiv(tu):
    q = [x for x in tu.by_qname if x.startswith("Fq12::exponentiate_restrict_cyclotomic_nodiv") and tu.by_qname[x].body is not None][0]
    f = tu.func(q)
    loop = loops_of(f)[0]
    names = locals_of(f)

    def run(path):
        dom, I = mk(tu, path)
        A = Lin.gen("a")
        this, a = I.new_object("Fq12"), I.new_object("Fq12")
        a.val = A
        k = I.new_object("BigInt<256>")
        k.val = 0

        def cut(I_, n, env):
            init, cond, inc, body = for_parts(n)
            if init.get("kind"):
                I_.exec(init, env)
            mode = I_.path.decide(("cut", "mode"), ("base", "step"))
            if mode == "base":
                raise CutDone([lin_eq("base: result == 1", this.val, Lin()), ("base: found_one == false", "ok" if env[names["found_one"]].v == 0 else "fail", "", None),
                               ("base: i == 255", "ok" if env[loop_var(n)].v == 255 else "fail", repr(env[loop_var(n)].v), None)])
            i0 = sweep(I_, 256, 100)
            b = I_.path.decide(("cut", "bit"), (0, 1))
            f1 = I_.path.decide(("cut", "found_one"), (0, 1))
            env[loop_var(n)].v = i0
            env[names["found_one"]].v = f1
            k.val = b << i0
            R = Poly.var("R") if f1 else Poly.const(0)
            this.val = A.scale(R)
            went = run_iteration(I_, n, env)
            raise CutDone([("step: guard holds", "ok" if went else "fail", "", None),
                           lin_eq("step[bit=%d,found_one=%d]: acc' == acc^2 * a^bit" % (b, f1), this.val, A.scale(2 * R + b)),
                           ("step: found_one'", "ok" if env[names["found_one"]].v == (1 if (f1 or b) else 0) else "fail", "", None),
                           ("step: i' == i - 1", "ok" if env[loop_var(n)].v == i0 - 1 else "fail", "", None), guard_after(I_, n, env, i0)])
        I.loop_cuts[loop["id"]] = cut
        return run_cut(I, f, this, [a, k])
    yield "bits", guarded(run)


def gen_wrappers(tu):
    """exponentiate_gt_div / exponentiate_gt(BigInt) / exponentiate_gt_nodiv / random_gt: composition by contract"""
    def run_div(path, q, alias=False):
        dom, I = mk(tu, path)
        f = tu.func(q)
        A = Lin.gen("a")
        a = I.new_object("Fq12")
        this = a if alias else I.new_object("Fq12")
        a.val = A
        k = I.new_object("BigInt<256>")
        k.val = dom.input_scalar("k")
        I.call(f, this, [a, k], force_body=True)
        return [lin_eq("result == a^k", this.val, A.scale(Poly.var("k")))]
    for q in ("Fq12::exponentiate_gt_div", "Fq12::exponentiate_gt(const Fq12 &, const BigInt<256> &)"):
        yield q, guarded(lambda p, q=q: run_div(p, q))
        yield q + " [out = a]", guarded(lambda p, q=q: run_div(p, q, True))
    nd = [x for x in tu.by_qname if x.startswith("Fq12::exponentiate_gt_nodiv") and tu.by_qname[x].body is not None]
    for q in nd:
        def run_nd(path, q=q):
            dom, I = mk(tu, path)
            f = tu.func(q)
            this = I.new_object("Fq12")
            this.val = Lin.gen("a")          # out = a (the copy through tmp is what makes this legal)
            k = I.new_object("BigInt<256>")
            k.val = dom.input_scalar("k")
            I.call(f, this, [this, k], force_body=True)
            return [lin_eq("result == a^k with out = a", this.val, Lin.gen("a").scale(Poly.var("k")))] + [(kd, "fail", m, None) for kd, m in dom.findings]
        yield q, guarded(run_nd)

    def run_rgt(path, alias=False):
        dom, I = mk(tu, path)
        f = tu.func("Fq12::random_gt")
        B = Lin.gen("base")
        base = I.new_object("Fq12")
        this = base if alias else I.new_object("Fq12")
        base.val = B
        y = I.new_object("BigInt<256>")
        I.call(f, this, [y, base, Cell("rng")], force_body=True)
        yv = y.val
        ok = isinstance(yv, Poly) and len(yv.vars()) == 1 and yv.vars()[0].startswith("rnd#") and dom.ranges.get(yv.vars()[0]) == (0, R_ORDER)
        return [("y is the sampler's value in [0, r)", "ok" if ok else "fail", repr(yv), None), lin_eq("result == base^y", this.val, B.scale(yv if ok else Poly.var("?")))]
    yield "Fq12::random_gt", guarded(run_rgt)
    yield "Fq12::random_gt [out = base]", guarded(lambda p: run_rgt(p, True))


def units():
    lower = ["Fq12::multiply / square_cyclotomic / conjugate on GT = +, *2, - in the exponent (C04; Granger-Scott and conj = inverse on the cyclotomic subgroup: trusted)",
             "Fq12::frobenius_map(.,k) = exponentiation by q^k = x^k (mod r) on GT (trusted; q = x mod r by construction)", "PowersOfX::decompose / random: integer-level units", "Horner's rule (paper)"]
    return [ScenUnit("Fq12::exponentiate_gt(PowersOfX): four-way Horner step for every bit pattern", P + ["C18"], gen_exp_powers, targets=["Fq12::exponentiate_gt(const Fq12 &, const PowersOfX &)"], contracts_used=lower),
            ScenUnit("Fq12::exponentiate_restrict_cyclotomic_nodiv: square-and-multiply step", P, gen_nodiv, contracts_used=lower),
            ScenUnit("Fq12::exponentiate_gt_div / exponentiate_gt / exponentiate_gt_nodiv / random_gt == a^k", P + ["C10", "C18"], gen_wrappers, targets=["Fq12::exponentiate_gt_div", "Fq12::random_gt"], contracts_used=lower)]
