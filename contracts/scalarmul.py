"""C06 (algorithms): every scalar-multiplication routine returns [k]P, at the GROUP rung.

The digit-driven loops are cut at their head (DESIGN 3.5): base obligation (the state established before the loop
satisfies the invariant) and inductive step (from ANY invariant state, one iteration with ANY digit the recoding contract
allows re-establishes it).  Invariant (Horner):  acc = R*P with R arbitrary, found_one in {0,1}, not found_one => R = 0;
step: acc' = 2*R*P + (digit contribution), i' = i - 1.  The digits range over the whole set allowed by the from_bigint
contract (odd or zero, |d| < 2^w), the accumulator value R is a symbol -> unbounded in the scalar.  Horner's rule
(sum of the per-step identities) is the paper step.  Tables: table[k] = (2k+1)*P by executing the real fill_table."""
import itertools
from poly import Poly
from symx import Interp, Leaf, Obj, Arr, Cell, Ptr, POISON, Finding, SymxError, CutDone, loops_of, locals_of, run_iteration, for_parts, loop_var
from groupdom import GroupDomain, Lin, R_ORDER, G1_T, G2_T, G1A_T, G2A_T
from scen import ScenUnit, guarded
from bvspec import X as BLS_X, X_ABS
import units as U

P = ["C06"]


def digits(w):
    return [0] + [s * d for d in range(1, 1 << w, 2) for s in (1, -1)]


def raw(fn):
    fn.raw = True
    return fn


def mk(tu, path, **kw):
    dom = GroupDomain(consts=U.SHARED.get("consts"), **kw)
    I = Interp(tu, dom)
    I.path = path
    return dom, I


def lin_eq(oid, got, want):
    if isinstance(got, Lin) and (got - want).is_zero():
        return (oid, "ok", "== %r" % (want,), None)
    return (oid, "fail", "got %r, spec %r" % (got, want), None)


def run_cut(I, f, this, args):
    try:
        I.call(f, this, args, force_body=True)
    except CutDone as c:
        return c.obs
    return [("cut", "fail", "the loop under contract was never reached", None)]



def guard_after(I_, n, env, i0, last=0):
    """the loop counter is concrete control state, so EVERY index is a step case; after the iteration at index i0 the guard holds iff i0 > last"""
    init, cond, inc, body = for_parts(n)
    g = bool(I_.truth(I_.rv(I_.ev(cond, env)), n)) if cond.get("kind") else True
    return ("step: afterwards the guard holds iff another digit remains (index > %d)" % last, "ok" if g == (i0 > last) else "fail", "index %d: guard %r" % (i0, g), None)


def sweep(I_, top, rep):
    """index of the step case: all of 0 .. top-1 (away from the representative index `rep` the callers reduce the digit alphabet)"""
    return I_.path.decide(("cut", "index"), tuple(range(0, top)))

# ---------------------------------------------------------------------------
def gen_fill_table(q, npts):
    def gen(tu):
        def run(path):
            dom, I = mk(tu, path)
            f = tu.func(q)
            t = I.new_object(f.record.qname)
            base = I.new_object(norm(f.param_type(0)))
            base.val = Lin.gen("P")
            I.call(f, t, [base], force_body=True)
            return [lin_eq("table[%d] == %d*P" % (k, 2 * k + 1), t.f["table"].items[k].val, Lin.gen("P").scale(2 * k + 1)) for k in range(npts)]
        yield "any base", guarded(run)
    return gen


def norm(ts):
    import re
    return re.sub(r"(&|\b__restrict\b|\bconst\b)", "", ts).strip()


def gen_wnaf_table_multiply(q, bits, w):
    """wnaf_table_multiply(result, table, power): base + step"""
    def gen(tu):
        f = tu.func(q)
        loop = loops_of(f)[0]
        names = locals_of(f)

        def run(path):
            dom, I = mk(tu, path)
            Pg = Lin.gen("P")
            result = I.new_object(norm(f.param_type(0)))
            table = I.new_object(norm(f.param_type(1)))
            power = I.new_object(norm(f.param_type(2)))
            for k, e in enumerate(table.f["table"].items):
                e.val = Pg.scale(2 * k + 1)
            size = 9
            power.f["wnaf_size"].v = size

            def cut(I_, n, env):
                init, cond, inc, body = for_parts(n)
                if init.get("kind"):
                    I_.exec(init, env)
                mode = I_.path.decide(("cut", "mode"), ("base", "step"))
                ivar = env[loop_var(n)]
                fo = env[names["found_one"]]
                if mode == "base":
                    raise CutDone([lin_eq("base: result == O", result.val, Lin()),
                                   ("base: found_one == false", "ok" if fo.v == 0 else "fail", repr(fo.v), None),
                                   ("base: i == wnaf_size - 1", "ok" if ivar.v == size - 1 else "fail", repr(ivar.v), None)])
                i0 = sweep(I_, len(power.f["wnaf"].items), 4)
                d = I_.path.decide(("cut", "digit"), tuple(digits(w)) if i0 == 4 else (0, 1, -1))
                f1 = I_.path.decide(("cut", "found_one"), (0, 1))
                power.f["wnaf_size"].v = max(size, i0 + 1)
                ivar.v = i0
                fo.v = f1
                R = Poly.var("R") if f1 else Poly.const(0)
                result.val = Pg.scale(R)
                power.f["wnaf"].items[i0].v = d
                went = run_iteration(I_, n, env)
                obs = [("step: guard holds for i >= 0", "ok" if went else "fail", "", None),
                       lin_eq("step[d=%d,found_one=%d]: result' == 2*R*P + d*P" % (d, f1), result.val, Pg.scale(2 * R + d)),
                       ("step: found_one' == found_one or d != 0", "ok" if fo.v == (1 if (f1 or d != 0) else 0) else "fail", repr(fo.v), None),
                       ("step: i' == i - 1", "ok" if ivar.v == i0 - 1 else "fail", repr(ivar.v), None), guard_after(I_, n, env, i0)]
                for k, e in enumerate(table.f["table"].items):
                    obs.append(lin_eq("frame: table[%d] unchanged" % k, e.val, Pg.scale(2 * k + 1)))
                raise CutDone(obs)
            I.loop_cuts[loop["id"]] = cut
            return run_cut(I, f, None, [result, table, power])
        yield "digits of width %d" % w, guarded(run)
    return gen


def gen_doubleadd(q):
    def gen(tu):
        f = tu.func(q)
        loop = loops_of(f)[0]
        names = locals_of(f)

        def run(path):
            dom, I = mk(tu, path)
            Pg = Lin.gen("P")
            this = I.new_object(f.record.qname)
            base = I.new_object(norm(f.param_type(0)))
            base.val = Pg
            scalar = I.new_object(norm(f.param_type(1)))
            hb = 255
            i0 = 77

            def cut(I_, n, env):
                init, cond, inc, body = for_parts(n)
                if init.get("kind"):
                    I_.exec(init, env)
                mode = I_.path.decide(("cut", "mode"), ("base", "step"))
                ivar = env[loop_var(n)]
                if mode == "base":
                    raise CutDone([lin_eq("base: result == O", this.val, Lin()),
                                   ("base: i == highest_bit", "ok" if ivar.v == hb else "fail", repr(ivar.v), None)])
                i0 = sweep(I_, hb + 1, 77)
                b = I_.path.decide(("cut", "bit"), (0, 1))
                ivar.v = i0
                scalar.val = b << i0
                this.val = Pg.scale(Poly.var("R"))
                went = run_iteration(I_, n, env)
                raise CutDone([("step: guard holds for i >= 0", "ok" if went else "fail", "", None),
                               lin_eq("step[bit=%d]: result' == 2*R*P + bit*P" % b, this.val, Pg.scale(2 * Poly.var("R") + b)),
                               ("step: i' == i - 1", "ok" if ivar.v == i0 - 1 else "fail", repr(ivar.v), None), guard_after(I_, n, env, i0),
                               lin_eq("frame: base unchanged", base.val, Pg)])
            I.loop_cuts[loop["id"]] = cut
            scalar.val = 0
            return run_cut(I, f, this, [base, scalar, Cell(hb)])
        yield "bits", guarded(run)
    return gen


def gen_endo(tu):
    """G1::multiply_endomorphism(a, c0, c0_neg, c1, c1_neg) == (+-c0 +- lambda*c1)*a : base + step"""
    q = "G1::multiply_endomorphism(const G1 &, const BigInt<256> &, bool, const BigInt<256> &, bool)"
    f = tu.func(q)
    loop = loops_of(f)[-1]
    names = locals_of(f)
    D = digits(4) + [None]          # None: index beyond that digit string (i >= wnaf_size)
    for (n0, n1) in ((0, 0), (3, 0), (0, 4), (5, 7), (7, 5), (6, 6)):
        def run_base(path, n0=n0, n1=n1, alias=False):
            sizes = iter([n0, n1])

            @raw
            def from_bigint(I_, f_, this, args):
                this.f["wnaf_size"].v = next(sizes)
                return None
            dom, I = mk(tu, path, obj_contracts={"WnafScalar<256, 4>::from_bigint": from_bigint})
            A = Lin.gen("A")
            a = I.new_object("G1")
            this = a if alias else I.new_object("G1")         # p.multiply(p, k): the scheme code multiplies in place (C18)
            a.val = A

            def cut(I_, n, env):
                init, cond, inc, body = for_parts(n)
                if init.get("kind"):
                    I_.exec(init, env)
                wt = env[names["wt"]]
                obs = [lin_eq("base: result == O", this.val, Lin()),
                       ("base: found_one == false", "ok" if env[names["found_one"]].v == 0 else "fail", "", None),
                       ("base: i == max(size0, size1) - 1", "ok" if env[loop_var(n)].v == max(n0, n1) - 1 else "fail", repr(env[loop_var(n)].v), None)]
                for k, e in enumerate(wt.f["table"].items):
                    obs.append(lin_eq("base: table[%d] == %d*A" % (k, 2 * k + 1), e.val, A.scale(2 * k + 1)))
                raise CutDone(obs)
            I.loop_cuts[loop["id"]] = cut
            c0, c1 = I.new_object("BigInt<256>"), I.new_object("BigInt<256>")
            c0.val, c1.val = Poly.var("c0"), Poly.var("c1")
            return run_cut(I, f, this, [a, c0, Cell(0), c1, Cell(1)])
        yield "base sizes=(%d,%d)" % (n0, n1), guarded(run_base)
        if (n0, n1) in ((0, 0), (5, 7)):
            yield "base sizes=(%d,%d) [out = a]" % (n0, n1), guarded(lambda p, rb=run_base: rb(p, alias=True))

    def run_step(path, alias=False):
        @raw
        def from_bigint(I_, f_, this, args):
            this.f["wnaf_size"].v = 9
            return None
        dom, I = mk(tu, path, obj_contracts={"WnafScalar<256, 4>::from_bigint": from_bigint})
        lam = dom.consts.value("g1_endomorphism_lambda")
        A = Lin.gen("A")
        a = I.new_object("G1")
        this = a if alias else I.new_object("G1")
        a.val = A
        neg0 = I.path.decide(("arg", "c0_neg"), (0, 1))
        neg1 = I.path.decide(("arg", "c1_neg"), (0, 1))

        def cut(I_, n, env):
            init, cond, inc, body = for_parts(n)
            if init.get("kind"):
                I_.exec(init, env)
            i0 = sweep(I_, len(env[names["wc0"]].f["wnaf"].items), 4)
            if i0 == 4:
                d0 = I_.path.decide(("cut", "d0"), tuple(D))
                d1 = I_.path.decide(("cut", "d1"), tuple(D))
            else:
                d0, d1 = I_.path.decide(("cut", "digit pair"), ((1, -3), (None, 1), (-3, None)))
            f1 = I_.path.decide(("cut", "found_one"), (0, 1))
            env[loop_var(n)].v = i0
            env[names["found_one"]].v = f1
            for nm, d in (("wc0", d0), ("wc1", d1)):
                ws = env[names[nm]]
                if d is None:
                    ws.f["wnaf_size"].v = i0          # i >= wnaf_size: no digit at this position
                else:
                    ws.f["wnaf_size"].v = i0 + 3
                    ws.f["wnaf"].items[i0].v = d
            R = Poly.var("R") if f1 else Poly.const(0)
            this.val = A.scale(R)
            went = run_iteration(I_, n, env)
            v0, v1 = (d0 or 0), (d1 or 0)
            want = A.scale(2 * R + (-v0 if neg0 else v0) + (-v1 if neg1 else v1) * lam)
            raise CutDone([("step: guard holds", "ok" if went else "fail", "", None),
                           lin_eq("step[d0=%s,d1=%s,neg=(%d,%d),found_one=%d]: acc' == 2*acc + (+-d0 +- lambda*d1)*A" % (d0, d1, neg0, neg1, f1), this.val, want),
                           ("step: found_one'", "ok" if env[names["found_one"]].v == (1 if (f1 or v0 or v1) else 0) else "fail", "", None),
                           ("step: i' == i - 1", "ok" if env[loop_var(n)].v == i0 - 1 else "fail", "", None), guard_after(I_, n, env, i0)] +
                          [lin_eq("frame: table[%d]" % k, e.val, A.scale(2 * k + 1)) for k, e in enumerate(env[names["wt"]].f["table"].items)])
        I.loop_cuts[loop["id"]] = cut
        c0, c1 = I.new_object("BigInt<256>"), I.new_object("BigInt<256>")
        c0.val, c1.val = Poly.var("c0"), Poly.var("c1")
        return run_cut(I, f, this, [a, c0, Cell(neg0), c1, Cell(neg1)])
    yield "step", guarded(run_step)


def gen_frob(tu):
    """G2::multiply_frobenius(a, PowersOfX) == (c0 + c1|x| + c2|x|^2 + c3|x|^3)*a : base + step"""
    q = "G2::multiply_frobenius(const G2 &, const PowersOfX &)"
    f = tu.func(q)
    loop = [l for l in loops_of(f) if l["kind"] == "ForStmt"][-2]     # the outer digit loop (the last loop is its inner j loop)
    names = locals_of(f)
    D = digits(2) + [None]

    def setup(path, alias=False):
        @raw
        def from_bigint(I_, f_, this, args):
            this.f["wnaf_size"].v = 9
            return None
        dom, I = mk(tu, path, obj_contracts={"WnafScalar<64, 2>::from_bigint": from_bigint}, drop_leaf=("PowersOfX",))
        A = Lin.gen("A")
        a = I.new_object("G2")
        this = a if alias else I.new_object("G2")
        a.val = A
        sc = I.new_object("PowersOfX")
        for k, c in enumerate(sc.f["c"].items):
            c.val = Poly.var("c%d" % k)
        return dom, I, A, this, a, sc

    def run_base(path, alias=False):
        dom, I, A, this, a, sc = setup(path, alias)

        def cut(I_, n, env):
            init, cond, inc, body = for_parts(n)
            if init.get("kind"):
                I_.exec(init, env)
            obs = [lin_eq("base: result == O", this.val, Lin()),
                   ("base: found_one == false", "ok" if env[names["found_one"]].v == 0 else "fail", "", None),
                   ("base: i == 64 (digit buffer of 65 entries)", "ok" if env[loop_var(n)].v == 64 else "fail", repr(env[loop_var(n)].v), None)]
            wt = env[names["wt"]]
            for j, tb in enumerate(wt.items):
                for k, e in enumerate(tb.f["table"].items):
                    obs.append(lin_eq("base: wt[%d].table[%d] == %d*|x|^%d*A" % (j, k, 2 * k + 1, j), e.val, A.scale((2 * k + 1) * X_ABS ** j)))
            raise CutDone(obs)
        I.loop_cuts[loop["id"]] = cut
        return run_cut(I, f, this, [a, sc])
    yield "base", guarded(run_base)
    yield "base [out = a]", guarded(lambda p: run_base(p, True))

    def run_step(path):
        dom, I, A, this, a, sc = setup(path)

        def cut(I_, n, env):
            init, cond, inc, body = for_parts(n)
            if init.get("kind"):
                I_.exec(init, env)
            i0 = sweep(I_, len(env[names["wb"]].items[0].f["wnaf"].items), 4)
            ds = [I_.path.decide(("cut", "d%d" % j), tuple(D) if i0 == 4 else ((1, None) if j < 2 else (-1, None))) for j in range(4)]
            f1 = I_.path.decide(("cut", "found_one"), (0, 1))
            env[loop_var(n)].v = i0
            env[names["found_one"]].v = f1
            wb = env[names["wb"]]
            for j, d in enumerate(ds):
                ws = wb.items[j]
                if d is None:
                    ws.f["wnaf_size"].v = i0
                else:
                    ws.f["wnaf_size"].v = i0 + 3
                    ws.f["wnaf"].items[i0].v = d
            R = Poly.var("R") if f1 else Poly.const(0)
            this.val = A.scale(R)
            went = run_iteration(I_, n, env)
            want = A.scale(2 * R + sum((d or 0) * X_ABS ** j for j, d in enumerate(ds)))
            raise CutDone([("step: guard holds", "ok" if went else "fail", "", None),
                           lin_eq("step[d=%s,found_one=%d]: acc' == 2*acc + sum d_j |x|^j A" % (ds, f1), this.val, want),
                           ("step: found_one'", "ok" if env[names["found_one"]].v == (1 if (f1 or any(ds)) else 0) else "fail", "", None),
                           ("step: i' == i - 1", "ok" if env[loop_var(n)].v == i0 - 1 else "fail", "", None), guard_after(I_, n, env, i0)])
        I.loop_cuts[loop["id"]] = cut
        return run_cut(I, f, this, [a, sc])
    yield "step", guarded(run_step)


def units():
    lower = ["Projective::add / multiply2 / negate / copy / set = group law (C05)", "WnafScalar::from_bigint: digits odd or zero, |d| < 2^w, sum d_j 2^j = scalar, size <= bits+1 (C06 recoding, BV)",
             "G1::endomorphism = [lambda] on the order-r subgroup (trusted: CM theory; beta^3 = 1, lambda^2+lambda+1 = 0 mod r: CONST)",
             "G2::frobenius_map(.,1) = [q] = [x] on G2 (trusted; q = x mod r: CONST)", "Horner's rule: the sum of the per-step identities (paper)"]
    us = []
    for q, npts in (("WnafTable<G1, 4>::fill_table", 8), ("WnafTable<G2, 2>::fill_table", 2), ("WnafTable<Projective<Fq>, 4>::fill_table", 8), ("WnafTable<Projective<Fq2>, 4>::fill_table", 8)):
        us.append(ScenUnit(q + ": table[k] == (2k+1)*P", P, gen_fill_table(q, npts), targets=[q], contracts_used=lower))
    for q, bits in (("wnaf_table_multiply<Projective<Fq>,128,4>", 128), ("wnaf_table_multiply<Projective<Fq>,256,4>", 256),
                    ("wnaf_table_multiply<Projective<Fq2>,256,4>", 256), ("wnaf_table_multiply<Projective<Fq2>,512,4>", 512)):
        us.append(ScenUnit(q + ": Horner step for every digit", P, gen_wnaf_table_multiply(q, bits, 4), targets=[q], contracts_used=lower))
    us.append(ScenUnit("G1::multiply_endomorphism(c0,c1): interleaved Horner step for every digit pair", P + ["C18"], gen_endo, max_paths=20000,
                       targets=["G1::multiply_endomorphism(const G1 &, const BigInt<256> &, bool, const BigInt<256> &, bool)"], contracts_used=lower))
    us.append(ScenUnit("G2::multiply_frobenius(PowersOfX): four-way Horner step for every digit tuple", P + ["C18"], gen_frob, max_paths=20000,
                       targets=["G2::multiply_frobenius(const G2 &, const PowersOfX &)"], contracts_used=lower))
    return us


# ---------------------------------------------------------------------------
# static dispatch by scalar width, and the ghost precondition "base in the order-r subgroup" of the eigenvalue methods
class DispatchDomain(GroupDomain):
    """generators named E:* are arbitrary curve points (possibly outside the order-r subgroup): the eigenvalue-based
    routines (endomorphism / Frobenius) must never see them"""
    EIGEN = ("multiply_endomorphism", "multiply_frobenius", "endomorphism", "frobenius_map")

    def __init__(self, **kw):
        GroupDomain.__init__(self, extra_leaf=("Fq", "Fq2"), **kw)
        self.algos = []

    def contract_for(self, I, f, this, args):
        if isinstance(this, Leaf) and self.is_group(this.type) and this.type != "Fq12":
            if f.name in ("multiply", "multiply_wnaf", "multiply_doubleadd", "random_generator") or (f.name in ("multiply_endomorphism", "multiply_frobenius") and len(args) == 2 and isinstance(args[1], Leaf) and args[1].type == "BigInt<256>"):
                return None                      # execute the real body: these only select / prepare an algorithm
        if this is None and f.name in ("wnaf_multiply", "decompose_lambda", "sample_random_generator"):
            if f.name == "sample_random_generator":
                return None
            return self.algo
        return GroupDomain.contract_for(self, I, f, this, args)

    def algo(self, I, f, this, args):
        if f.name == "wnaf_multiply":
            self.algos.append("wnaf")
            args[0].val = self.gval(args[1]).scale(self.sval(args[2]))
            return None
        if f.name == "decompose_lambda":
            c0, c0n, c1, c1n, k = args
            lam = self.consts.value("g1_endomorphism_lambda")
            s0 = I.path.decide(("decompose_lambda", "c0_neg"), (0, 1))
            s1 = I.path.decide(("decompose_lambda", "c1_neg"), (0, 1))
            kk = self.sval(k)
            v1 = self.fresh_scalar("c1", 0, 1 << 256)
            c1.val = v1
            # contract (BV/LIA, proved separately): (+-c0) + (+-c1)*lambda == k (mod r)
            c0.val = (-1 if s0 else 1) * (Poly.const(0) + kk - (-1 if s1 else 1) * v1 * lam)
            c0n.v, c1n.v = s0, s1
            return None
        raise SymxError(f.qname)

    def method(self, I, f, this, args):
        n = f.name
        if self.is_group(this.type) and n in self.EIGEN:
            base = args[0] if n != "endomorphism" or args else this
            bad = [g for g in self.gval(args[0]).t if g.startswith("E:")]
            if bad:
                self.findings.append(("precondition", "%s applied to a point that is not known to lie in the order-r subgroup (%s)" % (f.qname, bad)))
            self.algos.append(n)
            if n == "multiply_endomorphism" and len(args) == 5:
                c0, n0, c1, n1 = self.sval(args[1]), I.rv(args[2]), self.sval(args[3]), I.rv(args[4])
                lam = self.consts.value("g1_endomorphism_lambda")
                this.val = self.gval(args[0]).scale((-1 if n0 else 1) * (Poly.const(0) + c0) + (-1 if n1 else 1) * (Poly.const(0) + c1) * lam)
                return None
        if this.type in ("Fq", "Fq2"):
            if n == "random":
                this.val = self.fresh_scalar("x", 0, 1 << 381)
                return None
            raise SymxError("field operation %s in the dispatch view" % f.qname)
        if self.is_group(this.type) and n == "get_point_from_x":
            self.tries = getattr(self, "tries", 0) + 1
            # rejection loop: the first two candidates may be rejected; termination of the retry loop is not verified
            ok = I.path.decide(("get_point_from_x", "found"), (1, 0)) if self.tries <= 2 else 1
            if ok:
                this.val = Lin.gen("E:random")
            return ok
        if self.is_group(this.type) and n == "from_hash":
            this.val = Lin.gen("E:H(hash)")
            return None
        return GroupDomain.method(self, I, f, this, args)

    def call_pointer(self, I, fp, args):
        if fp == "rng":
            dst = args[0]
            bit = I.path.decide(("rng", "byte&1"), (0, 1)) if getattr(self, "tries", 0) == 0 else 0
            tgt = dst.deref() if isinstance(dst, Ptr) else dst
            tgt.v = bit
            return None
        return GroupDomain.call_pointer(self, I, fp, args)


def gen_dispatch(tu):
    table = [("G1::multiply(const G1 &, const BigInt<256> &)", "G1", "P", ["multiply_endomorphism"]),
             ("G1::multiply(const G1Affine &, const BigInt<256> &)", "G1", "P", ["multiply_endomorphism"]),
             ("G1::multiply(const G1Affine &, const BigInt<128> &)", "G1", "E:P", ["wnaf"]),
             ("G2::multiply(const G2 &, const BigInt<256> &)", "G2", "P", ["multiply_frobenius"]),
             ("G2::multiply(const G2Affine &, const BigInt<256> &)", "G2", "P", ["multiply_frobenius"]),
             ("G2::multiply(const G2Affine &, const BigInt<512> &)", "G2", "E:P", ["wnaf"]),
             ("Projective<Fq>::multiply_wnaf<G1Affine,BigInt<128>,4>", "G1", "E:P", ["wnaf"]),
             ("Projective<Fq>::multiply_wnaf<G1Affine,BigInt<256>,4>", "G1", "E:P", ["wnaf"]),
             ("Projective<Fq2>::multiply_wnaf<G2Affine,BigInt<256>,4>", "G2", "E:P", ["wnaf"]),
             ("Projective<Fq2>::multiply_wnaf<G2Affine,BigInt<512>,4>", "G2", "E:P", ["wnaf"]),
             ("G1::multiply_endomorphism(const G1 &, const BigInt<256> &)", "G1", "P", ["multiply_endomorphism"]),
             ("G2::multiply_frobenius(const G2 &, const BigInt<256> &)", "G2", "P", ["multiply_frobenius"])]
    for (q, G, gen, algos) in table:
        def run(path, q=q, G=G, gen=gen, algos=algos):
            dom = DispatchDomain(consts=U.SHARED.get("consts"))
            I = Interp(tu, dom)
            I.path = path
            f = tu.func(q)
            this = I.new_object(G)
            base = I.new_object(norm(f.param_type(0)))
            Pg = Lin.gen(gen)
            base.val = Pg
            k = I.new_object(norm(f.param_type(1)))
            k.val = dom.input_scalar("k")
            I.call(f, this, [base, k], force_body=True)
            obs = [lin_eq("result == k*P", this.val, Pg.scale(Poly.var("k"))),
                   ("algorithm bound to this overload is %s" % algos, "ok" if [a for a in dom.algos if a in ("wnaf", "multiply_endomorphism", "multiply_frobenius")][:1] == algos else "fail", repr(dom.algos), None)]
            for (kind, msg) in dom.findings:
                obs.append((kind, "fail", msg, None))
            if not dom.findings:
                obs.append(("eigenvalue routines only on subgroup points", "ok", "", None))
            return obs
        yield q, guarded(run)

    def run_id(path):
        dom = DispatchDomain(consts=U.SHARED.get("consts"))
        I = Interp(tu, dom)
        I.path = path
        f = tu.func("lqibe::compute_id_from_hash")
        h = I.new_object("lqibe::IDHash")
        for c in h.f["hash"].items:
            c.v = 0
        idv = I.new_object("lqibe::ID")
        I.call(f, None, [idv, h])
        obs = [lin_eq("id == cofactor * hash point", idv.f["q"].val, Lin.gen("E:H(hash)").scale(dom.consts.value("G1Affine::cofactor")))]
        obs += [(k, "fail", m, None) for k, m in dom.findings] or [("cofactor clearing uses the 128-bit (wNAF) path", "ok" if dom.algos[:1] == ["wnaf"] else "fail", repr(dom.algos), None)]
        return obs
    yield "lqibe::compute_id_from_hash", guarded(run_id)

    for (q, G, cof) in (("G1::random_generator", "G1", "G1Affine::cofactor"), ("G2::random_generator", "G2", "G2Affine::cofactor")):
        def run_rg(path, q=q, G=G, cof=cof):
            dom = DispatchDomain(consts=U.SHARED.get("consts"))
            I = Interp(tu, dom)
            I.path = path
            f = tu.func(q)
            this = I.new_object(G)
            I.call(f, this, [Cell("rng")], force_body=True)
            obs = [lin_eq("result == cofactor * (random curve point)", this.val, Lin.gen("E:random").scale(dom.consts.value(cof))),
                   ("result is not the identity (loop exit)", "ok" if isinstance(this.val, Lin) and not this.val.is_zero() else "fail", "", None)]
            obs += [(k, "fail", m, None) for k, m in dom.findings] or [("cofactor multiplication uses the wNAF path", "ok" if "wnaf" in dom.algos else "fail", repr(dom.algos), None)]
            return obs
        yield q, guarded(run_rg)


def gen_wnaf_multiply(q):
    """wnaf_multiply = fill_table ; from_bigint ; wnaf_table_multiply, callees by contract"""
    def gen(tu):
        f = tu.func(q)

        def run(path):
            state = {}

            @raw
            def fill_table(I_, f_, this, args):
                state["base"] = I_.dom.gval(args[0])
                for k, e in enumerate(this.f["table"].items):
                    e.val = state["base"].scale(2 * k + 1)

            @raw
            def from_bigint(I_, f_, this, args):
                state["k"] = I_.dom.sval(args[0])
                this.f["wnaf_size"].v = ("digits-of", state["k"])

            @raw
            def table_multiply(I_, f_, this, args):
                res, table, power = args
                tag = power.f["wnaf_size"].v
                b0 = table.f["table"].items[0].val
                ok = all(isinstance(e.val, Lin) and (e.val - b0.scale(2 * k + 1)).is_zero() for k, e in enumerate(table.f["table"].items))
                if not (isinstance(tag, tuple) and tag[0] == "digits-of" and ok):
                    raise Finding("precondition", "wnaf_table_multiply called without a filled table / recoded scalar")
                res.val = b0.scale(tag[1])
            oc = {}
            for nm, r in tu.records.items():
                if nm.startswith("WnafTable<"):
                    oc[nm + "::fill_table"] = fill_table
                if nm.startswith("WnafScalar<"):
                    oc[nm + "::from_bigint"] = from_bigint
            for fq in tu.by_qname:
                if fq.startswith("wnaf_table_multiply<"):
                    oc[fq] = table_multiply
            dom, I = mk(tu, path, obj_contracts=oc)
            res = I.new_object(norm(f.param_type(0)))
            a = I.new_object(norm(f.param_type(1)))
            a.val = Lin.gen("P")
            k = I.new_object(norm(f.param_type(2)))
            k.val = Poly.var("k")
            I.call(f, None, [res, a, k], force_body=True)
            return [lin_eq("result == k*P", res.val, Lin.gen("P").scale(Poly.var("k")))]
        yield "composition", guarded(run)
    return gen


_u0 = units


def units():
    us = _u0()
    lower = ["from_bigint / fill_table / wnaf_table_multiply contracts (their own units)", "decompose_lambda: (+-c0) + (+-c1)*lambda == k (mod r)  (BV + LIA unit)", "PowersOfX::decompose: sum c_j |x|^j == y (mod r) (BV unit)"]
    for q in [x for x in ("Projective<Fq>::multiply_doubleadd_restrict(const G1 &__restrict, const BigInt<256> &__restrict, int)",
                          "Projective<Fq>::multiply_doubleadd_restrict(const G1Affine &__restrict, const BigInt<256> &__restrict, int)",
                          "Projective<Fq>::multiply_doubleadd_restrict(const Affine<Fq, Fr, g1_b_coeff_var> &__restrict, const BigInt<256> &__restrict, int)",
                          "Projective<Fq2>::multiply_doubleadd_restrict(const G2 &__restrict, const BigInt<256> &__restrict, int)",
                          "Projective<Fq2>::multiply_doubleadd_restrict(const G2Affine &__restrict, const BigInt<256> &__restrict, int)",
                          "Projective<Fq2>::multiply_doubleadd_restrict(const Affine<Fq2, Fr, g2_b_coeff_var> &__restrict, const BigInt<256> &__restrict, int)")]:
        us.append(ScenUnit(q.split("(")[0] + "(" + q.split("(")[1].split(" ")[1] + "): double-and-add step", P + ["C09"], gen_doubleadd(q), targets=[q], contracts_used=["Projective::add / multiply2 = group law (C05)", "BigInt::bit"]))
    for q in ("wnaf_multiply<Projective<Fq>,G1Affine,128,4>", "wnaf_multiply<Projective<Fq>,G1Affine,256,4>", "wnaf_multiply<Projective<Fq2>,G2Affine,256,4>", "wnaf_multiply<Projective<Fq2>,G2Affine,512,4>"):
        us.append(ScenUnit(q + " == [k]P", P, gen_wnaf_multiply(q), targets=[q], contracts_used=lower))
    us.append(ScenUnit("scalar multiplication: static dispatch by width, eigenvalue routines only on subgroup points", P + ["C10"], gen_dispatch,
                       targets=["G1::multiply(const G1Affine &, const BigInt<128> &)", "G2::multiply(const G2Affine &, const BigInt<512> &)", "G1::multiply_endomorphism(const G1 &, const BigInt<256> &)",
                                "G2::multiply_frobenius(const G2 &, const BigInt<256> &)", "lqibe::compute_id_from_hash", "G1::random_generator", "G2::random_generator"], contracts_used=lower))
    return us
