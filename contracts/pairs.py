"""C08 (pairing products of ANY length): miller_loop's per-pair loops under CBMC loop contracts, the numbers of plain and prepared pairs symbolic.

The GROUP units (contracts/pairing_c.py) decide WHAT a product computes, for lists of at most 2 + 2 pairs (3 + 3 thorough; one 66-pair list as a
bounded extra).  Here the list lengths are unbounded and one ghost pair of each kind (positions t and u, nondeterministic constants) is followed:

    ensures   t < num_affine_pairs   ==>  the accumulator affine_pairs[t].r went through exactly D doubling steps and A addition steps if the pair is
                                          live (neither member the identity) and through none otherwise; every addition step was given the pair's own g2
              u < num_prepared_pairs ==>  prepared_pairs[u].coeff_idx == D + A if the pair is live, 0 otherwise (stale cursor values are reset)
    with D = (index of the top set bit of |x|), A = (number of set bits below it) -- 63 and 5, computed from the reference parameter, not from the code.

So no pair of either kind is dropped, duplicated or served out of step, whatever the list lengths.  Loop contracts: the two set-up loops, the
bit loop (invariant: steps so far == (top-1-i) doublings + popcount of the bits above i additions, by a constant table generated from the reference
|x|), and the six per-pair loops (invariant: the ghost pair has received its one step iff its index is below j; __CPROVER_loop_entry for the values at
loop entry).  Identity tests are an uninterpreted function of the member pointer (the members themselves are never dereferenced here), the step
functions and `ell` are ghost recorders keyed by the address of the pair's own accumulator; field operations are no-ops.  Memory safety of this
function is NOT claimed by this unit (CBMC's pointer checks are off: the members are abstract)."""
from bvspec import *
from units import BVUnit

P = ["C08", "C01"]
Q_ML = "miller_loop(Fq12 &, AffinePair *, unsigned long, PreparedPair *, unsigned long)"
TOP = X_ABS.bit_length() - 1                      # 63
D_STEPS = TOP                                     # doubling steps: bits TOP-1 .. 0
A_STEPS = bin(X_ABS).count("1") - 1               # addition steps: set bits below the top one (bit 0 is clear)
assert X_ABS & 1 == 0
# PC[i] = number of set bits of |x| in positions i+1 .. TOP-1
PC = [sum(1 for k in range(i + 1, TOP) if (X_ABS >> k) & 1) for i in range(TOP)]

PRELUDE = ("const AffinePair *jpv_ap; size_t jpv_t, jpv_u; size_t jpv_D, jpv_A; _Bool jpv_live_t, jpv_live_u, jpv_q_ok;\n"
           "const void *jpv_tg1, *jpv_tg2, *jpv_ug1, *jpv_ug2;\n"
           "__CPROVER_bool __CPROVER_uninterpreted_jpv_is_identity(const void *);\n"
           "static const unsigned char jpv_pc[%d] = {%s};\n" % (TOP, ", ".join(map(str, PC))))
HAVOC = "  { size_t jpv_n1, jpv_n2; jpv_t = jpv_n1; jpv_u = jpv_n2; }\n"

IS_ZERO = "{ return __CPROVER_uninterpreted_jpv_is_identity((const void *)self); }"
STUBS = {
    "Affine<Fq, Fr, g1_b_coeff_var>::is_zero": IS_ZERO, "Affine<Fq2, Fr, g2_b_coeff_var>::is_zero": IS_ZERO, "G2Prepared::is_zero": IS_ZERO,
    "Projective<Fq2>::from_affine": "{ }", "ell": "{ }", "Fq12::copy": "{ }", "Fq12::square": "{ }", "Fq12::conjugate": "{ }",
    "miller_doubling_step": "{ if ((const void *)$1 == (const void *)&jpv_ap[jpv_t].r) jpv_D++; }",
    "miller_addition_step": "{ if ((const void *)$1 == (const void *)&jpv_ap[jpv_t].r) { jpv_A++; if ((const void *)$2 != jpv_tg2) jpv_q_ok = 0; } }",
}

LIVE = lambda a, b: "(!__CPROVER_uninterpreted_jpv_is_identity(%s) && !__CPROVER_uninterpreted_jpv_is_identity(%s))" % (a, b)
PIN_T = "(jpv_t < num_affine_pairs) ==> ((const void *)affine_pairs[jpv_t].g1 == jpv_tg1 && (const void *)affine_pairs[jpv_t].g2 == jpv_tg2)"
PIN_U = "(jpv_u < num_prepared_pairs) ==> ((const void *)prepared_pairs[jpv_u].g1 == jpv_ug1 && (const void *)prepared_pairs[jpv_u].g2 == jpv_ug2)"


def contract(mode):
    pre = [fresh("result"), "num_affine_pairs <= ((size_t)1 << 40)", "num_prepared_pairs <= ((size_t)1 << 40)",
           "__CPROVER_is_fresh(affine_pairs, num_affine_pairs * sizeof(*affine_pairs))", "__CPROVER_is_fresh(prepared_pairs, num_prepared_pairs * sizeof(*prepared_pairs))",
           "jpv_ap == affine_pairs", "jpv_D == 0 && jpv_A == 0 && jpv_q_ok == 1",
           "jpv_t <= ((size_t)1 << 41)"]        # ghost position: no wrap in &array[position]
    if mode == "affine":
        pre += [PIN_T, "jpv_live_t == %s" % LIVE("jpv_tg1", "jpv_tg2")]
        post = ["(jpv_t < num_affine_pairs) ==> (jpv_D == (jpv_live_t ? (size_t)%d : (size_t)0) && jpv_A == (jpv_live_t ? (size_t)%d : (size_t)0) && jpv_q_ok)" % (D_STEPS, A_STEPS)]
    else:
        pre += ["jpv_u < num_prepared_pairs", PIN_U, "jpv_live_u == %s" % LIVE("jpv_ug1", "jpv_ug2")]
        post = ["prepared_pairs[jpv_u].coeff_idx == (jpv_live_u ? (size_t)%d : (size_t)0)" % (D_STEPS + A_STEPS)]
    return req(*pre) + assigns("*result", "__CPROVER_object_whole(affine_pairs)", "__CPROVER_object_whole(prepared_pairs)", "jpv_D", "jpv_A", "jpv_q_ok") + ens(*post)


def loops(mode):
    inv = lambda *xs: "".join("__CPROVER_loop_invariant(%s)\n" % x for x in xs)
    one = lambda who, j: "((%s < %s && jpv_live_%s) ? (size_t)1 : (size_t)0)" % ("jpv_" + who, j, who)
    A, L = (mode == "affine"), {}
    L[1] = "__CPROVER_assigns(j)\n" + inv("j <= num_affine_pairs") + "__CPROVER_decreases(num_affine_pairs - j)\n"
    L[2] = ("__CPROVER_assigns(j, __CPROVER_object_whole(prepared_pairs))\n" + inv("j <= num_prepared_pairs", *([] if A else [PIN_U, "(jpv_u < j) ==> prepared_pairs[jpv_u].coeff_idx == 0"])) +
            "__CPROVER_decreases(num_prepared_pairs - j)\n")
    bit = ["i <= %d" % (TOP - 1)]
    if A:
        bit += ["jpv_q_ok", "(jpv_t < num_affine_pairs) ==> (jpv_D == (jpv_live_t ? (size_t)(%d - i) : (size_t)0) && jpv_A == (jpv_live_t ? (size_t)jpv_pc[i] : (size_t)0))" % (TOP - 1)]
    else:
        bit += [PIN_U, "prepared_pairs[jpv_u].coeff_idx == (jpv_live_u ? (size_t)(%d - i) + (size_t)jpv_pc[i] : (size_t)0)" % (TOP - 1)]
    L[3] = "__CPROVER_assigns(i, jpv_D, jpv_A, jpv_q_ok, __CPROVER_object_whole(prepared_pairs))\n" + inv(*bit) + "__CPROVER_decreases(i)\n"

    def aff(ctr):
        other = "jpv_A" if ctr == "jpv_D" else "jpv_D"
        xs = ["j <= num_affine_pairs"] + (["jpv_q_ok", "%s == __CPROVER_loop_entry(%s) + %s" % (ctr, ctr, one("t", "j")), "%s == __CPROVER_loop_entry(%s)" % (other, other)] if A else [])
        return "__CPROVER_assigns(j, jpv_D, jpv_A, jpv_q_ok)\n" + inv(*xs) + "__CPROVER_decreases(num_affine_pairs - j)\n"
    prep = ("__CPROVER_assigns(j, __CPROVER_object_whole(prepared_pairs))\n" +
            inv("j <= num_prepared_pairs", *([] if A else [PIN_U, "prepared_pairs[jpv_u].coeff_idx == __CPROVER_loop_entry(prepared_pairs[jpv_u].coeff_idx) + %s" % one("u", "j")])) +
            "__CPROVER_decreases(num_prepared_pairs - j)\n")
    L[4], L[5], L[6], L[7], L[8], L[9] = aff("jpv_D"), prep, aff("jpv_A"), prep, aff("jpv_D"), prep
    return L


def units():
    us = []
    for mode in ("affine", "prepared"):
        can = ("(size_t)%d : (size_t)0) && jpv_A" % D_STEPS, "(size_t)%d : (size_t)0) && jpv_A" % (D_STEPS + 1)) if mode == "affine" else ("(size_t)%d : (size_t)0)" % (D_STEPS + A_STEPS), "(size_t)%d : (size_t)0)" % (D_STEPS + A_STEPS + 1))
        u = BVUnit(Q_ML, {Q_ML: contract(mode)}, P, bodies=["BigInt<64>::bit"], unwind=12, loop_contracts={Q_ML: loops(mode)}, timeout=2400, tier="thorough", spec_prelude=PRELUDE, checks=False,
                   label="miller_loop, products of ANY length: " + ("every plain pair gets exactly its %d doubling and %d addition steps" % (D_STEPS, A_STEPS) if mode == "affine" else "every prepared pair consumes exactly its %d coefficients" % (D_STEPS + A_STEPS)) + " (loop contracts)",
                   extra=["--object-bits", "11"], canary=can,
                   note="list lengths symbolic; one ghost pair; identity tests uninterpreted in the member pointer; step functions are ghost recorders (trusted stubs); CBMC's pointer checks off (members abstract)")
        u.stub_factory = (lambda tu: dict(STUBS))
        u.harness_pre = HAVOC
        u.no_witness = True
        us.append(u)
    return us
