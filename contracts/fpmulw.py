"""C02 (multiplicative layer, portable C++): multi-precision multiply / square and the Montgomery product, word for word.

WORD back end (tools/worddom.py): the real bodies (clang AST) are executed with every machine word an exact integer polynomial in the
input words and carry symbols; loops run to completion (trip counts are the word counts of the types).  Decided statements:

  BigInt<2n>::multiply<n>(a, b), BigInt<2n>::square(a)
      ensures   VAL(self) == VAL(a) * VAL(b)          exact polynomial identity, all 2^(64*2n) operand pairs
  Fp::multiply(a, b), Fp::square(a), Fp::montgomery_reduce(t)      [Fq and Fr instances; p, inv are the library's constants]
      Let T be the value handed to FpBase::reduce plus the final meta_carry * 2^bits.  Then
        (i)   T * R == A * B + U * p     exact polynomial identity, with U = sum u_i 2^(64 i), u_i the per-row multipliers, each < 2^64
        (ii)  A, B < p (precondition), U < R, p < R / 2  ==>  T < 2p < 2^bits       (monotone bound on non-negative integers, closed arithmetic)
              hence the dropped meta_carry is 0 and reduce's precondition (argument < 2p) holds
        (iii) FpBase::reduce: result == T mod p, result < p            (its own BV contract, contracts/fp.py)
      so result * R == A * B (mod p) and result < p: the Montgomery product, canonical.
Nothing is assumed about the words beyond 0 <= word < 2^64; the only non-polynomial step is (ii), spelled out above."""
import re
from poly import Poly
from symx import Interp, Leaf, Obj, Cell, POISON, SymxError
from worddom import WordDomain, WVal, wv
from scen import ScenUnit, guarded, Abandon
import units as U
import bvspec

P = ["C02"]
MODS = {"Fq": (384, bvspec.Q), "Fr": (256, bvspec.R)}
FQN = {"Fq": "Fp<384, fq_modulus_var, fq_R_var, fq_R2_var, fq_inv_var>", "Fr": "Fp<256, fr_modulus_var, fr_R_var, fr_R2_var, fr_inv_var>"}


def chk(what, ok, msg=""):
    return (what, "ok" if ok else "fail", "" if ok else msg, None)


def carry_sum(p):
    """p is a sum, with positive integer coefficients, of carry symbols (each a non-negative program value)"""
    return all(len(m) == 1 and m[0][1] == 1 and m[0][0].startswith("c#") and c > 0 for m, c in p.t.items())


def big_instances(tu, name):
    out = []
    for q, f in sorted(tu.by_qname.items()):
        if f.body is not None and f.record is not None and re.fullmatch(r"BigInt<\d+>", f.record.qname) and f.name == name:
            out.append(q)
    return out


def cfg_tu(tu, wb):
    return tu if wb == 64 else U.get_tu(tu, "w32", U.SHARED["workdir"])


def cfg_consts(tu, wb):
    return U.SHARED.get("consts") if wb == 64 else U.get_consts_variant(tu, "w32", U.SHARED["workdir"])


def gen_bigmul(tu, name, wb=64):
    tu = cfg_tu(tu, wb)
    qs = big_instances(tu, name)
    if not qs:
        import jast
        raise jast.ExtractionError("no instance of BigInt::%s in the working tree" % name)
    for q in qs:
        def run(path, q=q):
            f = tu.func(q)
            dom = WordDomain(consts=cfg_consts(tu, wb), word_bits=wb)
            I = Interp(tu, dom)
            I.path = path
            this = I.new_object(f.record.qname)
            args, vals = [], []
            for i in range(len(f.params)):
                t = tu.canon(re.sub(r"&|\bconst\b|\b__restrict\b", "", f.param_type(i)).strip())
                o = I.new_object(t)
                o.val = dom.input_words("abcd"[i], dom.nwords(t))
                args.append(o)
                vals.append(dom.value(o))
            I.call(f, this, args, force_body=True)
            want = vals[0] * (vals[1] if len(vals) > 1 else vals[0]) if name in ("multiply", "square") else None
            got = dom.value(this)
            D = dom.reduce_eq(want - got)
            top = 1 << (wb * dom.nwords(this.type))
            exact = D.is_zero()
            dropped = (not exact) and all(c % top == 0 for c in D.t.values()) and carry_sum(Poly({m: c // top for m, c in D.t.items()}))
            # a carry out of the top word that the code drops: VAL(self) + c * 2^bits == a*b exactly, a*b < 2^bits and VAL(self) >= 0 force c == 0
            fits = all(dom.nwords(a.type) for a in args) and sum(wb * dom.nwords(a.type) for a in args) * (2 if len(args) == 1 else 1) <= wb * dom.nwords(this.type)
            obs = [chk("%s: VAL(self) == %s (exact, all operands%s)" % (q, "VAL(a) * VAL(b)" if len(vals) > 1 else "VAL(a)^2", "; the carry dropped above the top word is 0 because the product fits" if dropped else ""),
                       exact or (dropped and fits), "difference %r" % D),
                   chk("%s: every result word written and below 2^%d" % (q, wb), all(w is not POISON and wv(w).hi < (1 << wb) for w in dom.words(this)))]
            for a in args:
                obs.append(chk("%s: operand unchanged" % q, all(isinstance(w, WVal) and w.p.degree() == 1 and len(w.p.t) == 1 for w in dom.words(a))))
            return obs
        yield q, guarded(run)


def gen_mont(tu, fname, op, wb=64):
    tu = cfg_tu(tu, wb)
    bits, p = MODS[fname]
    n = bits // wb
    Rm = 1 << bits
    F = FQN[fname]
    cands = [q for q, f in tu.by_qname.items() if f.body is not None and f.record is not None and f.record.qname == F and f.name == op]
    if len(cands) != 1:
        import jast
        raise jast.ExtractionError("%s::%s: expected one instance with a body, found %r" % (fname, op, cands))
    f = tu.func(cands[0])
    patterns = {"multiply": ["distinct", "self=a", "self=b", "a=b", "self=a=b"], "square": ["distinct", "self=a"], "montgomery_reduce": ["distinct"]}[op]
    for pat in patterns:
        def run(path, pat=pat):
            seen = {}

            def reduce_contract(I_, f_, this, args):
                a = args[0]
                seen["T_words"] = list(I_.dom.words(a))
                seen["p_arg"] = args[1] if len(args) > 1 else None
                this.f["val"].val = ["reduced"] * n if isinstance(this, Obj) else None
                if not isinstance(this, Obj):
                    this.val = ["reduced"] * n
                return None
            reduce_contract.raw = True
            oc = {q: reduce_contract for q in tu.by_qname if re.match(r"FpBase<%d>::reduce$" % bits, q)}
            if not oc:
                import jast
                raise jast.ExtractionError("FpBase<%d>::reduce not found" % bits)
            dom = WordDomain(consts=cfg_consts(tu, wb), obj_contracts=oc, word_bits=wb)
            I = Interp(tu, dom)
            I.path = path
            res = I.new_object(F)
            if op == "montgomery_reduce":
                t = I.new_object("BigInt<%d>" % (2 * bits))
                t.val = dom.input_words("t", 2 * n)
                AB = dom.value(t)
                res.f["val"].val = [POISON] * n
                I.call(f, res, [t], force_body=True)
                bound_in = "t < p * R"
                ab_max = p * Rm - 1
            else:
                a = I.new_object(F)
                a.f["val"].val = dom.input_words("a", n)
                if op == "multiply":
                    b = a if pat in ("a=b", "self=a=b") else I.new_object(F)
                    if b is not a:
                        b.f["val"].val = dom.input_words("b", n)
                else:
                    b = a
                if pat in ("self=a", "self=a=b"):
                    res = a
                elif pat == "self=b":
                    res = b
                A, B = dom.value(a.f["val"]), dom.value(b.f["val"])
                AB = A * B
                I.call(f, res, [a, b] if op == "multiply" else [a], force_body=True)
                bound_in = "a, b < p"
                ab_max = (p - 1) * (p - 1)
            if "T_words" not in seen:
                return [chk("%s::%s reaches FpBase::reduce" % (fname, op), False, "reduce was not called")]
            T = sum((wv(w).p * (1 << (wb * i)) for i, w in enumerate(seen["T_words"])), Poly())
            # the last value of meta_carry is the carry symbol of the final new_sum; recover T_full from the identity instead of the local:
            # T_full * R - AB must be p * U with U = sum u_i 2^(64 i); the u_i are the truncated word products of the n rows
            us = dom.trunc_products[-n:] if len(dom.trunc_products) >= n else []
            Upoly = sum((wv(u).p * (1 << (wb * i)) for i, u in enumerate(us)), Poly())
            D = dom.reduce_eq(AB + Upoly * p - T * Rm)           # == meta_carry_final * 2^bits * R  when the code is right
            obs = [chk("%s::%s [%s]: one truncated word product per row (the multipliers u_i)" % (fname, op, pat), len(us) == n and all(wv(u).hi < (1 << wb) for u in us))]
            # D must be (carry symbol) * 2^(2*bits): a single carry symbol with bound <= 1..2, or zero
            mc_ok, mc = False, None
            if D.is_zero():
                mc_ok, mc = True, Poly()
            elif all(c % (Rm * Rm) == 0 for c in D.t.values()):
                mc = Poly({m: c // (Rm * Rm) for m, c in D.t.items()})
                mc_ok = True
            obs.append(chk("%s::%s [%s]: (T + mc * 2^%d) * R == A*B + U*p  (exact identity; mc = the carry out of the top word)" % (fname, op, pat, bits), mc_ok, "residual %r" % D))
            if mc_ok:
                # (ii) bound: T_full = (AB + U p) / R <= (ab_max + (R - 1) p) / R < 2p < 2^bits
                tmax = (ab_max + (Rm - 1) * p) // Rm
                obs.append(chk("%s::%s [%s]: %s and U < R give T + mc*2^%d <= %d < 2p < 2^%d, so mc == 0 and reduce's precondition holds" % (fname, op, pat, bound_in, bits, tmax, bits), tmax < 2 * p and 2 * p <= Rm))
                # mc is a non-negative integer combination of carry symbols: mc*2^bits <= T_full < 2^bits forces mc == 0 only if mc >= 0 as a value;
                # it IS one program value (new_sum >> 64 of the last row) or a sum of such: check it is a single symbol or 0
                obs.append(chk("%s::%s [%s]: mc is a sum of carry symbols of the program (non-negative values), all forced to 0 by the bound" % (fname, op, pat), carry_sum(mc), repr(mc)))
            out_leaf = res.f["val"]
            obs.append(chk("%s::%s [%s]: the result is what FpBase::reduce produced (T mod p, below p)" % (fname, op, pat), out_leaf.val == ["reduced"] * n, repr(out_leaf.val)[:200]))
            pa = seen.get("p_arg")
            if pa is not None:
                obs.append(chk("%s::%s [%s]: reduce is given the modulus p" % (fname, op, pat), isinstance(pa, Leaf) and dom.value(pa) == Poly.const(p), ""))
            return obs
        yield "%s::%s [%s]" % (fname, op, pat), guarded(run)


def gen_consts(tu):
    def run(path):
        c = U.SHARED.get("consts")
        obs = []
        for fname, (bits, p) in MODS.items():
            pre = "fq" if fname == "Fq" else "fr"
            inv = c.value(pre + "_inv_var") % (1 << 64)
            obs.append(chk("%s: modulus constant == reference prime, inv * p == -1 (mod 2^64) (hence also mod 2^32 for the 32-bit-word configuration), 2p <= 2^%d" % (fname, bits), c.value(pre + "_modulus_var") == p and (inv * p + 1) % (1 << 64) == 0 and 2 * p <= (1 << bits)))
        return obs
    yield "closed facts", guarded(run)


def _replay(rec, unit, result, fresh, tu, wd, cx):
    """native differential replay: the real Fq / Fr multiply, square and from-Montgomery conversion on corner operands (0, 1, p-1, all-ones
    word patterns, values around 2^k) and pseudo-random ones, against Python integers"""
    import replay as R_, random
    m = re.match(r"(Fq|Fr)::(\w+)", unit.label)
    if not m:
        return False
    fname, op = m.group(1), m.group(2)
    bits, p = MODS[fname]
    n = bits // 64
    Rinv = pow(1 << bits, -1, p)
    rnd = random.Random(12345)
    base = [0, 1, 2, p - 1, p - 2, (1 << bits) % p, (p - 1) // 2, (p + 1) // 2]
    for k in range(1, n):
        base += [(1 << (64 * k)) - 1, 1 << (64 * k), ((1 << (64 * k)) + 1) % p]
    base += [x for x in [int("f" * (16 * n), 16) >> s_ for s_ in range(0, 12)] if x < p]
    base += [rnd.randrange(p) for _ in range(24)]
    pairs = [(a, b) for a in base for b in base] if op == "multiply" else [(a, a) for a in base + [rnd.randrange(p) for _ in range(2000)]]
    pairs = pairs[:4000]
    lit = lambda v: "{" + ", ".join("%dULL" % ((v >> (64 * i)) & (2**64 - 1)) for i in range(n)) + "}"
    call = {"multiply": "r.multiply(a, b);", "square": "r.square(a);", "montgomery_reduce": "{ BigInt<%d> t; t.clear(); memcpy(&t, &a.val, sizeof a.val); r.montgomery_reduce(t); }" % (2 * bits)}[op]
    lines = [R_.unity_source(), "#include <stdio.h>", "#include <string.h>", "using namespace embedded_pairing; using namespace embedded_pairing::core; using namespace embedded_pairing::bls12_381;",
             "static const uint64_t IN[][2][%d] = {" % n] + ["  {%s, %s}," % (lit(a), lit(b)) for a, b in pairs] + ["};",
             "int main(){ for (unsigned k = 0; k < sizeof IN / sizeof IN[0]; k++) { %s a, b, r; memcpy(&a.val, IN[k][0], sizeof a.val); memcpy(&b.val, IN[k][1], sizeof b.val); %s uint64_t w[%d]; memcpy(w, &r.val, sizeof w); printf(\"r%%u\", k); for (int i = 0; i < %d; i++) printf(\" %%llu\", (unsigned long long)w[i]); printf(\"\\n\"); } return 0; }" % (fname, call, n, n)]
    native, err = R_.run_native("\n".join(lines), wd, unit.name()[:40] + "_native")
    rec["native_driver_error"] = err
    if native is None:
        return False
    for k, (a, b) in enumerate(pairs):
        ws = native.get("r%d" % k)
        if ws is None:
            continue
        r = sum(x << (64 * i) for i, x in enumerate(ws))
        want = (a * Rinv) % p if op == "montgomery_reduce" else (a * b * Rinv) % p
        if r != want:
            rec["native_finding"] = "real %s::%s on a.val = %d%s returns %d, the Montgomery product is %d" % (fname, op, a, "" if op != "multiply" else ", b.val = %d" % b, r, want)
            rec["confirmed_on_real_code"] = True
            return True
    rec["confirmed_on_real_code"] = False
    rec["native_tried"] = len(pairs)
    return False


def units():
    lower = ["FpBase::reduce: argument < 2p ==> result == argument mod p, result < p (BV unit, contracts/fp.py)"]
    us = []
    for name in ("multiply", "square"):
        u = ScenUnit("BigInt::%s (portable C++, every instance): exact product, word level" % name, P, (lambda tu, name=name: gen_bigmul(tu, name)), targets=[])
        u.back_end = "WORD"
        u.stop_at_first_failure = True
        u.max_paths = 300
        us.append(u)
    for fname in ("Fq", "Fr"):
        for op in ("multiply", "square", "montgomery_reduce"):
            u = ScenUnit("%s::%s: Montgomery identity T*R == A*B + U*p, T < 2p, result = reduce(T) (word level)" % (fname, op), P, (lambda tu, fname=fname, op=op: gen_mont(tu, fname, op)), targets=[], contracts_used=lower)
            u.back_end = "WORD"
            u.replay_hook = _replay
            u.stop_at_first_failure = True
            u.max_paths = 300
            us.append(u)
    P32 = ["C03", "C02"]
    for name in ("multiply", "square"):
        u = ScenUnit("BigInt::%s (portable C++ with 32-bit words, every instance): exact product, word level" % name, P32, (lambda tu, name=name: gen_bigmul(tu, name, 32)), targets=[])
        u.back_end = "WORD"
        u.stop_at_first_failure = True
        u.max_paths = 300
        us.append(u)
    for fname in ("Fq", "Fr"):
        for op in ("multiply", "square", "montgomery_reduce"):
            u = ScenUnit("%s::%s (32-bit words): Montgomery identity T*R == A*B + U*p, T < 2p, result = reduce(T) (word level)" % (fname, op), P32, (lambda tu, fname=fname, op=op: gen_mont(tu, fname, op, 32)), targets=[], contracts_used=lower)
            u.back_end = "WORD"
            u.stop_at_first_failure = True
            u.max_paths = 300
            us.append(u)
    u = ScenUnit("Montgomery constants (word level)", P, gen_consts, targets=[])
    u.back_end = "WORD"
    us.append(u)
    return us
