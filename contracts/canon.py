"""C02 / C04 (canonical representatives through the tower): every Fq2 / Fq6 / Fq12 operation, given operands whose F_q components are
reduced below q, produces components reduced below q -- so byte-wise equality keeps coinciding with field equality one level up.

BV back end, generic over the signatures: the real body is extracted; every callee one level down is replaced by its RANGE contract
(operands reduced => result reduced, frame = its output); callees that are raw BigInt operations keep their functional contracts
(contracts/bigint.py), so a body that starts to manipulate the representation directly (q - x instead of negate) is decided on its
merits.  All alias patterns among same-typed operands."""
import re
from bvspec import *
from units import BVUnit
import bigint as BI
import fp as FP

P = ["C02", "C04"]
COMPS = {"FpBase_384": [""], "Fq2": [".c0", ".c1"], "Fq6": [".c0.c0", ".c0.c1", ".c1.c0", ".c1.c1", ".c2.c0", ".c2.c1"],
         "Fq12": [".c0" + x for x in (".c0.c0", ".c0.c1", ".c1.c0", ".c1.c1", ".c2.c0", ".c2.c1")] + [".c1" + x for x in (".c0.c0", ".c0.c1", ".c1.c0", ".c1.c1", ".c2.c0", ".c2.c1")]}


def canonical(cty, ptr):
    return " && ".join("VAL384(&(%s)->%sval) < SPEC_Q" % (ptr, (c[1:] + ".") if c else "") for c in COMPS[cty])


def parse_sig(sig):
    m = re.match(r"^(.*?)\b(\w+)\((.*)\)$", sig.strip(), re.S)
    ret, name, params = m.group(1).strip(), m.group(2), m.group(3)
    out = []
    for p in ([] if params.strip() == "void" else params.split(",")):
        p = p.strip()
        nm = re.search(r"(\w+)$", p).group(1)
        ty = p[:-len(nm)].strip()
        out.append((ty, nm))
    return ret, name, out


def range_contract(em, f, for_target):
    """operands reduced => outputs reduced; None if the signature is outside the scheme"""
    ret, name, params = parse_sig(em.signature(f))
    outs, ins = [], []
    for ty, nm in params:
        base = ty.replace("const", "").replace("*", "").strip()
        if "*" not in ty:
            if base in ("unsigned int", "int", "_Bool", "unsigned long"):
                continue
            return None
        if base not in COMPS:
            return None
        (ins if ty.startswith("const") else outs).append((base, nm))
    if not outs and ret == "void":
        return None
    pre, post = [], []
    if for_target:
        ptrs = outs + ins
        seen = []
        for (b, nm) in ptrs:
            alts = ["__CPROVER_pointer_equals(%s, %s)" % (nm, o) for (ob, o) in seen if ob == b] + [fresh(nm)]
            pre.append(" || ".join(alts))
            seen.append((b, nm))
    for (b, nm) in ins:
        pre.append(canonical(b, nm))
    for (b, nm) in outs:
        post.append(canonical(b, nm))
    # operands that alias an output are consumed before being overwritten or not -- either way the statement is about values
    c = req(*pre) + assigns(*["*%s" % nm for (b, nm) in outs]) + (ens(*post) if post else "")
    return c


def targets(tu):
    out = []
    for q, f in sorted(tu.by_qname.items()):
        if f.body is None or f.record is None or f.record.qname not in ("Fq2", "Fq6", "Fq12"):
            continue
        if f.name in ("random", "read_big_endian", "write_big_endian", "hash_reduce", "is_zero", "equal", "compare", "legendre", "exponentiate_gt", "exponentiate_gt_div", "random_gt",
                      "exponentiate_gt_nodiv", "exponentiate_restrict_cyclotomic_nodiv", "map_to_cyclotomic", "square_root", "norm"):
            continue
        out.append(q)
    return out


KNOWN = ["Fq2::add", "Fq2::subtract", "Fq2::multiply2", "Fq2::negate", "Fq2::copy", "Fq2::multiply", "Fq2::square", "Fq2::inverse", "Fq2::multiply_by_nonresidue", "Fq2::frobenius_map",
         "Fq6::add", "Fq6::subtract", "Fq6::multiply2", "Fq6::negate", "Fq6::copy", "Fq6::multiply", "Fq6::square", "Fq6::inverse", "Fq6::multiply_by_nonresidue", "Fq6::frobenius_map", "Fq6::multiply_by_c1", "Fq6::multiply_by_c01",
         "Fq12::multiply", "Fq12::square", "Fq12::inverse", "Fq12::conjugate", "Fq12::frobenius_map", "Fq12::multiply_by_c014", "Fq12::copy", "Fq12::square_cyclotomic"]


class CanonUnit(BVUnit):
    def __init__(self, q):
        BVUnit.__init__(self, q, {q: ""}, P, unwind=16, timeout=600, label=q + ": components stay reduced below q", canary=None, extra=["--object-bits", "10"],
                        note="callees one level down replaced by range contracts (generated from their signatures); raw BigInt callees keep functional contracts")
        self.auto = True
        self.replay_hook = _replay


def auto_contracts(tu, unit, em, f):
    """fills unit.contracts / unit.replace from the callees the extracted body really has"""
    import cxx2c
    tgt = range_contract(em, f, True)
    if tgt is None:
        raise cxx2c.ExtractionError("signature of %s is outside the canonicity scheme" % unit.target)
    contracts = {unit.target: tgt}
    replace = []
    big = {"BigInt<384>::add": BI.c_add(384), "BigInt<384>::subtract": BI.c_sub(384), "BigInt<384>::copy<384>": BI.c_copy(384), "BigInt<384>::is_zero": BI.c_is_zero(384),
           "BigInt<384>::compare": BI.c_compare(384), "BigInt<384>::shift_left_in_word<1>": BI.c_shl1(384)}
    for cname, cf in em.called_funcs.items():
        if cf.qname == unit.target:
            continue
        if cf.qname in big:
            contracts[cf.qname] = big[cf.qname]
        else:
            c = range_contract(em, cf, False)
            if c is None:
                raise cxx2c.ExtractionError("%s calls %s, which has no range contract" % (unit.target, cf.qname))
            contracts[cf.qname] = c
        replace.append(cf.qname)
    unit.contracts = contracts
    unit.replace = replace


def units():
    return [CanonUnit(q) for q in KNOWN]


def _replay(rec, unit, result, fresh, tu, wd, w):
    """native: the real function on the verifier's operands and on corner operands (0, 1, q-1 in every component); the oracle is the
    statement itself (every output word group below q), evaluated in Python"""
    import replay as R, units as U, tower_ref
    Q = tower_ref.Q
    rec["witness"] = {k: (v if not isinstance(v, dict) else [v[i] for i in sorted(v)]) for k, v in w.items()}
    if not w:
        return False
    f = tu.func(unit.target)
    cfile, wname, repl, em = U.build_bv(tu, unit, wd)
    one = (1 << 384) % Q
    cands = [("witness", None), ("zero", 0), ("one", one), ("minus-one", Q - one), ("q-1", Q - 1)]
    for tag, val in cands:
        w2 = dict(w)
        if val is not None:
            for k, v in w.items():
                if isinstance(v, dict):
                    w2[k] = {i: (val >> (64 * (i % 6))) & (2**64 - 1) for i in v}
        try:
            src, rep = R.cxx_driver(tu, em, f, w2)
        except Exception as e:
            rec["native_driver_error"] = repr(e)
            return False
        native, err = R.run_native(src, wd, unit.name() + "_native_" + tag)
        if native is None:
            rec["native_driver_error"] = err
            return False
        for name, words in native.items():
            if name == "ret" or len(words) % 6:
                continue
            for j in range(0, len(words), 6):
                v = sum(x << (64 * i) for i, x in enumerate(words[j:j + 6]))
                if v >= Q:
                    rec["native_input"] = {k: ([w2[k][i] for i in sorted(w2[k])] if isinstance(w2[k], dict) else w2[k]) for k in w2}
                    rec["native_outputs"] = native
                    rec["native_finding"] = "operands '%s': component %d of %s is %d >= q after the real %s" % (tag, j // 6, name, v, unit.target)
                    rec["confirmed_on_real_code"] = True
                    return True
    rec["confirmed_on_real_code"] = False
    return False
