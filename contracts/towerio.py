"""C04 (byte I/O of the tower): Fq2 / Fq6 / Fq12 write_big_endian and read_big_endian.

BV back end; the real bodies of all tower levels are extracted, the F_q level is the integer stub of contracts/enc.py (its own contract is
C02: write = big-endian bytes of the canonical value, read = (BE & 2^381-1) mod q).  Statement: coefficient (i, j, k) of an Fq12 element
(Fq12.c_i, Fq6.c_j, Fq2.c_k) occupies the 48 bytes at offset (1-i)*288 + (2-j)*96 + (1-k)*48 -- most significant coefficient first at every
level -- for write and for read alike, nothing else is written; hence read(write(x)) == x for canonical x and write(read(b)) == b for
canonical b (composition on paper, both directions use the same offset map)."""
from bvspec import *
from units import BVUnit
import enc as E

P = ["C04", "C09"]
COMP = {"Fq2": [(".c1", 0), (".c0", 48)]}
COMP["Fq6"] = [(".c2" + c, o) for c, o in COMP["Fq2"]] + [(".c1" + c, 96 + o) for c, o in COMP["Fq2"]] + [(".c0" + c, 192 + o) for c, o in COMP["Fq2"]]
COMP["Fq12"] = [(".c1" + c, o) for c, o in COMP["Fq6"]] + [(".c0" + c, 288 + o) for c, o in COMP["Fq6"]]
SIZE = {"Fq2": 96, "Fq6": 288, "Fq12": 576}
BODIES = {"Fq2": [], "Fq6": ["Fq2::%s"], "Fq12": ["Fq6::%s", "Fq2::%s"]}


def units():
    us = []
    for T in ("Fq2", "Fq6", "Fq12"):
        n = SIZE[T]
        qw, qr = T + "::write_big_endian", T + "::read_big_endian"
        cw = (req(fresh("self"), "__CPROVER_is_fresh(buffer, %d)" % n) + req(*["VAL384(&self->%s.val) < SPEC_Q" % c[1:] for c, o in COMP[T]]) + assigns("__CPROVER_object_whole(buffer)") +
              ens(*["JPV_BE48(buffer, %d) == VAL384(&self->%s.val)" % (o, c[1:]) for c, o in COMP[T]]))
        cr = (req(fresh("self"), "__CPROVER_is_fresh(buffer, %d)" % n) + assigns("__CPROVER_object_whole(self)") +
              ens(*["VAL384(&self->%s.val) == ((JPV_BE48(buffer, %d) & JPV_MASK381) >= SPEC_Q ? (JPV_BE48(buffer, %d) & JPV_MASK381) - SPEC_Q : (JPV_BE48(buffer, %d) & JPV_MASK381))" % (c[1:], o, o, o) for c, o in COMP[T]]))
        for q, c, op, canary in ((qw, cw, "write_big_endian", ("JPV_BE48(buffer, 0) ==", "JPV_BE48(buffer, 1) ==")), (qr, cr, "read_big_endian", None)):
            u = BVUnit(q, {q: c}, P, bodies=[b % op for b in BODIES[T]], unwind=50, spec_prelude=E.PRELUDE, timeout=1500, solver=E.SOLVER, canary=canary,
                       label="%s: coefficient (i,j,k) <-> 48 big-endian bytes at the fixed offset, most significant coefficient first" % q,
                       note="F_q level: integer stubs (C02 contracts); all tower levels real bodies")
            u.stubs = {"Fq::write_big_endian": E.STUB_WRITE, "Fq::read_big_endian": E.STUB_READ}
            us.append(u)
    return us
