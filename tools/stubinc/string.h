/* declarations only: lets clang parse the library headers for a target whose C library is not installed (AST dump, -fsyntax-only) */
#ifndef JPV_STUB_STRING_H
#define JPV_STUB_STRING_H
#include <stddef.h>
#ifdef __cplusplus
extern "C" {
#endif
void *memcpy(void *, const void *, size_t);
void *memmove(void *, const void *, size_t);
void *memset(void *, int, size_t);
int memcmp(const void *, const void *, size_t);
size_t strlen(const char *);
#ifdef __cplusplus
}
#endif
#endif
