"""asmword: the MACHINE CODE of an x86-64 routine (objdump of the object assembled from /repo's .s on every run, tools/asmlift.py
front half) executed in the WORD domain (tools/worddom.py): every register, flag and memory word is an exact integer polynomial in the
input words and carry / borrow symbols.  Forward conditional jumps fork the path (both outcomes explored, the flag's value recorded as a
path constraint); there are no backward jumps in the covered routines (a backward jump aborts the extraction).

Instruction semantics (64-bit operands; anything else aborts with ExtractionError => exit 2):
  mov                     copy (registers holding a pointer parameter stay pointers; memory operands are word cells of a pointer parameter)
  add adc adcx adox       s = dst + src + carry-in (CF, CF, CF, OF);  dst = s mod 2^64, carry-out = s div 2^64  (exact split, see worddom)
  sub sbb cmp             d = dst - src - CF;  dst = d + 2^64*b with b in {0,1} the borrow (CF = b);  cmp discards d;  ZF = (d == 0)
  mul / mulx              rdx:rax (hi:lo) = exact product split at 2^64;  mulx leaves the flags
  imul r, r               low word of the product (recorded as a truncated product: Montgomery's u)
  xor r, r                0, CF = OF = 0
  push / pop              private stack; balance and callee-saved registers are obligations
  jcc / ret / seto setc   as documented by Intel"""
import re
from poly import Poly
from symx import SymxError, Finding, POISON
from jast import ExtractionError
from worddom import WordDomain, WVal, Cond, wv, simp
import asmlift

REGS = asmlift.REGS
ARGS = asmlift.ARGS
CALLEE_SAVED = asmlift.CALLEE_SAVED
W = 64
TOP = 1 << 64


class PtrVal:
    __slots__ = ("name", "off")

    def __init__(self, name, off=0):
        self.name, self.off = name, off


class FakeInterp:
    """what WordDomain.truth needs from an interpreter: the decision oracle"""

    def __init__(self, path):
        self.path = path


class Machine:
    def __init__(self, dom, path, ins, name, mem, args):
        """mem: {ptrname: list of words (POISON for unwritten output)}; args: list (in System V order) of PtrVal / int / WVal"""
        self.dom, self.I, self.ins, self.name = dom, FakeInterp(path), ins, name
        self.mem = mem
        self.regs = {r: WVal(Poly.var("init_" + r), TOP - 1) for r in REGS}
        self.init = dict(self.regs)
        for r, a in zip(ARGS, args):
            self.regs[r] = a
        self.CF = self.OF = self.ZF = 0
        self.stack = []
        self.written = set()
        self.reads = []
        self.addr_idx = {a: i for i, (a, _) in enumerate(ins)}
        self.inv_const = None

    def fail(self, t):
        raise ExtractionError("asmword: unsupported instruction '%s' in %s" % (t, self.name))

    # ---- operands ----
    def parse_mem(self, op):
        m = re.match(r"^(-?(?:0x)?[0-9a-f]*)\(%(\w+)\)$", op)
        if not m:
            return None
        off = int(m.group(1), 0) if m.group(1) else 0
        base = self.regs.get(m.group(2))
        if m.group(2) == "rsp" or not isinstance(base, PtrVal):
            raise ExtractionError("asmword: memory operand %s in %s through a register that does not hold a pointer parameter" % (op, self.name))
        o = base.off + off
        if o % 8:
            self.fail("unaligned displacement " + op)
        return base.name, o // 8

    def rd(self, op):
        op = op.strip()
        if op.startswith("$"):
            return int(op[1:], 0) & (TOP - 1)
        mm = self.parse_mem(op)
        if mm:
            arr, k = mm
            if not (0 <= k < len(self.mem[arr])):
                raise Finding("out-of-bounds", "asm read of word %d of %s (%d words)" % (k, arr, len(self.mem[arr])))
            v = self.mem[arr][k]
            if v is POISON:
                raise Finding("uninitialised", "asm read of word %d of %s before it is written" % (k, arr))
            self.reads.append((arr, k))
            return v
        r = op.lstrip("%")
        if r not in REGS:
            self.fail("operand " + op)
        return self.regs[r]

    def wr(self, op, v):
        op = op.strip()
        mm = self.parse_mem(op)
        if mm:
            arr, k = mm
            if not (0 <= k < len(self.mem[arr])):
                raise Finding("out-of-bounds", "asm write of word %d of %s (%d words)" % (k, arr, len(self.mem[arr])))
            if isinstance(v, PtrVal):
                self.fail("store of a pointer")
            self.mem[arr][k] = v
            self.written.add((arr, k))
            return
        r = op.lstrip("%")
        if r not in REGS:
            self.fail("operand " + op)
        self.regs[r] = v

    def word(self, v, what):
        if isinstance(v, PtrVal):
            raise ExtractionError("asmword: arithmetic on a pointer register (%s) in %s" % (what, self.name))
        return self.dom.refine(wv(v))

    def flag(self, f):
        return f

    # ---- execution ----
    def run(self):
        dom = self.dom
        i = 0
        n = len(self.ins)
        steps = 0
        while True:
            if i >= n:
                raise ExtractionError("asmword: fell off the end of " + self.name)
            steps += 1
            addr, text = self.ins[i]
            text = re.sub(r"\s+#.*$", "", text)
            parts = text.split(None, 1)
            mn = parts[0]
            ops = [o.strip() for o in re.split(r",(?![^()]*\))", parts[1])] if len(parts) > 1 else []
            i += 1
            dom.note = "%x: %s" % (addr, text)
            if mn in ("movq", "mov", "movabs"):
                self.wr(ops[1], self.rd(ops[0]))
            elif mn in ("add", "addq", "adc", "adcq", "adcx", "adox"):
                cin = {"adc": self.CF, "adcq": self.CF, "adcx": self.CF, "adox": self.OF}.get(mn, 0)
                a, b, c = self.word(self.rd(ops[1]), text), self.word(self.rd(ops[0]), text), self.word(self.carry(cin), text)
                s = WVal(a.p + b.p + c.p, a.hi + b.hi + c.hi)
                lo, cy = dom.split(s, W)
                self.wr(ops[1], lo)
                if mn == "adox":
                    self.OF = cy
                elif mn == "adcx":
                    self.CF = cy
                else:
                    # OF of add/adc = signed overflow; 0 when the exact sum stays below 2^63
                    self.CF, self.ZF, self.OF = cy, ("zero", lo), (0 if s.hi < (1 << 63) else "unknown")
            elif mn in ("sub", "subq", "sbb", "sbbq", "cmp", "cmpq"):
                cin = self.CF if mn.startswith("sbb") else 0
                if ops[0] == ops[1] and not mn.startswith("cmp"):
                    a, b, c = wv(0), wv(0), self.word(self.carry(cin), text)        # x - x: the register's value cancels
                else:
                    a, b, c = self.word(self.rd(ops[1]), text), self.word(self.rd(ops[0]), text), self.word(self.carry(cin), text)
                d, bw = dom.borrow(a, WVal(b.p + c.p, b.hi + c.hi))
                if not mn.startswith("cmp"):
                    self.wr(ops[1], d)
                self.CF, self.ZF, self.OF = bw, ("zero", d), "unknown"
            elif mn in ("neg", "negq"):
                a = self.word(self.rd(ops[0]), text)
                d, bw = dom.borrow(wv(0), a)
                self.wr(ops[0], d)
                self.CF, self.ZF, self.OF = bw, ("zero", d), "unknown"
            elif mn in ("xor", "xorq", "xorl") and ops[0] == ops[1]:
                self.wr(ops[1], 0)
                self.CF = self.OF = 0
                self.ZF = 1
            elif mn in ("mul", "mulq"):
                a, b = self.word(self.regs["rax"], text), self.word(self.rd(ops[0]), text)
                lo, hi = dom.split(WVal(a.p * b.p, a.hi * b.hi), W)
                self.regs["rax"], self.regs["rdx"] = lo, hi
                self.CF = self.OF = "unknown"
                self.ZF = "unknown"
            elif mn == "mulx":
                a, b = self.word(self.regs["rdx"], text), self.word(self.rd(ops[0]), text)
                lo, hi = dom.split(WVal(a.p * b.p, a.hi * b.hi), W)
                if self.inv_const is not None and ((a.p.is_const() and a.p.const_value() == self.inv_const) or (b.p.is_const() and b.p.const_value() == self.inv_const)):
                    dom.trunc_products.append(lo)          # u = (word * inv) mod 2^64 (the high half is dead)
                self.wr(ops[1], lo)
                self.wr(ops[2], hi)          # if both destinations are the same register the high half wins (Intel SDM)
            elif mn in ("imul", "imulq") and len(ops) == 2:
                a, b = self.word(self.rd(ops[1]), text), self.word(self.rd(ops[0]), text)
                lo, _hi = dom.split(WVal(a.p * b.p, a.hi * b.hi), W)
                dom.trunc_products.append(lo)
                self.wr(ops[1], lo)
                self.CF = self.OF = self.ZF = "unknown"
            elif mn in ("push", "pushq"):
                self.stack.append(self.rd(ops[0]))
                if len(self.stack) > 8:
                    raise Finding("stack", "asm: more than 8 pushes")
            elif mn in ("pop", "popq"):
                if not self.stack:
                    raise Finding("stack", "asm: pop from an empty frame")
                self.wr(ops[0], self.stack.pop())
            elif mn in ("ret", "retq"):
                return
            elif mn in ("jc", "jb", "jnae", "jae", "jnc", "jnb", "jz", "je", "jnz", "jne", "ja", "jbe", "jmp", "jmpq"):
                m = re.match(r"^([0-9a-f]+)", ops[0])
                tgt = int(m.group(1), 16)
                if tgt not in self.addr_idx:
                    self.fail(text + " (target outside the routine)")
                if tgt <= addr:
                    self.fail(text + " (backward jump: loops are not executed)")
                if mn in ("jmp", "jmpq"):
                    take = True
                elif mn in ("jc", "jb", "jnae"):
                    take = self.truth_flag("CF")
                elif mn in ("jae", "jnc", "jnb"):
                    take = not self.truth_flag("CF")
                elif mn in ("jz", "je"):
                    take = self.truth_flag("ZF")
                elif mn in ("jnz", "jne"):
                    take = not self.truth_flag("ZF")
                elif mn == "ja":
                    take = (not self.truth_flag("CF")) and (not self.truth_flag("ZF"))
                else:
                    take = self.truth_flag("CF") or self.truth_flag("ZF")
                if take:
                    i = self.addr_idx[tgt]
            elif mn in ("seto", "setc", "setb"):
                f = self.OF if mn == "seto" else self.CF
                r = ops[0].lstrip("%")
                if r in asmlift.R8:
                    # byte write into a register known to be zero (the xor r,r idiom before it)
                    full = asmlift.R8[r]
                    cur = self.regs[full]
                    if isinstance(cur, PtrVal) or self.dom.refine(wv(cur)).hi >= 256:
                        self.fail(text + " (byte write into a register whose upper 56 bits are not known to be 0)")
                    self.regs[full] = self.carry(f)
                else:
                    self.wr(ops[0], self.carry(f))
            elif mn in ("nop", "nopw", "nopl", "data16", "cs"):
                pass
            else:
                self.fail(text)

    def carry(self, f):
        if isinstance(f, str) or isinstance(f, tuple):
            raise ExtractionError("asmword: use of a flag that the previous instruction leaves undefined / not modelled, in " + self.name)
        return f

    def truth_flag(self, which):
        f = getattr(self, which)
        if isinstance(f, int):
            return bool(f)
        if isinstance(f, tuple) and f[0] == "zero":
            v = f[1]
            if isinstance(v, int):
                return v == 0
            return self.dom.truth(self.I, Cond("==", wv(v), wv(0)))
        if isinstance(f, WVal):
            return self.dom.truth(self.I, f)
        raise ExtractionError("asmword: branch on a flag that is undefined / not modelled, in " + self.name)
