"""Native replay for pairing-schedule counterexamples: the REAL pairing_product on concrete subgroup points (small multiples of the
generators, identities where the scenario has them, prepared forms where the scenario has them, stale cursor state) against the
product of single plain pairings of the non-identity pairs."""
import os, subprocess
from jast import unity_source, clang_flags


def replay(cx, wd, tag="pairing_native"):
    n, m, pat = cx["n"], cx["m"], cx["pat"]
    L = [unity_source(), "#include <stdio.h>\n#include <string.h>\nusing namespace embedded_pairing::core; using namespace embedded_pairing::bls12_381;",
         "int main() {", "  static G1Affine P[8]; static G2Affine Q[8]; static G2Prepared QP[8]; static AffinePair ap[8]; static PreparedPair pp[8];",
         "  memset(QP, 0x5a, sizeof(QP)); memset(pp, 0x5a, sizeof(pp)); memset(ap, 0x5a, sizeof(ap));",
         "  Fq12 want; want.copy(Fq12::one);"]
    for j, kd in enumerate(pat):
        L.append("  { G1 a; BigInt<256> k; memset(&k, 0, sizeof k); k.bytes[0] = %d; a.multiply_doubleadd(G1::one, k); P[%d].from_projective(a); G2 b; k.bytes[0] = %d; b.multiply_doubleadd(G2::one, k); Q[%d].from_projective(b); }" % (3 + 2 * j, j, 5 + 2 * j, j))
        if kd == "g1inf":
            L.append("  P[%d].copy(G1Affine::zero);" % j)
        if kd == "g2inf":
            L.append("  Q[%d].copy(G2Affine::zero);" % j)
        if kd == "ok":
            L.append("  { Fq12 e; pairing(e, P[%d], Q[%d]); want.multiply(want, e); }" % (j, j))
        if j < n:
            L.append("  ap[%d].g1 = &P[%d]; ap[%d].g2 = &Q[%d];" % (j, j, j, j))
        else:
            L.append("  QP[%d].prepare(Q[%d]); pp[%d].g1 = &P[%d]; pp[%d].g2 = &QP[%d];" % (j, j, j - n, j, j - n, j))
    L += ["  Fq12 got; pairing_product(got, %s, %d, %s, %d);" % ("ap" if n else "nullptr", n, "pp" if m else "nullptr", m),
          "  bool ok = Fq12::equal(got, want);",
          "  printf(ok ? \"NATIVE-RESULT: PASS\\n\" : \"NATIVE-RESULT: FAIL (pairing_product differs from the product of the single pairings)\\n\");", "  return ok ? 0 : 1; }"]
    p = os.path.join(wd, tag + ".cpp")
    open(p, "w").write("\n".join(L))
    r = subprocess.run(["clang++"] + clang_flags() + ["-O1", "-w", p, "-o", p[:-4]], capture_output=True, text=True)
    if r.returncode != 0:
        return False, "native driver does not compile: " + r.stderr[-1500:]
    try:
        r = subprocess.run([p[:-4]], capture_output=True, text=True, timeout=600)
    except subprocess.TimeoutExpired:
        return False, "native driver timed out"
    out = r.stdout + r.stderr
    return ("NATIVE-RESULT: FAIL" in out or (r.returncode not in (0, 1))), out[-2000:]
