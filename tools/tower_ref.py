"""Reference arithmetic of the BLS12-381 tower written from the definition (spec side, oracle):
  Fq2 = Fq[u]/(u^2+1),  Fq6 = Fq2[v]/(v^3-(u+1)),  Fq12 = Fq6[w]/(w^2-v).
Elements are flat coefficient tuples over Fq; used for CONST obligations (tables) and for
evaluating polynomial counterexamples in the real field before native replay."""
from bvspec import Q, R, X, X_ABS


class E:
    """element of a tower level: tuple of coefficients over the level below (ints mod Q at level 1)"""
    __slots__ = ("lvl", "c")

    def __init__(self, lvl, c):
        self.lvl, self.c = lvl, tuple(c)

    def __eq__(self, o):
        return isinstance(o, E) and self.lvl == o.lvl and self.c == o.c

    def __hash__(self):
        return hash((self.lvl, self.c))

    def __repr__(self):
        return "E%d%s" % (self.lvl, self.flat())

    def flat(self):
        if self.lvl == 1:
            return (self.c[0],)
        out = ()
        for x in self.c:
            out += x.flat()
        return out

    def __add__(self, o):
        o = lift(o, self.lvl)
        if self.lvl == 1:
            return E(1, ((self.c[0] + o.c[0]) % Q,))
        return E(self.lvl, [a + b for a, b in zip(self.c, o.c)])

    __radd__ = __add__

    def __neg__(self):
        if self.lvl == 1:
            return E(1, ((-self.c[0]) % Q,))
        return E(self.lvl, [-a for a in self.c])

    def __sub__(self, o):
        return self + (-lift(o, self.lvl))

    def __rsub__(self, o):
        return lift(o, self.lvl) - self

    def __mul__(self, o):
        o = lift(o, self.lvl)
        if self.lvl == 1:
            return E(1, ((self.c[0] * o.c[0]) % Q,))
        a, b = self.c, o.c
        if self.lvl in (2, 12):
            nr = NONRES[self.lvl]
            return E(self.lvl, (a[0] * b[0] + nr * (a[1] * b[1]), a[0] * b[1] + a[1] * b[0]))
        nr = NONRES[6]
        return E(6, (a[0] * b[0] + nr * (a[1] * b[2] + a[2] * b[1]),
                     a[0] * b[1] + a[1] * b[0] + nr * (a[2] * b[2]),
                     a[0] * b[2] + a[1] * b[1] + a[2] * b[0]))

    __rmul__ = __mul__

    def __pow__(self, k):
        r = one(self.lvl)
        b = self
        while k:
            if k & 1:
                r = r * b
            b = b * b
            k >>= 1
        return r

    def is_zero(self):
        return all(x == 0 for x in self.flat())

    def inv(self):
        if self.lvl == 1:
            return E(1, (pow(self.c[0], -1, Q),))
        # a^-1 = a^(|F|-2)
        n = {2: Q**2, 6: Q**6, 12: Q**12}[self.lvl]
        return self ** (n - 2)


SUB = {2: 1, 6: 2, 12: 6}


def zero(lvl):
    if lvl == 1:
        return E(1, (0,))
    return E(lvl, [zero(SUB[lvl])] * (3 if lvl == 6 else 2))


def one(lvl):
    if lvl == 1:
        return E(1, (1,))
    return E(lvl, [one(SUB[lvl])] + [zero(SUB[lvl])] * (2 if lvl == 6 else 1))


def lift(x, lvl):
    if isinstance(x, E):
        if x.lvl == lvl:
            return x
        if x.lvl > lvl:
            raise ValueError("cannot lower")
        y = x
        while y.lvl != lvl:
            up = {1: 2, 2: 6, 6: 12}[y.lvl]
            y = E(up, [y] + [zero(y.lvl)] * (2 if up == 6 else 1))
        return y
    return lift(E(1, (int(x) % Q,)), lvl)


def fq(x):
    return E(1, (x % Q,))


def fq2(a, b):
    return E(2, (fq(a), fq(b)))


NONRES = {}
NONRES[2] = fq(-1)                       # u^2 = -1
NONRES[6] = fq2(1, 1)                    # v^3 = u + 1
NONRES[12] = E(6, (zero(2), one(2), zero(2)))   # w^2 = v

U = fq2(0, 1)
XI = fq2(1, 1)
V = NONRES[12]
W = E(12, (zero(6), one(6)))


def frobenius(x, k=1):
    return x ** (Q ** k)


def from_flat(lvl, vals):
    vals = list(vals)
    if lvl == 1:
        return fq(vals[0])
    n = {2: 1, 6: 2, 12: 6}[lvl]
    w = {1: 1, 2: 2, 6: 6}[n]
    return E(lvl, [from_flat(n, vals[i * w:(i + 1) * w]) for i in range((3 if lvl == 6 else 2))])
