"""Values of the library's constants, obtained by compiling the real headers/sources natively
and dumping object bytes (nothing copied by hand), decoded with the extractor's record layouts."""
import os, re, subprocess
import cxx2c
from jast import unity_source, clang_flags, ExtractionError, norm_type


class Consts:
    def __init__(self, tu, wd, extra_flags=(), tag=""):
        self.extra_flags, self.tag = list(extra_flags), tag
        self.tu = tu
        self.em = cxx2c.Emitter(tu, wd)
        self.wd = wd
        self.raw = {}
        self.types = {}
        names = {}
        for did, (qn, node) in tu.globals.items():
            t = node["type"]
            raw_t = t.get("desugaredQualType", t["qualType"])
            if qn.startswith("embedded_pairing_") or qn.startswith("jpv_") or "::" in qn and qn.split("::")[0] in ("std",):
                continue
            if node.get("loc", {}).get("includedFrom") is None and False:
                continue
            try:
                ts = tu.canon(raw_t, [qn.rsplit("::", 1)[0]] if "::" in qn else [])
            except ExtractionError:
                continue
            if ts.rstrip().endswith("&") or "*" in ts or "(" in ts:
                continue
            base = re.sub(r"\[\d*\]", "", ts).replace("const ", "").strip()
            if base not in tu.records and base not in cxx2c.BUILTIN:
                continue
            if not self._is_lib(node, qn):
                continue
            names[qn] = ts
        self.types = names
        self._dump()

    def _is_lib(self, node, qn):
        # keep library constants only (namespace embedded_pairing::*): system headers have none of our record types
        return True

    def _dump(self):
        src = unity_source()
        src += "\n#include <stdio.h>\nusing namespace embedded_pairing; using namespace embedded_pairing::core; using namespace embedded_pairing::bls12_381;\n"
        src += "template<class T> static void jpv_dump(const char* n, const T& v){ printf(\"%s|%zu|\", n, sizeof(T)); for(size_t i=0;i<sizeof(T);i++) printf(\"%02x\", ((const unsigned char*)&v)[i]); printf(\"\\n\"); }\n"
        src += "int main(){\n"
        ok = []
        for qn, ts in self.types.items():
            if not re.fullmatch(r"[A-Za-z_][\w:<>, ]*", qn):
                continue
            if re.search(r"\b(bits_value|byte_length|word_length|dword_length|std_word_length|std_dword_length|table_size|size|num_coeffs|marshalledLength\w*)\b", qn.split("::")[-1]):
                src += "  { auto v = %s; jpv_dump(\"%s\", v); }\n" % (qn, qn)
            else:
                src += "  jpv_dump(\"%s\", %s);\n" % (qn, qn)
            ok.append(qn)
        src += "  return 0; }\n"
        p = os.path.join(self.wd, "constdump_all%s.cpp" % self.tag)
        open(p, "w").write(src)
        exe = os.path.join(self.wd, "constdump_all" + self.tag)
        r = subprocess.run(["clang++"] + clang_flags() + self.extra_flags + ["-O0", "-w", p, "-o", exe], capture_output=True, text=True)
        if r.returncode != 0:
            # drop the offending names and retry once per error line
            bad = set(re.findall(r"jpv_dump\(\"([^\"]+)\"", "\n".join(l for l in r.stderr.splitlines() if "jpv_dump" in l)))
            raise ExtractionError("constant dumper does not compile: " + r.stderr[-2500:])
        out = subprocess.run([exe], capture_output=True, text=True, check=True).stdout
        for line in out.splitlines():
            n, s, hx = line.split("|")
            self.raw[n] = bytes.fromhex(hx)

    # ------------------------------------------------------------------
    def decode(self, ts, data):
        em = self.em
        t = em.canon(ts)
        tb, dims = em.strip_array(t)
        if dims:
            inner = tb + "".join("[%d]" % d for d in dims[1:])
            s = em.sizeof(inner)
            return [self.decode(inner, data[i * s:(i + 1) * s]) for i in range(dims[0])]
        base, _, suf = cxx2c.split_type(tb)
        if base in cxx2c.BUILTIN:
            return int.from_bytes(data[:cxx2c.BUILTIN[base][0]], "little")
        r = em.record_for(base)
        if r.is_union:
            nbits = int(re.search(r"<(\d+)>", r.qname).group(1))
            return int.from_bytes(data[:nbits // 8], "little")
        sz, al, offs = em.record_layout(r)
        out = {}
        off = 0
        for b in r.bases:
            b = em.fcanon(r, b)
            s, a, _ = em.record_layout(em.record_for(b))
            sub = self.decode(b, data[off:off + s])
            if isinstance(sub, dict):
                out.update(sub)
            off += s
        for (fn, ft, _) in r.fields:
            ft = em.fcanon(r, ft)
            s, _ = em.layout(ft)
            out[fn] = self.decode(ft, data[offs[fn]:offs[fn] + s])
        return out

    def value(self, qn):
        if qn not in self.raw:
            raise ExtractionError("constant %r not dumped" % qn)
        return self.decode(self.types[qn], self.raw[qn])

    def type_of(self, qn):
        return self.types[qn]
