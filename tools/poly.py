"""Exact multivariate polynomials over Z in normal form (monomial dictionaries).
Equality of normal forms decides polynomial identities; an identity valid over Z holds in
every commutative ring (in particular F_q and the tower levels)."""
import itertools, random


class Poly:
    __slots__ = ("t",)

    def __init__(self, t=None):
        self.t = t or {}

    @staticmethod
    def const(c):
        return Poly({(): c} if c else {})

    @staticmethod
    def var(name):
        return Poly({((name, 1),): 1})

    def is_zero(self):
        return not self.t

    def is_const(self):
        return all(m == () for m in self.t)

    def const_value(self):
        return self.t.get((), 0)

    def __add__(self, o):
        o = _lift(o)
        t = dict(self.t)
        for m, c in o.t.items():
            v = t.get(m, 0) + c
            if v:
                t[m] = v
            else:
                t.pop(m, None)
        return Poly(t)

    __radd__ = __add__

    def __neg__(self):
        return Poly({m: -c for m, c in self.t.items()})

    def __sub__(self, o):
        return self + (-_lift(o))

    def __rsub__(self, o):
        return _lift(o) - self

    def __mul__(self, o):
        o = _lift(o)
        t = {}
        for m1, c1 in self.t.items():
            for m2, c2 in o.t.items():
                m = _mmul(m1, m2)
                v = t.get(m, 0) + c1 * c2
                if v:
                    t[m] = v
                else:
                    t.pop(m, None)
        return Poly(t)

    __rmul__ = __mul__

    def __pow__(self, k):
        r = Poly.const(1)
        for _ in range(k):
            r = r * self
        return r

    def __eq__(self, o):
        return self.t == _lift(o).t

    def __hash__(self):
        return hash(frozenset(self.t.items()))

    def vars(self):
        return sorted({v for m in self.t for (v, _) in m})

    def eval(self, env, mod=None):
        s = 0
        for m, c in self.t.items():
            x = c
            for (v, e) in m:
                x *= pow(env[v], e, mod) if mod else env[v] ** e
            s += x
            if mod:
                s %= mod
        return s

    def subs(self, env):
        """substitute variables by Polys"""
        r = Poly()
        for m, c in self.t.items():
            x = Poly.const(c)
            for (v, e) in m:
                x = x * ((env[v] if v in env else Poly.var(v)) ** e)
            r = r + x
        return r

    def degree(self):
        return max((sum(e for _, e in m) for m in self.t), default=0)

    def __repr__(self):
        if not self.t:
            return "0"
        parts = []
        for m, c in sorted(self.t.items(), key=lambda x: (len(x[0]), x[0])):
            mon = "*".join(v if e == 1 else "%s^%d" % (v, e) for v, e in m)
            parts.append(("%d" % c if not mon else ("" if c == 1 else "-" if c == -1 else "%d*" % c) + mon))
        s = " + ".join(parts).replace("+ -", "- ")
        return s if len(s) < 400 else s[:400] + "...(%d terms)" % len(self.t)


def _lift(o):
    return o if isinstance(o, Poly) else Poly.const(int(o))


def _mmul(m1, m2):
    if not m1:
        return m2
    if not m2:
        return m1
    d = dict(m1)
    for v, e in m2:
        d[v] = d.get(v, 0) + e
    return tuple(sorted(d.items()))


def find_nonzero_point(p, tries=200, seed=1):
    """A small integer point where p != 0 (p is a non-zero polynomial)."""
    vs = p.vars()
    rnd = random.Random(seed)
    for grid in ([1], [0, 1], [1, 2], [0, 1, 2, 3]):
        if len(grid) ** len(vs) <= 4096:
            for vals in itertools.product(grid, repeat=len(vs)):
                env = dict(zip(vs, vals))
                if p.eval(env) != 0:
                    return env
    for _ in range(tries):
        env = {v: rnd.randrange(1, 50) for v in vs}
        if p.eval(env) != 0:
            return env
    return None
