"""Proof units: one enforced contract (one real function) per unit, callees either inlined
(real bodies) or replaced by their own contracts (which are enforced in their own units)."""
import os, re, json, time, concurrent.futures as cf
import cxx2c, cbmcrun, bvspec
from jast import ExtractionError


def has_loop_contracts(unit):
    """real loop contracts (invariants), as opposed to ghost statements at the start / end of a loop body"""
    return any(isinstance(k, int) for lc in (unit.loop_contracts or {}).values() for k in lc)


class BVUnit:
    back_end = "BV"

    def __init__(self, target, contracts, props, replace=(), bodies=(), unwind=8, loop_contracts=None,
                 tier="quick", timeout=300, label=None, defines=(), extra=(), spec_prelude="", canary=None,
                 checks=True, solver=(), kind="proof", bound=None, unwindset=(), ghost=None, note="", strip_restrict=False):
        self.strip_restrict = strip_restrict
        self.target = target              # qualified C++ name of the function whose contract is enforced
        self.contracts = contracts        # {qname: contract text}; must contain target
        self.props = props                # property ids this unit contributes to
        self.replace = list(replace)      # callees replaced by contract
        self.bodies = list(bodies)        # callees included with real bodies
        self.unwind = unwind
        self.loop_contracts = loop_contracts or {}
        self.tier = tier
        self.timeout = timeout
        self.label = label or target
        self.defines = list(defines)
        self.extra = list(extra)
        self.spec_prelude = spec_prelude
        self.canary = canary              # (old, new) textual perturbation of the target contract that MUST be refuted
        self.checks = checks
        self.solver = list(solver)
        self.kind = kind                  # "proof" | "bounded"
        self.bound = bound
        self.unwindset = list(unwindset)
        self.note = note
        self.ghost = ghost or {}
        self.tu_variant = None
        self.harness_pre = ""
        self.stubs = {}

    def name(self):
        return re.sub(r"[^A-Za-z0-9]+", "_", self.label).strip("_")


def witness_wrapper(em, f, contract, harness_pre="", capture=True):
    """Contract goes on a wrapper that first records the inputs in witness globals (so that a
    counterexample trace names them) and then calls the real function."""
    sig = em.signature(f)
    m = re.match(r"^(.*?)\b%s\((.*)\)$" % re.escape(f.cname), sig, re.S)
    ret, params = m.group(1).strip(), m.group(2)
    names, decls, caps = [], [], []
    plist = [] if params.strip() == "void" else [p.strip() for p in params.split(",")]
    # split on commas is safe: no function-pointer declarators (typedef'd)
    for p in plist:
        nm = re.search(r"([A-Za-z_]\w*)\s*(?:\[\d+\])*$", p).group(1)
        names.append(nm)
        if not capture:
            continue                     # arrays that may be empty: reading their first element in the wrapper would itself be out of bounds
        if "*" in p and "jpv_" not in p.split("*")[0]:
            base = p.split("*")[0].replace("const", "").strip()
            if base in ("void", "uint8_t", "unsigned char", "char"):
                # byte buffers: the first byte (flag byte of the wire formats) is recorded
                decls.append("uint64_t jpv_w_%s_byte0;" % nm)
                caps.append("  jpv_w_%s_byte0 = (uint64_t)*(const uint8_t *)%s;" % (nm, nm))
                continue
            try:
                sz = em.sizeof(em._rec_by_cname[base].qname) if base in getattr(em, "_rec_by_cname", {}) else None
            except Exception:
                sz = None
            if sz and sz % 8 == 0 and sz <= 8 * 96:
                decls.append("uint64_t jpv_w_%s[%d];" % (nm, sz // 8))
                caps += ["  jpv_w_%s[%d] = ((const uint64_t *)%s)[%d];" % (nm, i, nm, i) for i in range(sz // 8)]
        elif "*" not in p and not p.startswith("jpv_"):
            decls.append("uint64_t jpv_w_%s;" % nm)
            caps.append("  jpv_w_%s = (uint64_t)%s;" % (nm, nm))
    ptrs = [n for n, p in zip(names, plist) if "*" in p]
    for i in range(len(ptrs)):
        for j in range(i + 1, len(ptrs)):
            decls.append("_Bool jpv_w_alias_%s_%s;" % (ptrs[i], ptrs[j]))
            caps.append("  jpv_w_alias_%s_%s = ((const void *)%s == (const void *)%s);" % (ptrs[i], ptrs[j], ptrs[i], ptrs[j]))
    call = "%s(%s)" % (f.cname, ", ".join(names))
    body = "\n".join(caps) + "\n  " + ("return " if ret != "void" else "") + call + ";"
    wname = f.cname + "__chk"
    text = "%s %s(%s)\n%s{\n  %s\n%s\n}\n" % (ret, wname, params, contract.strip() + "\n", "\n  ".join(decls), body)
    harness = "void jpv_harness(void)\n{\n" + "".join("  %s;\n" % p for p in plist) + harness_pre + "  %s(%s);\n}\n" % (wname, ", ".join(names))
    return wname, text + harness



def decl_order(f):
    """(parameter names, local variable names) of a function in declaration order"""
    ps = [p.get("name") for p in f.params]
    ls = []

    def walk(n):
        if n.get("kind") == "VarDecl":
            ls.append((n.get("name"), (n.get("type") or {}).get("qualType", "")))
        for c in n.get("inner", []) or []:
            walk(c)
    if f.body is not None:
        walk(f.body)
    return ps, ls


_PINNED = None


def pinned_names(qname):
    """declaration order of parameters and locals on the pinned tree (contracts/pinned_names.json, generated by tools/pin_names.py)"""
    global _PINNED
    if _PINNED is None:
        try:
            with open(os.path.join(os.path.dirname(os.path.abspath(__file__)), "..", "contracts", "pinned_names.json")) as fh:
                _PINNED = json.load(fh)
        except OSError:
            _PINNED = {}
    return _PINNED.get(qname)


def rename_map(tu, unit):
    """A contract names the target's parameters and locals as the pinned tree spells them.  When the working tree declares the pinned parameters and
    locals, in the same order and with the same types (possibly with further locals in between), a renamed variable is the same variable: the contract
    text follows the renaming (whole identifiers, never member names after . or ->).  Anything else leaves the text alone (the extraction then fails on
    the unknown name: exit 2, never a violation)."""
    pn = getattr(unit, "pinned_names", None) or pinned_names(unit.target)
    if not pn or not (unit.loop_contracts or unit.ghost):
        return {}
    f = tu.func(unit.target)
    ps, ls = decl_order(f)
    pps, pls = pn[0], [tuple(x) for x in pn[1]]
    if len(ps) != len(pps):
        return {}
    pairs = list(zip(pps, ps))
    k = 0
    for (pname, ptype) in pls:
        # next current local of this type; one with the pinned name is preferred when it is still ahead
        same = [j for j in range(k, len(ls)) if ls[j] == (pname, ptype)]
        cand = same[0] if same else next((j for j in range(k, len(ls)) if ls[j][1] == ptype), None)
        if cand is None:
            return {}
        pairs.append((pname, ls[cand][0]))
        k = cand + 1
    m = {}
    for a, b in pairs:
        if a != b:
            if a in m and m[a] != b:
                return {}
            m[a] = b
    return m


def apply_renaming(text, m):
    if not m or not isinstance(text, str):
        return text
    # simultaneous substitution (a swap of two names must not chain)
    rx = re.compile(r"(?<![\w.>])(" + "|".join(re.escape(k) for k in sorted(m, key=len, reverse=True)) + r")(?!\w)")
    return rx.sub(lambda mo: m[mo.group(1)] if not text[max(0, mo.start() - 2):mo.start()].endswith("->") else mo.group(1), text)


import threading
_BUILD_LOCK = threading.Lock()


def build_bv(tu, unit, workdir, contract_override=None):
    with _BUILD_LOCK:
        return _build_bv(tu, unit, workdir, contract_override)


def _build_bv(tu, unit, workdir, contract_override=None):
    if getattr(unit, "auto", False) and contract_override is None:
        # discovery pass: which callees does the extracted body have?  their contracts are generated from the signatures
        src0, em0 = cxx2c.build_unit(tu, workdir, [unit.target], spec_prelude="")
        em0.called_funcs = {c: em0.need_funcs[c] for c in em0.called if c in em0.need_funcs}
        import canon
        canon.auto_contracts(tu, unit, em0, tu.func(unit.target))
    contracts = dict(unit.contracts)
    if contract_override is not None:
        contracts[unit.target] = contract_override
    tgt_contract = contracts.pop(unit.target)
    rmap = rename_map(tu, unit)
    unit.renamed = dict(rmap)
    loop_contracts_, ghost_ = unit.loop_contracts, unit.ghost
    if rmap:
        tgt_contract = apply_renaming(tgt_contract, rmap)
        loop_contracts_ = {q_: ({k_: apply_renaming(v_, rmap) for k_, v_ in lc_.items()} if q_ == unit.target else lc_) for q_, lc_ in (unit.loop_contracts or {}).items()}
        ghost_ = {q_: ([(a_, b_, apply_renaming(c_, rmap)) for (a_, b_, c_) in g_] if q_ == unit.target else g_) for q_, g_ in (unit.ghost or {}).items()}
    if unit.strip_restrict:
        # leaf proved under MORE alias patterns than its signature permits (restrict dropped)
        tgt_contract = "".join(l + "\n" for l in tgt_contract.splitlines() if "/* restrict */" not in l)
    f = tu.func(unit.target)
    if getattr(unit, "stub_factory", None) is not None:
        unit.stubs = {q: b for q, b in unit.stub_factory(tu).items() if q in tu.by_qname and tu.by_qname[q].body is not None}
    # replaced callees: prototype + contract; inlined: bodies
    bodies = [unit.target] + [b for b in unit.bodies if b != unit.target]
    for pref in getattr(unit, "optional_bodies", ()):
        # helper functions that may or may not exist in the working tree (included with their real bodies when they do)
        bodies += [q for q, f_ in sorted(tu.by_qname.items()) if q.startswith(pref) and f_.body is not None and q not in bodies]
    callee_contracts = {q: contracts[q] for q in unit.replace}
    auto = []
    for _round in range(6):
        src, em = cxx2c.build_unit(tu, workdir, bodies, contracts=callee_contracts, loop_contracts=loop_contracts_,
                                   spec_prelude=bvspec.prelude() + unit.spec_prelude, ghost=ghost_, stubs=getattr(unit, "stubs", None), defines=getattr(unit, "defines_text", ""))
        # every function that is called but neither inlined nor replaced: a free helper function with a body (a refactoring that split the
        # target, say) is inlined with its real body and the extraction is repeated; anything else is an extraction error
        have = {tu.func(q).cname for q in bodies}
        repl = {tu.func(q).cname: q for q in unit.replace}
        stubbed = {tu.func(q).cname for q in getattr(unit, "stubs", {}) or {}}
        missing = [cf_ for cname, cf_ in em.need_funcs.items() if cname not in have and cname not in repl and cname not in stubbed]
        if not missing:
            break
        new = [cf_ for cf_ in missing if cf_.record is None and cf_.body is not None and not cf_.qname.startswith("embedded_pairing_")]
        if len(new) != len(missing) or _round == 5:
            cf_ = [x for x in missing if x not in new][0] if len(new) != len(missing) else missing[0]
            raise ExtractionError("%s calls %s which is neither inlined nor under a contract in unit %s" % (unit.target, cf_.qname, unit.label))
        bodies += [cf_.qname for cf_ in new]
        auto += [cf_.qname for cf_ in new]
    unit.auto_inlined = auto
    wname, wtext = witness_wrapper(em, f, tgt_contract, getattr(unit, "harness_pre", ""), capture=not getattr(unit, "no_witness", False))
    src += "\n/* ---- contract carrier + harness (generated) ---- */\n" + wtext
    cfile = os.path.join(workdir, unit.name() + ".c")
    with open(cfile, "w") as fh:
        fh.write(src)
    # only callees the extracted bodies really call are replaced (goto-instrument rejects unknown names);
    # a contract for a callee that the current working tree does not call is simply unused
    return cfile, wname, [tu.func(q).cname for q in unit.replace if tu.func(q).cname in em.called] + list(getattr(unit, "extra_replace", [])), em


def _is_called(src, cname):
    """cname is called from some emitted body (a line ending in ';' or inside an expression, not a prototype line)"""
    for l in src.splitlines():
        if cname + "(" in l:
            st = l.strip()
            if st.endswith(");") and re.match(r"^(?:const\s+)?[A-Za-z_][\w ]*\**\s*\**\s*" + re.escape(cname) + r"\(", st) and "=" not in st.split(cname)[0]:
                # prototype or plain call statement: a prototype has a type before the name
                if re.match(r"^(?:const\s+)?(?:void|_Bool|int|unsigned long|unsigned int|jpv_u128|uint\d+_t|size_t|[A-Z]\w*)\s*\**\s+\**" + re.escape(cname) + r"\(", st):
                    continue
            return True
    return False


def run_bv(tu, unit, workdir):
    t0 = time.time()
    try:
        tu = get_tu(tu, getattr(unit, "tu_variant", None), workdir)
        if getattr(unit, "optional", False) and not (unit.target in tu.by_qname and tu.by_qname[unit.target].body is not None):
            # an instance the working tree does not instantiate: nothing to prove
            return dict(unit=unit, status="pass", reason="not instantiated in this tree", obligations=0, discharged=0, failed=[], wall_s=0.0, log="", canary=None)
        cfile, wname, repl, em = build_bv(tu, unit, workdir)
    except ExtractionError as e:
        return dict(unit=unit, status="undecided", reason="extraction: %s" % e, obligations=0, discharged=0, failed=[], wall_s=time.time() - t0, log=str(e))
    res = cbmcrun.run(cfile, workdir, unit.name(), "jpv_harness", enforce=wname, replace=repl,
                      loop_contracts=has_loop_contracts(unit), unwind=unit.unwind, timeout=unit.timeout,
                      extra=unit.extra, defines=unit.defines, checks=unit.checks, solver=unit.solver, unwindset=unit.unwindset)
    res["unit"] = unit
    res["cfile"] = cfile
    res["rules"] = dict(em.rules)
    res["canary"] = None
    # vacuity / dead-harness guard: a perturbed postcondition must be refuted
    if res["status"] == "pass" and unit.canary:
        old, new = unit.canary
        c = unit.contracts[unit.target]
        if old not in c:
            res["status"], res["reason"] = "undecided", "canary pattern not found in contract"
            return res
        try:
            k = c.index("__CPROVER_ensures")
            if old not in c[k:]:
                raise ExtractionError("canary pattern not in ensures")
            cfile2, wname2, repl2, _ = build_bv(tu, BVUnitClone(unit, unit.name() + "_canary"), workdir, c[:k] + c[k:].replace(old, new, 1))
            r2 = cbmcrun.run(cfile2, workdir, unit.name() + "_canary", "jpv_harness", enforce=wname2, replace=repl2,
                             loop_contracts=has_loop_contracts(unit), unwind=unit.unwind, timeout=unit.timeout,
                             extra=unit.extra, defines=unit.defines, checks=False, solver=unit.solver, unwindset=unit.unwindset)
        except ExtractionError as e:
            r2 = dict(status="undecided", reason=str(e), wall_s=0)
        res["canary"] = r2["status"]
        res["wall_s"] += r2.get("wall_s", 0)
        if r2["status"] != "fail":
            res["status"], res["reason"] = "undecided", "vacuity canary was not refuted (%s)" % r2["status"]
    return res


SHARED = {}
_TU_LOCK = threading.Lock()


def get_tu(tu, variant, workdir):
    """AST of a variant translation unit (C-interface wrapper files), built once per check run"""
    if not variant:
        return tu
    with _TU_LOCK:
        key = "tu:" + variant
        if key not in SHARED:
            import jast
            if variant == "w32":
                # the portable configuration with 32-bit words: BigInt::word_t = uint32_t when the compiler has no __int128
                SHARED[key] = jast.TU(jast.dump_ast(workdir, name="u_w32", extra_flags=["-U__SIZEOF_INT128__"]))
                SHARED[key].wordbits = 32
                SHARED[key].cfg_flags = ["-U__SIZEOF_INT128__"]
            else:
                SHARED[key] = jast.TU(jast.dump_ast(workdir, name="u_" + variant, source=jast.unity_source(variant=variant)))
        return SHARED[key]


def get_consts(tu, workdir):
    """constants of the working tree (native dump), built once per check run"""
    with _BUILD_LOCK:
        if "consts" not in SHARED:
            import consts
            SHARED["consts"] = consts.Consts(tu, workdir)
        return SHARED["consts"]


def get_consts_variant(tu_variant, variant, workdir):
    """constants of a variant configuration (e.g. 'w32': word_length etc. differ)"""
    with _BUILD_LOCK:
        key = "consts:" + variant
        if key not in SHARED:
            import consts
            SHARED[key] = consts.Consts(tu_variant, workdir, extra_flags=["-U__SIZEOF_INT128__"] if variant == "w32" else [], tag="_" + variant)
        return SHARED[key]


def w32_clone(u, props=("C03", "C02")):
    """the same unit (same contract text) on the AST of the portable configuration with 32-bit words"""
    import copy
    c = copy.copy(u)
    c.__dict__ = dict(u.__dict__)
    c.tu_variant = "w32"
    c.label = u.label + " [portable C++, 32-bit words]"
    c.props = list(props)
    c.unwind = 2 * u.unwind + 2
    c.unwindset = list(u.unwindset)
    c.note = (u.note + "; " if u.note else "") + "AST dumped with -U__SIZEOF_INT128__ (word_t = uint32_t, dword_t = uint64_t); the VALn readings are the same integers"
    return c


class BVUnitClone(BVUnit):
    def __init__(self, u, label):
        self.__dict__.update(u.__dict__)
        self.label = label
        self.canary = None


def run_units(tu, units, workdir, jobs=14, runner=None):
    out = []
    with cf.ThreadPoolExecutor(max_workers=jobs) as ex:
        futs = {ex.submit((runner or run_any), tu, u, workdir): u for u in units}
        for fu in cf.as_completed(futs):
            out.append(fu.result())
    order = {id(u): i for i, u in enumerate(units)}
    out.sort(key=lambda r: order[id(r["unit"])])
    return out


def run_any(tu, unit, workdir):
    if unit.back_end == "BV":
        return run_bv(tu, unit, workdir)
    try:
        return unit.run(tu, workdir)
    except ExtractionError as e:
        return dict(unit=unit, status="undecided", reason="extraction: %s" % e, obligations=0, discharged=0, failed=[], wall_s=0.0, log=str(e))
