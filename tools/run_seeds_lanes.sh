#!/bin/bash
# run_seeds_lanes.sh [lanes=3] : all stored seeds, in parallel lanes; writes seeded/RESULTS.txt (one "seed ..." line + the check's summary line per seed)
cd /verif
N=${1:-3}
ids=$(ls -d seeded/*/ | xargs -n1 basename)
i=0; for d in $ids; do echo $d >> /tmp/jpv.lane.$((i % N)); i=$((i+1)); done
for k in $(seq 0 $((N-1))); do ( tools/run_seeds.sh $(cat /tmp/jpv.lane.$k) > /tmp/jpv.lane.$k.out 2>&1 ) & done
wait
cat /tmp/jpv.lane.*.out | grep -E "^seed|^check" > seeded/RESULTS.txt
rm -f /tmp/jpv.lane.*
grep -c "^seed" seeded/RESULTS.txt; grep "^seed" seeded/RESULTS.txt | grep -vc "exit 1,"
