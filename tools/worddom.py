"""WORD domain for symx: multi-precision code executed at the machine-word level with EXACT integer values.

A value is WVal(p, hi): the exact (mathematical) integer value as a polynomial p over Z in the input words and in the carry
symbols introduced below, together with a sound upper bound hi (all values are unsigned, 0 <= value <= hi).  C arithmetic in an
unsigned type of w bits is modelled exactly:
    x + y, x * y, x << k      value computed exactly; if its bound does not fit w bits it is TRUNCATED:
    truncation to w bits      value = lo + 2^w * c,  0 <= lo < 2^w:  if every coefficient of p is a multiple of 2^w then lo = 0, c = p / 2^w
                              exactly; otherwise c is a fresh symbol ("carry"), lo is represented by the polynomial p - 2^w * c
                              (no fresh symbol for lo), and the same split is reused for the same p (so `(word) t` and `t >> w` agree)
    x >> k                    the c of the split at k bits
so every program value stays an exact polynomial and a functional claim (result == a * b, T * R == a * b + U * p) is decided by
normal-form equality of polynomials -- for all inputs, no solver, no bound on the operands.  Loops run to completion (their trip counts
are the constant word counts of the types).  What is NOT modelled raises SymxError (=> undecided, never a verdict): comparisons and
branches on symbolic words, signed arithmetic on symbolic values, bitwise operations other than the shift / mask / disjoint-or idioms."""
import re
from poly import Poly
from symx import Leaf, Obj, Arr, Cell, Ptr, POISON, SymxError, Finding, MASK
from ringdom import RingDomain, BIGINT_RE


class Z3Session:
    """one z3 process per path, fed incrementally: facts are asserted once, every query is (push) goal (check-sat) (pop).
    Linear real arithmetic only; `unsat` is the only answer that is used (a timeout or any irregularity counts as 'not proved')."""

    def __init__(self):
        import subprocess
        self.p = subprocess.Popen(["z3", "-in"], stdin=subprocess.PIPE, stdout=subprocess.PIPE, stderr=subprocess.STDOUT, bufsize=0)
        self.buf = b""
        self.declared = set()
        self.nfacts = self.ncons = 0
        self.dead = False
        self.send("(set-option :print-success false)")

    def send(self, txt):
        try:
            self.p.stdin.write((txt + "\n").encode())
        except Exception:
            self.dead = True

    def check(self, timeout):
        """-> 'unsat' only if z3 printed exactly that for THIS query (a marker is echoed after every query, so a stray line can never be taken
        for an answer); anything else (sat, unknown, error text, timeout) is 'unknown' and an irregular reply ends the session"""
        import select, time, os
        self.n = getattr(self, "n", 0) + 1
        marker = "jpv-done-%d" % self.n
        self.send("(check-sat)\n(echo \"%s\")" % marker)
        if self.dead:
            return "unknown"
        got = []
        t_end = time.time() + timeout + 10
        while True:
            left = t_end - time.time()
            if left <= 0:
                self.close()
                return "unknown"
            if b"\n" not in self.buf:
                r, _, _ = select.select([self.p.stdout], [], [], left)
                if not r:
                    self.close()
                    return "unknown"
                chunk = os.read(self.p.stdout.fileno(), 65536)
                if not chunk:
                    self.close()
                    return "unknown"
                self.buf += chunk
                continue
            line, self.buf = self.buf.split(b"\n", 1)
            line = line.decode(errors="replace").strip()
            if line == marker:
                break
            if line:
                got.append(line)
        if got == ["unsat"]:
            return "unsat"
        if got not in (["sat"], ["unknown"]):
            self.close()
        return "unknown"

    def close(self):
        self.dead = True
        try:
            self.p.kill()
        except Exception:
            pass

    def __del__(self):
        self.close()


class WVal:
    """parts (optional): the 64-bit digits of the value, least significant first (each an int or a WVal below 2^64)"""
    __slots__ = ("p", "hi", "parts")

    def __init__(self, p, hi, parts=None):
        self.p, self.hi, self.parts = p, hi, parts

    def __repr__(self):
        return "WVal(%r <= %d)" % (self.p, self.hi)


class Cond:
    """a comparison of two word values, not yet decided"""
    __slots__ = ("op", "a", "b")

    def __init__(self, op, a, b):
        self.op, self.a, self.b = op, a, b


def wv(x):
    if isinstance(x, WVal):
        return x
    if isinstance(x, bool):
        x = int(x)
    if isinstance(x, int):
        if x < 0:
            raise SymxError("negative constant in word arithmetic")
        return WVal(Poly.const(x), x)
    raise SymxError("word value expected, got %r" % (x,))


def simp(v):
    if isinstance(v, WVal) and v.p.is_const():
        return v.p.const_value()
    return v


class WordDomain(RingDomain):
    def __init__(self, consts=None, obj_contracts=None, leaf_bits=(64, 128, 192, 256, 384, 512, 768), word_bits=64):
        self.wb = word_bits         # width of BigInt::word_t in the configuration being executed (64, or 32 without __int128)
        RingDomain.__init__(self, {"BigInt<%d>" % n for n in leaf_bits}, consts=consts, obj_contracts=obj_contracts)
        self.ncarry = 0
        self.splits = {}
        self.ranges = {}            # symbol -> inclusive upper bound
        self.divs = {}
        self.diffs = {}             # truncated difference -> (x, y, borrow)
        self.defs = []              # (symbol, kind, defining polynomial, parameter) in creation order: lets a residual be evaluated on concrete inputs
        self.origin = {}            # carry / borrow symbol -> the instruction (or source position) that introduced it
        self.note = ""
        self.borrows = {}
        self.facts = []             # (Poly, lo, hi): lo <= Poly <= hi  -- range facts of truncated values, for the relational bound prover
        self.known_hi = {}          # Poly -> inclusive upper bound of a NON-NEGATIVE program value with exactly this polynomial (flags, truncated words)
        self.pinned = []            # facts stated by the unit (preconditions, lemmas): always part of the hypothesis
        self.incremental = False    # one incremental z3 process per path instead of one process per query (all facts, asserted once)
        self.session = None
        self.local_facts = None     # None: carry exclusion uses every fact; K: only the K most recent ones (long straight-line routines)
        self.use_z3 = False         # relational bounds: before introducing a carry symbol, ask z3 (QF_LIA over the facts) whether the value fits
        self.z3_calls = 0
        self.z3_time = 0.0
        self.z3_budget = 600.0
        self.bounds = {}            # repr(poly) -> tightened inclusive upper bound learnt from a branch condition
        self.constraints = []       # (Poly, rel) path constraints of the branches taken
        self.sums = {}              # repr(truncated sum) -> (x, y, carry): for the carry-detect idiom  (x + y) < x
        self.trunc_products = []    # results of word*word products truncated to one word, in program order (Montgomery's u_i)

    # ---- values ----
    def input_word(self, name, hi=None):
        hi = (1 << self.wb) - 1 if hi is None else hi
        self.ranges[name] = hi
        return WVal(Poly.var(name), hi)

    def input_words(self, prefix, n):
        return [self.input_word("%s%d" % (prefix, i)) for i in range(n)]

    def split(self, v, w):
        """v == lo + 2^w * c with 0 <= lo < 2^w"""
        v = wv(v)
        top = 1 << w
        if v.hi < top:
            return simp(v), 0
        if v.p.is_const():
            c = v.p.const_value()
            return c & (top - 1), c >> w
        if all(c % top == 0 for c in v.p.t.values()):
            return 0, simp(WVal(Poly({m: c // top for m, c in v.p.t.items()}), v.hi >> w))
        # divisible part + small remainder: p == 2^w * X + Y with Y a known non-negative value below 2^w (a flag, a half word): exact, no symbol
        Yt = {m: c for m, c in v.p.t.items() if c % top}
        if Yt and len(Yt) < len(v.p.t):
            Y = Poly(Yt)
            yb = self.bound_of(Y)
            if yb is not None and yb < top:
                X = Poly({m: c // top for m, c in v.p.t.items() if c % top == 0})
                return simp(self.known(WVal(Y, yb))), simp(self.known(WVal(X, v.hi >> w)))
        # canonical form: a common factor 2^j of all coefficients is split off first, so that (x << j) truncated at w bits and
        # x >> (w - j) share one carry symbol
        j = 0
        while j < w and all(c % (2 << j) == 0 for c in v.p.t.values()):
            j += 1
        if j:
            g = 1 << j
            lo, c = self.split(WVal(Poly({m: c // g for m, c in v.p.t.items()}), v.hi >> j), w - j)
            lo = wv(lo)
            return simp(WVal(lo.p * g, lo.hi * g)), c
        key = (v.p, w)
        if key not in self.splits and self.use_z3 and v.hi < (top << 1) and self.prove_lt(v.p, top, recent=self.local_facts):
            # the value provably fits (relational bound over the recorded facts): no carry
            self.splits[key] = (WVal(v.p, top - 1, v.parts), 0)
        if key not in self.splits:
            self.ncarry += 1
            name = "c#%d" % self.ncarry
            self.defs.append((name, "carry", v.p, w))
            self.origin[name] = self.note
            self.ranges[name] = v.hi >> w
            c = WVal(Poly.var(name), v.hi >> w)
            lo = WVal(v.p - c.p * top, top - 1)
            self.facts.append((lo.p, 0, top - 1))
            self.known(lo)
            self.splits[key] = (lo, c)
        return self.splits[key]

    # ---- digit-wise shifts / ors (the doubling idioms of multi-precision code) ----
    def digits(self, v):
        v = wv(v)
        if v.parts is not None:
            return list(v.parts)
        if v.hi < (1 << self.wb):
            return [simp(v)]
        return None

    def from_digits(self, ds):
        ds = [simp(d) if isinstance(d, WVal) else d for d in ds]
        while len(ds) > 1 and isinstance(ds[-1], int) and ds[-1] == 0:
            ds.pop()
        if len(ds) == 1:
            return ds[0]
        p = sum((wv(d).p * (1 << (self.wb * i)) for i, d in enumerate(ds)), Poly())
        hi = sum(wv(d).hi << (self.wb * i) for i, d in enumerate(ds))
        return WVal(p, hi, parts=ds)

    def or_digit(self, u, v):
        if isinstance(u, int) and isinstance(v, int):
            return u | v
        if isinstance(u, int) and u == 0:
            return v
        if isinstance(v, int) and v == 0:
            return u
        for x, y in ((wv(u), wv(v)), (wv(v), wv(u))):
            k = y.hi.bit_length()
            if all(c % (1 << k) == 0 for c in x.p.t.values()):
                return WVal(x.p + y.p, x.hi + y.hi)
        raise SymxError("bitwise | on symbolic words (operands not provably disjoint)")

    def shift_digits(self, ds, k, width):
        """k > 0: left shift by k bits truncated to `width` bits; k < 0: right shift by -k bits"""
        W = self.wb
        n = width // W
        if k < 0:
            q, r = divmod(-k, W)
            ds = ds[q:]
            out = []
            for i in range(len(ds)):
                lo_i, hi_i = self.split(ds[i], r)                      # ds[i] == lo_i + 2^r * hi_i
                nxt = self.split(ds[i + 1], r)[0] if i + 1 < len(ds) else 0
                nxt = wv(nxt)
                out.append(simp(WVal(wv(hi_i).p + nxt.p * (1 << (W - r)), wv(hi_i).hi + (nxt.hi << (W - r)))))
            return self.from_digits(out or [0])
        q, r = divmod(k, W)
        out = [0] * q
        prev_hi = 0
        for d in ds:
            lo, hi = self.split(d, W - r)                             # d == lo + 2^(64-r) * hi ; (d << r) mod 2^64 == lo * 2^r
            lo, ph = wv(lo), wv(prev_hi)
            out.append(simp(WVal(lo.p * (1 << r) + ph.p, (lo.hi << r) + ph.hi)))
            prev_hi = hi
        out.append(prev_hi)
        return self.from_digits(out[:n])

    def borrow(self, a, b, w=64):
        """a - b == d - 2^w * bw with 0 <= d < 2^w, bw in {0, 1}"""
        a, b = wv(a), wv(b)
        top = 1 << w
        if b.p.is_zero():
            return simp(a), 0
        if a.p.is_const() and b.p.is_const():
            x = a.p.const_value() - b.p.const_value()
            return x % top, 1 if x < 0 else 0
        if b.p.is_const() and b.p.const_value() == 1 and self.refine(a).hi <= 1:
            # flag - 1: borrows exactly when the flag is 0 (the "set carry from a 0/1 register" idiom): no new symbol
            return simp(WVal((Poly.const(1) - a.p) * (top - 1), top - 1)), simp(WVal(Poly.const(1) - a.p, 1))
        if a.p.is_zero() and not b.p.is_const():
            # 0 - K*f for a 0/1 flag f: the result is (2^w - K)*f with borrow f (the "materialise / negate a carry" idioms)
            from math import gcd
            K = 0
            for c in b.p.t.values():
                K = gcd(K, abs(c))
            if 0 < K < top and all(c > 0 or True for c in b.p.t.values()):
                F = Poly({m: c // K for m, c in b.p.t.items()})
                fb = self.bound_of(F)
                if fb is not None and fb <= 1:
                    return simp(self.known(WVal(F * (top - K), top - K))), simp(self.known(WVal(F, 1)))
        diff = a.p - b.p
        if diff.is_const():
            x = diff.const_value()
            return x % top, 1 if x < 0 else 0
        key = (diff, w)
        if key not in self.borrows and self.use_z3 and self.prove_lt(-diff, 1, recent=self.local_facts):
            self.borrows[key] = (WVal(diff, a.hi), 0)
        if key not in self.borrows:
            self.ncarry += 1
            name = "b#%d" % self.ncarry
            self.defs.append((name, "borrow", diff, w))
            self.origin[name] = self.note
            self.ranges[name] = 1
            bw = WVal(Poly.var(name), 1)
            d = WVal(diff + bw.p * top, top - 1)
            self.facts.append((d.p, 0, top - 1))
            self.known(d)
            self.known(WVal(Poly.const(1) - bw.p, 1))
            self.borrows[key] = (d, bw)
        return self.borrows[key]

    # ---- relational bounds (z3, QF_LIA; non-linear monomials become opaque variables with interval bounds) ----
    def _lin(self, p, mons):
        terms = []
        for m, c in p.t.items():
            if not m:
                terms.append(str(c) if c >= 0 else "(- %d)" % -c)
                continue
            if len(m) == 1 and m[0][1] == 1:
                v = m[0][0]
            else:
                v = "mon!" + "*".join("%s^%d" % (x, e) for x, e in m)
                b = 1
                for x, e in m:
                    b *= self.ranges.get(x, (1 << 64) - 1) ** e
                mons[v] = b
            mons.setdefault(v, self.ranges.get(v, (1 << 64) - 1))
            sym = "|%s|" % v
            terms.append("(* %s %s)" % (str(c) if c >= 0 else "(- %d)" % -c, sym))
        if not terms:
            return "0"
        return "(+ %s)" % " ".join(terms) if len(terms) > 1 else terms[0]

    def prove_lt(self, p, bound, timeout=20, recent=None, only=None):
        """p < bound (for an integer-valued p the same as p <= bound - 1, but provable over the rationals more often)"""
        return self.prove_le(p, bound, timeout=timeout, strict=True, recent=recent, only=only)

    def prove_le(self, p, bound, timeout=20, ints=False, strict=False, recent=None, only=None):
        import time
        if self.z3_time > self.z3_budget:
            return False          # solver budget of this path exhausted: 'not proved' (a carry symbol is introduced instead)
        t0 = time.time()
        try:
            return self._prove_le(p, bound, timeout, ints, strict, recent, only)
        finally:
            self.z3_time += time.time() - t0

    def _prove_le(self, p, bound, timeout=20, ints=False, strict=False, recent=None, only=None):
        """True iff  p <= bound  follows from the symbol ranges, the recorded range facts and the path constraints.
        recent = K: only the K most recently recorded facts (plus the pinned preconditions) are used -- a weaker hypothesis, still sound;
        the carry chains of a multi-precision row only need the facts of that row.
        Decided over the RATIONALS by default (linear programming: unsatisfiable there implies unsatisfiable over the integers, so a True
        answer is sound; the bounds needed here are all LP consequences), over the integers when ints=True."""
        if self.incremental and only is None:
            return self._prove_inc(p, bound, timeout, strict)
        import groupdom
        mons = {}
        lines = []
        goal = self._lin(p, mons)
        body = []
        facts = self.facts if recent is None or len(self.facts) <= recent else (self.pinned + self.facts[-recent:])
        if only is not None:
            keep = set(only)
            facts = self.pinned + [f for f in self.facts if f[0] in keep]          # a chosen sub-hypothesis: weaker, still sound
        for (f, lo, hi) in facts:
            t = self._lin(f, mons)
            body.append("(assert (and (<= %d %s) (<= %s %d)))" % (lo, t, t, hi))
        rel = {"<": "(< %s 0)", ">": "(> %s 0)", "<=": "(<= %s 0)", ">=": "(>= %s 0)", "==": "(= %s 0)", "!=": "(not (= %s 0))"}
        for d, o in self.constraints:
            body.append("(assert %s)" % (rel[o] % self._lin(d, mons)))
        for v, hi in sorted(mons.items()):
            lines.append("(declare-const |%s| %s)" % (v, "Int" if ints else "Real"))
            lines.append("(assert (and (<= 0 |%s|) (<= |%s| %d)))" % (v, v, hi))
        txt = "(set-option :timeout %d)\n" % (timeout * 1000) + "\n".join(lines + body) + "\n(assert (%s %s %d))\n(check-sat)\n" % (">=" if strict else ">", goal, bound)
        self.z3_calls += 1
        if txt in groupdom._Z3_CACHE:
            return groupdom._Z3_CACHE[txt][0] == "unsat"
        res = groupdom._z3_run(txt, timeout)
        if res[0] != "unknown":
            groupdom._Z3_CACHE[txt] = res
        return res[0] == "unsat"

    def zero_symbols(self, p, timeout=20, only=None):
        """carry / borrow symbols occurring in p that are provably 0 on this path are recorded as equalities (then reduce_eq removes them).
        only: polynomials whose range facts (plus the pinned facts) are tried first as a small hypothesis; the full fact base is the fall-back."""
        found = []
        cands = [v for v in sorted(p.vars()) if v.startswith("c#") or v.startswith("b#")]
        if len(cands) > 6:
            return found          # a correct routine leaves at most a handful of dropped carries; do not burn solver time on a broken one
        for v in cands:
            ok = (only is not None and self.prove_lt(Poly.var(v), 1, timeout=timeout, only=only)) or self.prove_lt(Poly.var(v), 1, timeout=timeout)
            if ok:
                self.constraints.append((Poly.var(v), "=="))
                found.append(v)
        return found

    def evaluate(self, polys, inputs):
        """values of polynomials for concrete input words: every carry / borrow / quotient symbol is computed from its definition"""
        env = dict(inputs)
        for (name, kind, p, par) in self.defs:
            missing = [v for v in p.vars() if v not in env]
            if missing:
                raise KeyError("evaluate: no value for %s (needed by %s)" % (missing[:3], name))
            v = p.eval(env)
            if kind == "carry":
                env[name] = v >> par
            elif kind == "borrow":
                env[name] = 1 if v < 0 else 0
            else:
                env[name] = v // par
        return [p.eval(env) for p in polys], env

    def _prove_inc(self, p, bound, timeout, strict):
        ses = self.session
        if ses is None or ses.dead:
            ses = self.session = Z3Session()
            ses.send("(set-option :timeout %d)" % (timeout * 1000))
        rel = {"<": "(< %s 0)", ">": "(> %s 0)", "<=": "(<= %s 0)", ">=": "(>= %s 0)", "==": "(= %s 0)", "!=": "(not (= %s 0))"}
        out = []
        mons = {}
        for (f, lo, hi) in self.facts[ses.nfacts:]:
            t = self._lin(f, mons)
            out.append("(assert (and (<= %d %s) (<= %s %d)))" % (lo, t, t, hi))
        ses.nfacts = len(self.facts)
        for d, o in self.constraints[ses.ncons:]:
            out.append("(assert %s)" % (rel[o] % self._lin(d, mons)))
        ses.ncons = len(self.constraints)
        goal = self._lin(p, mons)
        decl = []
        for v, hi in sorted(mons.items()):
            if v not in ses.declared:
                ses.declared.add(v)
                decl.append("(declare-const |%s| Real)" % v)
                decl.append("(assert (and (<= 0 |%s|) (<= |%s| %d)))" % (v, v, hi))
        self.z3_calls += 1
        ses.send("\n".join(decl + out + ["(push)", "(assert (%s %s %d))" % (">=" if strict else ">", goal, bound)]))
        r = ses.check(timeout)
        ses.send("(pop)")
        return r == "unsat"

    def find_model(self, nonzero, inputs, timeout=60):
        """integer model of the recorded facts and path constraints in which the polynomial `nonzero` does not vanish (a candidate failing
        input for native replay); only attempted when everything is linear.  Returns {input symbol: value} or None."""
        import groupdom
        polys = [f for (f, lo, hi) in self.facts] + [d for d, o in self.constraints] + [nonzero]
        if any(p.degree() > 1 for p in polys):
            return None
        mons = {}
        rel = {"<": "(< %s 0)", ">": "(> %s 0)", "<=": "(<= %s 0)", ">=": "(>= %s 0)", "==": "(= %s 0)", "!=": "(not (= %s 0))"}
        body = []
        for (f, lo, hi) in self.facts:
            t = self._lin(f, mons)
            body.append("(assert (and (<= %d %s) (<= %s %d)))" % (lo, t, t, hi))
        for d, o in self.constraints:
            body.append("(assert %s)" % (rel[o] % self._lin(d, mons)))
        body.append("(assert (not (= %s 0)))" % self._lin(nonzero, mons))
        for v in inputs:
            mons.setdefault(v, self.ranges.get(v, (1 << 64) - 1))
        decl = []
        for v, hi in sorted(mons.items()):
            decl.append("(declare-const |%s| Int)" % v)
            decl.append("(assert (and (<= 0 |%s|) (<= |%s| %d)))" % (v, v, hi))
        txt = "(set-option :timeout %d)\n" % (timeout * 1000) + "\n".join(decl + body) + "\n(check-sat)\n(get-model)\n"
        res = groupdom._z3_run(txt, timeout)
        if res[0] != "sat":
            return None
        model = res[1]
        out = {}
        for v in inputs:
            if v in model:
                out[v] = model[v]
            else:
                return None
        return out

    def reset_facts(self):
        """forget every recorded range fact (abstraction point: weaker hypothesis from here on); path constraints are kept"""
        self.facts, self.pinned = [], []
        if self.session is not None:
            self.session.close()
            self.session = None

    def add_fact(self, p, lo, hi):
        self.facts.append((p, lo, hi))
        self.pinned.append((p, lo, hi))

    def known(self, v):
        """register the bound of a non-negative program value (so that it can be recognised inside larger sums)"""
        if isinstance(v, WVal) and not v.p.is_const():
            b = self.known_hi.get(v.p)
            if b is None or v.hi < b:
                self.known_hi[v.p] = v.hi
        return v

    def bound_of(self, Y):
        """inclusive upper bound of the polynomial Y if it is known to be a non-negative program value, else None"""
        if Y.is_const():
            c = Y.const_value()
            return c if c >= 0 else None
        if Y in self.known_hi:
            return self.known_hi[Y]
        if len(Y.t) == 1:
            (m, c), = Y.t.items()
            if len(m) == 1 and m[0][1] == 1 and c > 0 and m[0][0] in self.ranges:
                return c * self.ranges[m[0][0]]
        return None

    def fit(self, v, ts):
        ts = ts.replace("const ", "").strip()
        if ts not in MASK:
            raise SymxError("word arithmetic in type %r" % ts)
        return self.split(v, MASK[ts])[0]

    def width(self, ts):
        ts = ts.replace("const ", "").strip()
        if ts not in MASK:
            raise SymxError("word arithmetic in type %r" % ts)
        return MASK[ts]

    # ---- Interp hooks ----
    def binop(self, I, op, x, y, ts):
        if isinstance(x, tuple) and x[0] == "sizeof":
            x = self.sizeof(I, x[1])
        if isinstance(y, tuple) and y[0] == "sizeof":
            y = self.sizeof(I, y[1])
        if isinstance(x, int) and isinstance(y, int):
            return I.binop(op, x, y, ts)
        a, b = self.refine(wv(x)), self.refine(wv(y))
        if op == "+":
            r = self.fit(WVal(a.p + b.p, a.hi + b.hi), ts)
            if isinstance(r, WVal) and a.hi + b.hi >= (1 << self.width(ts)):
                self.sums[r.p] = (a, b, self.split(WVal(a.p + b.p, a.hi + b.hi), self.width(ts))[1])
            return r
        if op == "-":
            # unsigned subtraction: x - y + 2^w * (borrow), exact
            d, bw = self.borrow(a, b, self.width(ts))
            if not (isinstance(bw, int) and bw == 0):
                self.diffs[wv(d).p] = (a, b, bw)
            return d
        if op in ("<", ">", ">=", "<="):
            # carry-detect idiom: s = x + y truncated; (s < x) == (s < y) == carry out
            s_, o_ = (a, b) if op in ("<", ">=") else (b, a)
            ent = self.sums.get(s_.p)
            if ent is not None and any(o_.p == z.p for z in ent[:2]):
                c = wv(ent[2])
                return c if op in ("<", ">") else simp(WVal(Poly.const(1) - c.p, 1))
            return Cond(op, a, b)
        if op in ("==", "!="):
            return Cond(op, a, b)
        if op in ("/", "%"):
            if not isinstance(y, int) or y <= 0:
                raise SymxError("division of symbolic words by a non-constant")
            a = self.refine(a)
            if a.hi < y:
                return 0 if op == "/" else simp(a)
            key = (a.p, y)
            if key not in self.divs:
                self.ncarry += 1
                name = "q#%d" % self.ncarry
                self.defs.append((name, "quot", a.p, y))
                self.ranges[name] = a.hi // y
                qv = WVal(Poly.var(name), a.hi // y)
                self.divs[key] = (qv, WVal(a.p - qv.p * y, y - 1))     # Euclidean division: a == q*y + r, 0 <= r < y (the C definition)
            qv, rv_ = self.divs[key]
            return self.fit(qv, ts) if op == "/" else self.fit(rv_, ts)
        if op == "*":
            r = self.fit(WVal(a.p * b.p, a.hi * b.hi), ts)
            if self.width(ts) == self.wb:
                self.trunc_products.append(r)
            return r
        if op in ("<<", ">>"):
            if not isinstance(y, int):
                raise SymxError("shift by a symbolic amount")
            da = self.digits(a)
            if da is not None and y % self.wb:
                return self.shift_digits(da, y if op == "<<" else -y, self.width(ts))
            if op == "<<":
                return self.fit(WVal(a.p * (1 << y), a.hi << y), ts)
            return self.split(a, y)[1]
        if op == "&":
            # mask idiom: x & (2^k - 1)
            for u, m in ((a, y), (b, x)):
                if isinstance(m, int) and m >= 0 and (m & (m + 1)) == 0:
                    return self.split(u, m.bit_length())[0]
            raise SymxError("bitwise & on symbolic words (not a low mask)")
        if op == "|" and self.digits(a) is not None and self.digits(b) is not None:
            da, db = self.digits(a), self.digits(b)
            n = max(len(da), len(db))
            da, db = da + [0] * (n - len(da)), db + [0] * (n - len(db))
            return self.from_digits([self.or_digit(u, v) for u, v in zip(da, db)])
        if op == "|":
            # disjoint-or idiom: (hi << k) | lo with lo < 2^k
            for u, v in ((a, b), (b, a)):
                k = v.hi.bit_length()
                if all(c % (1 << k) == 0 for c in u.p.t.values()):
                    return self.fit(WVal(u.p + v.p, u.hi + v.hi), ts)
            raise SymxError("bitwise | on symbolic words (operands not provably disjoint)")
        raise SymxError("operator %s on symbolic words" % op)

    def cast(self, I, v, ts):
        if isinstance(v, WVal):
            t = ts.replace("const ", "").strip()
            if t in MASK:
                return self.split(v, MASK[t])[0]
            raise SymxError("cast of a symbolic word to %r" % ts)
        return v

    def refine(self, v):
        if isinstance(v, WVal):
            b = self.bounds.get(v.p)
            if b is not None and b < v.hi:
                return WVal(v.p, b, v.parts)
        return v

    def truth(self, I, v):
        """branch on a comparison of symbolic words: both outcomes are explored (fork); the outcome is recorded as a path constraint and,
        for comparisons against a constant, as a tightened bound.  Infeasible combinations are pruned with z3 when the constraints are linear."""
        if isinstance(v, WVal) and self.refine(v).hi <= 1 and not v.p.is_const():
            feas = [self.feasible(self.constraints + [(v.p - k, "==")]) for k in (1, 0)]
            if feas == [False, False]:
                from scen import Abandon
                raise Abandon()
            out = True if feas == [True, False] else (False if feas == [False, True] else I.path.decide(("flag", repr(v.p)[:100]), (True, False)))
            self.constraints.append((v.p - (1 if out else 0), "=="))
            return out
        if isinstance(v, WVal):
            v = Cond("!=", v, wv(0))
        if not isinstance(v, Cond):
            raise SymxError("branch on %r" % (v,))
        a, b = self.refine(v.a), self.refine(v.b)
        d = a.p - b.p
        if d.is_const():
            c = d.const_value()
            return {"<": c < 0, ">": c > 0, "<=": c <= 0, ">=": c >= 0, "==": c == 0, "!=": c != 0}[v.op]
        neg = {"<": ">=", ">": "<=", "<=": ">", ">=": "<", "==": "!=", "!=": "=="}
        feas = [self.feasible(self.constraints + [(d, op_)]) for op_ in (v.op, neg[v.op])]
        if feas == [True, False]:
            out = True
        elif feas == [False, True]:
            out = False
        elif feas == [False, False]:
            from scen import Abandon
            raise Abandon()
        else:
            out = I.path.decide(("cmp", v.op, repr(d)[:100]), (True, False))
        op_ = v.op if out else neg[v.op]
        self.constraints.append((d, op_))
        if op_ == "!=" and self.use_z3:
            # integers: d != 0 and d >= 0 give d >= 1 (the rational relaxation used by prove_le cannot see that by itself)
            if self.prove_lt(-d, 1):
                self.constraints.append((d - 1, ">="))
            elif self.prove_lt(d, 1):
                self.constraints.append((d + 1, "<="))
        if op_ in ("<", ">"):
            self.constraints.append((d + 1, "<=") if op_ == "<" else (d - 1, ">="))
        # bounds from comparisons against constants
        for x, y, o in ((a, b, op_), (b, a, {"<": ">", ">": "<", "<=": ">=", ">=": "<=", "==": "==", "!=": "!="}[op_])):
            if y.p.is_const() and not x.p.is_const():
                c = y.p.const_value()
                nb = {"<": c - 1, "<=": c, "==": c}.get(o)
                if nb is not None:
                    k = x.p
                    self.bounds[k] = min(self.bounds.get(k, x.hi), nb)
        return out

    def reduce_eq(self, p):
        """p rewritten with the equalities of the path (each solved for a symbol with coefficient +-1) -- identities are claimed per path"""
        eqs = [d for d, o in self.constraints if o == "=="]
        done = True
        while done:
            done = False
            for i, r in enumerate(eqs):
                cands = sorted((m[0][0], c) for m, c in r.t.items() if len(m) == 1 and m[0][1] == 1 and abs(c) == 1
                               and sum(1 for m2 in r.t if any(v == m[0][0] for v, _ in m2)) == 1)
                if not cands:
                    continue
                v, c = cands[0]
                expr = Poly.var(v) - r * c
                p = p.subs({v: expr})
                eqs = [x.subs({v: expr}) for j, x in enumerate(eqs) if j != i]
                eqs = [x for x in eqs if not x.is_zero()]
                done = True
                break
        return p

    def feasible(self, cons):
        import groupdom
        if any(d.degree() > 1 for d, _ in cons):
            return True
        rel = {"<": "(< %s 0)", ">": "(> %s 0)", "<=": "(<= %s 0)", ">=": "(>= %s 0)", "==": "(= %s 0)", "!=": "(not (= %s 0))"}
        rng = {}
        for d, _ in cons:
            for v_ in d.vars():
                rng[v_] = (0, self.ranges.get(v_, (1 << 64) - 1) + 1)
        st, _m = groupdom.z3_query(rng, [], [rel[o] % groupdom._smt_term(d) for d, o in cons], 20)
        return st != "unsat"

    def logical_not(self, I, v):
        if isinstance(v, Cond):
            neg = {"<": ">=", ">": "<=", "<=": ">", ">=": "<", "==": "!=", "!=": "=="}
            return Cond(neg[v.op], v.a, v.b)
        raise SymxError("logical not of %r" % (v,))

    def select(self, I, c, ea, eb):
        """c ? a : b for a 0/1-valued symbolic c and side-effect-free arms: c*a + (1-c)*b"""
        if isinstance(c, Cond):
            return ea() if self.truth(I, c) else eb()
        c = wv(c)
        if c.hi > 1:
            raise SymxError("conditional on a symbolic word that is not a 0/1 flag")
        a, b = wv(ea()), wv(eb())
        return simp(WVal(c.p * a.p + (Poly.const(1) - c.p) * b.p, max(a.hi, b.hi)))

    # ---- BigInt leaves: val is a list of 64-bit words ----
    def nwords(self, t):
        return max(1, int(BIGINT_RE.match(t).group(1)) // self.wb)

    def words(self, leaf):
        if leaf.val is POISON:
            leaf.val = [POISON] * self.nwords(leaf.type)
        elif isinstance(leaf.val, int):
            v = leaf.val
            leaf.val = [(v >> (self.wb * i)) & ((1 << self.wb) - 1) for i in range(self.nwords(leaf.type))]
        return leaf.val

    def value(self, leaf):
        """the integer value of a BigInt leaf as a polynomial"""
        ws = self.words(leaf)
        if any(w is POISON for w in ws):
            raise Finding("uninitialised", "read of uninitialised word of %s" % leaf.type)
        return sum((wv(w).p * (1 << (self.wb * i)) for i, w in enumerate(ws)), Poly())

    def zero(self, t):
        return POISON

    def leaf_member(self, I, leaf, name):
        if self.is_big(leaf.type) and (name == "words" or (name == "std_dwords" and self.wb == 64) or (name == "std_words" and self.wb == 32)):
            return WordArr(self, leaf)
        if self.is_big(leaf.type) and (name == "dwords" or (name == "std_dwords" and self.wb == 32)):
            return DwordArr(self, leaf)
        if self.is_big(leaf.type) and name == "bytes":
            return ByteArr(self, leaf)
        raise SymxError("member .%s of %s in the word domain" % (name, leaf.type))

    def leaf_from_init(self, I, t, src):
        if isinstance(src, Leaf):
            return list(self.words(src))
        if isinstance(src, int):
            return src
        raise SymxError("leaf initialiser from %r" % (src,))

    def reinterpret(self, I, v, ts):
        m = re.search(r"BigInt<(\d+)>", ts)
        if isinstance(v, Ptr) and isinstance(v.arr, ByteCell) and m:
            bc = v.arr
            n = int(m.group(1)) // self.wb
            if bc.idx % (self.wb // 8):
                raise SymxError("reinterpret_cast at a byte offset that is not a word boundary")
            k = bc.idx // (self.wb // 8)
            ws = self.words(bc.leaf)
            if k + n > len(ws):
                raise Finding("out-of-bounds", "reinterpret_cast window [%d, %d) of a %d-word object" % (k, k + n, len(ws)))
            return Ptr(Leaf("BigInt<%d>" % (self.wb * n), list(ws[k:k + n]), tag=("window", bc.leaf, k)))
        return v

    def contract_for(self, I, f, this, args):
        if f.qname in self.obj_contracts:
            return self.obj_contracts[f.qname]
        if isinstance(this, Leaf) and f.name in ("copy", "clear"):
            return self.simple_method
        return None

    def simple_method(self, I, f, this, args):
        if f.name == "clear":
            this.val = [0] * self.nwords(this.type)
            return None
        src = args[0]
        ws = list(self.words(src))
        n = self.nwords(this.type)
        this.val = (ws + [0] * n)[:n] if len(ws) <= n else None
        if this.val is None:
            raise SymxError("narrowing BigInt copy")
        return None


class WordArr:
    def __init__(self, dom, leaf):
        self.dom, self.leaf = dom, leaf

    def subscript(self, I, i):
        if not isinstance(i, int):
            raise SymxError("symbolic word index")
        ws = self.dom.words(self.leaf)
        if not (0 <= i < len(ws)):
            raise Finding("out-of-bounds", "word %d of %s" % (i, self.leaf.type))
        return WordRef(self.dom, self.leaf, i)


class WordRef(Cell):
    __slots__ = ("dom", "leaf", "idx")

    def __init__(self, dom, leaf, idx):
        self.dom, self.leaf, self.idx = dom, leaf, idx

    @property
    def v(self):
        return self.dom.words(self.leaf)[self.idx]

    @v.setter
    def v(self, x):
        if isinstance(x, WVal) and x.hi >= (1 << self.dom.wb):
            raise SymxError("store of an unreduced value into a word")
        self.dom.words(self.leaf)[self.idx] = x


class ByteArr:
    def __init__(self, dom, leaf):
        self.dom, self.leaf = dom, leaf

    def subscript(self, I, i):
        return ByteCell(self.dom, self.leaf, i)


class ByteCell(Cell):
    """only its address is used (reinterpret_cast of &x.bytes[k])"""
    __slots__ = ("dom", "leaf", "idx")

    def __init__(self, dom, leaf, idx):
        self.dom, self.leaf, self.idx = dom, leaf, idx

    @property
    def v(self):
        raise SymxError("byte read of a BigInt in the word domain")

    @v.setter
    def v(self, x):
        raise SymxError("byte write of a BigInt in the word domain")


class DwordArr:
    def __init__(self, dom, leaf):
        self.dom, self.leaf = dom, leaf

    def subscript(self, I, i):
        if not isinstance(i, int):
            raise SymxError("symbolic dword index")
        ws = self.dom.words(self.leaf)
        if not (0 <= 2 * i + 1 < len(ws)):
            raise Finding("out-of-bounds", "dword %d of %s" % (i, self.leaf.type))
        return DwordRef(self.dom, self.leaf, i)


class DwordRef(Cell):
    """128-bit view of two adjacent words (little endian)"""
    __slots__ = ("dom", "leaf", "idx")

    def __init__(self, dom, leaf, idx):
        self.dom, self.leaf, self.idx = dom, leaf, idx

    @property
    def v(self):
        ws = self.dom.words(self.leaf)
        lo, hi = ws[2 * self.idx], ws[2 * self.idx + 1]
        if lo is POISON or hi is POISON:
            raise Finding("uninitialised", "read of an uninitialised double word of %s" % self.leaf.type)
        return self.dom.from_digits([lo, hi])

    @v.setter
    def v(self, x):
        x = wv(x)
        if x.hi >= (1 << (2 * self.dom.wb)):
            raise SymxError("store of an unreduced value into a double word")
        ds = self.dom.digits(x)
        if ds is not None and len(ds) <= 2:
            lo, hi = (ds + [0])[:2]
        else:
            lo, hi = self.dom.split(x, self.dom.wb)
        ws = self.dom.words(self.leaf)
        ws[2 * self.idx], ws[2 * self.idx + 1] = lo, hi
