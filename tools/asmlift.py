"""asmlift: lift the MACHINE CODE of an x86-64 routine (objdump -d of the object assembled, on every run, from the .s file in
/repo's working tree) to straight-line C with explicit registers, flags, a private stack and gotos, so that CBMC can enforce on it
the very contract of the portable C++ routine (C03).

Subset (inventoried on the three .s files): mov (q/l, reg/mem/imm), add adc sub sbb cmp neg xor and or lea(no) inc dec,
mul mulx adcx adox imul (-> the same uninterpreted M as the C++ path, or the real product), push pop, jc jb jae jnc jz je jne jnz ja jbe,
ret, bt, seto setc, shr/shl by immediate.  Anything else aborts the extraction (exit 2, never a violation).

Memory model: a memory operand's base register must still hold one of the routine's pointer parameters (tracked statically per
program point: a register stops being a pointer when it is written).  Stack: push/pop on a private array; the balance and the
callee-saved registers are obligations of the lifted function itself."""
import re, subprocess, os
from jast import ExtractionError, REPO

REGS = ["rax", "rbx", "rcx", "rdx", "rsi", "rdi", "rbp", "r8", "r9", "r10", "r11", "r12", "r13", "r14", "r15"]
ARGS = ["rdi", "rsi", "rdx", "rcx", "r8", "r9"]
CALLEE_SAVED = ["rbx", "rbp", "r12", "r13", "r14", "r15"]
R32 = {"eax": "rax", "ebx": "rbx", "ecx": "rcx", "edx": "rdx", "esi": "rsi", "edi": "rdi", "ebp": "rbp",
       "r8d": "r8", "r9d": "r9", "r10d": "r10", "r11d": "r11", "r12d": "r12", "r13d": "r13", "r14d": "r14", "r15d": "r15"}
R8 = {"al": "rax", "bl": "rbx", "cl": "rcx", "dl": "rdx", "sil": "rsi", "dil": "rdi", "r8b": "r8", "r9b": "r9", "r10b": "r10", "r11b": "r11"}


import threading
_LOCK = threading.Lock()
_CACHE = {}


def disassemble(sfile, wd):
    with _LOCK:
        key = (sfile, os.path.getmtime(sfile), os.path.getsize(sfile))
        if key not in _CACHE:
            _CACHE[key] = _disassemble(sfile, wd)
        return _CACHE[key]


def _disassemble(sfile, wd):
    o = os.path.join(wd, os.path.basename(sfile) + ".%d.o" % os.getpid())
    r = subprocess.run(["as", sfile, "-o", o], capture_output=True, text=True)
    if r.returncode != 0:
        raise ExtractionError("assembler failed on %s: %s" % (sfile, r.stderr[-400:]))
    out = subprocess.run(["objdump", "-d", "--no-show-raw-insn", o], capture_output=True, text=True).stdout
    funcs, cur = {}, None
    for line in out.splitlines():
        m = re.match(r"^([0-9a-f]+) <([^>]+)>:$", line)
        if m:
            cur = m.group(2)
            funcs[cur] = []
            continue
        m = re.match(r"^\s*([0-9a-f]+):\s+(.*)$", line)
        if m and cur:
            funcs[cur].append((int(m.group(1), 16), m.group(2).strip()))
    return funcs


def routine(funcs, name):
    """instructions of a global routine including its local-label continuations (until the next .globl routine)"""
    names = list(funcs)
    if name not in funcs:
        raise ExtractionError("assembly routine %s not found" % name)
    i = names.index(name)
    ins = list(funcs[name])
    for n in names[i + 1:]:
        if n.startswith(name + "_"):
            ins += funcs[n]
        else:
            break
    return ins


class Lift:
    def __init__(self, ins, name, params, ret="uint64_t", mul="real"):
        """params: [(c_type, c_name, 'ptr'|'val')] in System V order"""
        self.ins, self.name, self.params, self.ret, self.mul = ins, name, params, ret, mul
        self.lines = []
        self.addr_set = {a for a, _ in ins}
        self.targets = set()

    def fail(self, t):
        raise ExtractionError("asmlift: unsupported instruction '%s' in %s" % (t, self.name))

    # operand access -------------------------------------------------------------------------------------------------------
    def reg(self, tok):
        tok = tok.lstrip("%")
        if tok in REGS:
            return tok, 64
        if tok in R32:
            return R32[tok], 32
        if tok in R8:
            return R8[tok], 8
        self.fail("register " + tok)

    def rd(self, op, ptrs):
        """C rvalue (uint64_t) of an operand"""
        op = op.strip()
        if op.startswith("$"):
            v = int(op[1:], 0)
            return "((uint64_t)%dULL)" % (v & (2**64 - 1))
        m = re.match(r"^(-?(?:0x)?[0-9a-f]*)\(%(\w+)\)$", op)
        if m:
            off = int(m.group(1), 0) if m.group(1) else 0
            base = m.group(2)
            if base == "rsp":
                self.fail("stack-relative operand " + op)
            if base not in ptrs:
                raise ExtractionError("asmlift: memory operand %s in %s through a register that no longer holds a pointer parameter" % (op, self.name))
            if off % 8:
                self.fail("unaligned displacement " + op)
            return "P_%s[%d]" % (ptrs[base], off // 8)
        r, w = self.reg(op)
        if w == 64:
            return r
        return "(%s & %s)" % (r, "0xffffffffULL" if w == 32 else "0xffULL")

    def wr(self, op, val, ptrs):
        """C statement storing val (uint64_t expr) to an operand; returns (stmt, new ptrs)"""
        op = op.strip()
        m = re.match(r"^(-?(?:0x)?[0-9a-f]*)\(%(\w+)\)$", op)
        if m:
            return self.rd(op, ptrs) + " = " + val + ";", ptrs
        r, w = self.reg(op)
        ptrs = {k: v for k, v in ptrs.items() if k != r}
        if w == 64:
            return "%s = %s;" % (r, val), ptrs
        if w == 32:
            return "%s = (%s) & 0xffffffffULL;" % (r, val), ptrs
        return "%s = (%s & ~0xffULL) | ((%s) & 0xffULL);" % (r, r, val), ptrs

    def M(self, a, b):
        if self.mul == "M":
            return "jpv_M(%s, %s)" % (a, b)
        return "((jpv_u128)(%s) * (jpv_u128)(%s))" % (a, b)

    # ----------------------------------------------------------------------------------------------------------------------
    def lift(self):
        L = self.lines
        ptrs0 = {ARGS[i]: p[1] for i, p in enumerate(self.params) if p[2] == "ptr"}
        # static pointer tracking needs program order + joins: a label's pointer set is the intersection over its predecessors
        state = {}
        order = [a for a, _ in self.ins]
        ptr_at = {order[0]: dict(ptrs0)}
        L.append("%s %s(%s)" % (self.ret, self.name, ", ".join("%s %s" % (p[0], p[1]) for p in self.params)))
        body = []
        body.append("  uint64_t %s;" % ", ".join("%s = jpv_init_%s" % (r, r) if r in CALLEE_SAVED else r for r in REGS))
        body.append("  _Bool CF = 0, ZF = 0, OF = 0; uint64_t jpv_stack[8]; int jpv_sp = 0; jpv_u128 jpv_t;")
        for i, p in enumerate(self.params):
            if p[2] == "ptr":
                body.append("  uint64_t *P_%s = (uint64_t *)%s; %s = (uint64_t)0;" % (p[1], p[1], ARGS[i]))
            else:
                body.append("  %s = (uint64_t)%s;" % (ARGS[i], p[1]))
        cur = dict(ptrs0)
        live = True
        for idx, (addr, text) in enumerate(self.ins):
            if addr in ptr_at:
                cur = dict(ptr_at[addr]) if not live else {k: v for k, v in cur.items() if ptr_at[addr].get(k) == v}
            live = True
            body.append("L_%x: ;" % addr)
            text = re.sub(r"\s+#.*$", "", text)
            parts = text.split(None, 1)
            mn = parts[0]
            ops = [o.strip() for o in re.split(r",(?![^()]*\))", parts[1])] if len(parts) > 1 else []
            mn0 = mn
            if mn in ("movq", "mov", "movl", "movabs"):
                st, cur2 = self.wr(ops[1], self.rd(ops[0], cur), cur)
                # moving a pointer register copies pointer-ness
                src = ops[0].lstrip("%")
                dst = ops[1].lstrip("%")
                if src in cur and dst in REGS:
                    cur2 = dict(cur2)
                    cur2[dst] = cur[src]
                    st = "%s = 0; /* pointer copy */" % dst
                body.append("  " + st)
                cur = cur2
            elif mn in ("add", "addq", "adc", "adcq", "adcx", "adox"):
                cin = {"adc": "CF", "adcq": "CF", "adcx": "CF", "adox": "OF"}.get(mn, "0")
                body.append("  jpv_t = (jpv_u128)%s + (jpv_u128)%s + (jpv_u128)%s;" % (self.rd(ops[1], cur), self.rd(ops[0], cur), cin))
                st, cur = self.wr(ops[1], "(uint64_t)jpv_t", cur)
                body.append("  " + st)
                if mn == "adox":
                    body.append("  OF = (_Bool)(jpv_t >> 64);")
                elif mn == "adcx":
                    body.append("  CF = (_Bool)(jpv_t >> 64);")
                else:
                    body.append("  CF = (_Bool)(jpv_t >> 64); ZF = ((uint64_t)jpv_t == 0);")
            elif mn in ("sub", "subq", "sbb", "sbbq", "cmp", "cmpq"):
                cin = "CF" if mn.startswith("sbb") else "0"
                a, b = self.rd(ops[1], cur), self.rd(ops[0], cur)
                body.append("  jpv_t = (jpv_u128)%s - (jpv_u128)%s - (jpv_u128)%s;" % (a, b, cin))
                if not mn.startswith("cmp"):
                    st, cur = self.wr(ops[1], "(uint64_t)jpv_t", cur)
                    body.append("  " + st)
                body.append("  CF = (_Bool)((jpv_t >> 64) & 1); ZF = ((uint64_t)jpv_t == 0);")
            elif mn in ("neg", "negq"):
                a = self.rd(ops[0], cur)
                body.append("  CF = (%s != 0);" % a)
                st, cur = self.wr(ops[0], "(uint64_t)(0 - %s)" % a, cur)
                body.append("  " + st + " ZF = (%s == 0);" % self.rd(ops[0], cur))
            elif mn in ("xor", "xorq", "xorl", "and", "andq", "or", "orq"):
                opc = {"x": "^", "a": "&", "o": "|"}[mn[0]]
                st, cur = self.wr(ops[1], "(%s %s %s)" % (self.rd(ops[1], cur), opc, self.rd(ops[0], cur)), cur)
                body.append("  " + st + " CF = 0; OF = 0; ZF = (%s == 0);" % self.rd(ops[1], cur))
            elif mn in ("mul", "mulq"):
                body.append("  jpv_t = %s; rax = (uint64_t)jpv_t; rdx = (uint64_t)(jpv_t >> 64); CF = OF = (rdx != 0);" % self.M("rax", self.rd(ops[0], cur)))
                cur = {k: v for k, v in cur.items() if k not in ("rax", "rdx")}
            elif mn == "mulx":
                # mulx src, lo, hi : hi:lo = rdx * src, flags untouched
                body.append("  jpv_t = %s;" % self.M("rdx", self.rd(ops[0], cur)))
                st1, cur = self.wr(ops[1], "(uint64_t)jpv_t", cur)
                st2, cur = self.wr(ops[2], "(uint64_t)(jpv_t >> 64)", cur)
                body.append("  " + st1 + " " + st2)
            elif mn in ("imul", "imulq") and len(ops) == 2:
                st, cur = self.wr(ops[1], "(uint64_t)(%s * %s)" % (self.rd(ops[1], cur), self.rd(ops[0], cur)), cur)
                body.append("  " + st)
            elif mn in ("push", "pushq"):
                body.append("  __CPROVER_assert(jpv_sp < 8, \"asm: stack depth\"); jpv_stack[jpv_sp++] = %s;" % self.rd(ops[0], cur))
            elif mn in ("pop", "popq"):
                r, _ = self.reg(ops[0])
                body.append("  __CPROVER_assert(jpv_sp > 0, \"asm: pop from an empty frame\"); %s = jpv_stack[--jpv_sp];" % r)
                cur = {k: v for k, v in cur.items() if k != r}
            elif mn in ("ret", "retq"):
                body.append("  goto L_ret;")
                live = False
            elif mn in ("jc", "jb", "jnae", "jae", "jnc", "jnb", "jz", "je", "jnz", "jne", "ja", "jbe", "jmp", "jmpq"):
                m = re.match(r"^([0-9a-f]+)", ops[0])
                tgt = int(m.group(1), 16)
                if tgt not in self.addr_set:
                    self.fail(text + " (target outside the routine)")
                cond = {"jc": "CF", "jb": "CF", "jnae": "CF", "jae": "!CF", "jnc": "!CF", "jnb": "!CF", "jz": "ZF", "je": "ZF", "jnz": "!ZF", "jne": "!ZF",
                        "ja": "(!CF && !ZF)", "jbe": "(CF || ZF)", "jmp": "1", "jmpq": "1"}[mn]
                if tgt <= addr:
                    self.fail(text + " (backward jump: loops are not lifted)")
                body.append("  if (%s) goto L_%x;" % (cond, tgt))
                prev = ptr_at.get(tgt)
                ptr_at[tgt] = dict(cur) if prev is None else {k: v for k, v in prev.items() if cur.get(k) == v}
                if mn.startswith("jmp"):
                    live = False
            elif mn in ("seto", "setc", "setb"):
                st, cur = self.wr(ops[0], "(uint64_t)%s" % ("OF" if mn == "seto" else "CF"), cur)
                body.append("  " + st)
            elif mn in ("movzbl", "movzbq", "movzbw", "movzwl", "movzwq") and not ops[0].endswith(")"):
                # zero extension of a narrower register (flags untouched); a 32-bit destination clears the upper half as well
                r_, w_ = self.reg(ops[0])
                sw = 8 if mn[4] == "b" else 16
                if mn == "movzbw":
                    self.fail(text)
                st, cur = self.wr(ops[1], "(%s & %s)" % (r_, "0xffULL" if sw == 8 else "0xffffULL"), cur)
                body.append("  " + st)
            elif mn in ("nop", "nopw", "nopl", "xchg", "data16", "cs"):
                pass
            else:
                self.fail(text)
        body.append("L_ret: ;")
        body.append("  __CPROVER_assert(jpv_sp == 0, \"asm: stack balanced at return\");")
        for r in CALLEE_SAVED:
            body.append("  __CPROVER_assert(%s == jpv_init_%s, \"asm: callee-saved %s preserved\");" % (r, r, r))
        if self.ret != "void":
            body.append("  return (%s)rax;" % self.ret)
        return "\n".join(L) + "\n@CONTRACT@{\n" + "\n".join(body) + "\n}\n"


PRELUDE = "\n".join("uint64_t jpv_init_%s;" % r for r in CALLEE_SAVED) + "\n"
