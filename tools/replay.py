"""Replay of verifier counterexamples against the real, natively compiled C++.

BV counterexample = witness words of every pointer/scalar parameter + alias pattern taken from the
cbmc trace.  Replay:
  1. native: a generated C++ driver (real headers + real sources of /repo's working tree) places the
     witness bytes, applies the alias pattern, calls the REAL function and prints the resulting objects;
  2. decision: the same contract is re-checked by cbmc with the inputs pinned to the witness (extra
     requires) and the outputs pinned to what the real code produced (extra ensures "model == native");
     the violation is confirmed on the real code iff the originally refuted obligation is refuted again
     on this single input AND the model==native obligations hold.
"""
import os, re, json, subprocess, time
import cbmcrun, units
from jast import unity_source, clang_flags, ExtractionError, norm_type


def _witness(log):
    raw = cbmcrun.witness_values(log)
    w = {}
    for k, v in raw.items():
        m = re.match(r"jpv_w_(\w+?)(?:\[(\d+)l?\])?$", k)
        if not m:
            continue
        name, idx = m.group(1), m.group(2)
        if idx is None:
            w[name] = v
        else:
            w.setdefault(name, {})[int(idx)] = v
    return w


def cxx_driver(tu, em, f, w):
    """C++ program calling the real function on the witness."""
    scopes = em.scopes_of(f)
    lines = [unity_source(), "#include <stdio.h>", "#include <string.h>",
             "using namespace embedded_pairing; using namespace embedded_pairing::core; using namespace embedded_pairing::bls12_381;",
             "static void jpv_out(const char* n, const void* p, size_t s){ printf(\"%s\", n); for(size_t i=0;i<s/8;i++) printf(\" %llu\", (unsigned long long)((const uint64_t*)p)[i]); printf(\"\\n\"); }",
             "int main(){"]
    names = []
    objs = []
    params = []
    if f.is_method and not f.is_static:
        params.append(("self", ("const " if f.is_const else "") + f.record.qname + " &"))
    for i, p in enumerate(f.params):
        params.append((p.get("name", "jpv_arg%d" % i), tu.canon(f.param_type(i), scopes)))
    ptr_names = [n for n, t in params if t.rstrip().endswith("&") or "& __restrict" in t or "*" in t]
    # alias classes
    rep = {}
    for n in ptr_names:
        rep[n] = n
    for i, a in enumerate(ptr_names):
        for b in ptr_names[i + 1:]:
            if w.get("alias_%s_%s" % (a, b)) == 1:
                rep[b] = rep[a]
    for n, t in params:
        base = re.sub(r"(&|\*|\b__restrict\b|\bconst\b)", "", t).strip()
        if n in ptr_names:
            words = w.get(n)
            if not isinstance(words, dict):
                raise ExtractionError("no witness for parameter " + n)
            if rep[n] == n:
                lines.append("  alignas(16) static uint64_t buf_%s[%d] = {%s};" % (n, len(words), ", ".join("%dULL" % words[i] for i in range(len(words)))))
                objs.append((n, len(words)))
            lines.append("  %s* %s = (%s*)buf_%s;" % (base, n, base, rep[n]))
        else:
            lines.append("  %s %s = (%s)%dULL;" % (t, n, t, w.get(n, 0)))
    args = ", ".join(("*" + n) if n in ptr_names else n for n, t in params if n != "self")
    name = f.name + ("<" + ",".join(f.targs) + ">" if f.targs and all(re.fullmatch(r"-?\d+", x) for x in f.targs) else "")
    if f.is_method and not f.is_static:
        call = "self->%s%s(%s)" % ("template " if "<" in name else "", name, args)
    elif f.is_method:
        call = "%s::%s(%s)" % (f.record.qname, name, args)
    else:
        pre = "::".join(x for x in f.ns if x)
        call = "%s::%s(%s)" % (pre, name, args)
    ret = f.node["type"]["qualType"].split("(")[0].strip()
    if ret != "void":
        lines.append("  unsigned long long jpv_ret = (unsigned long long)(long long)%s;" % call)
        lines.append("  printf(\"ret %llu\\n\", jpv_ret);")
    else:
        lines.append("  %s;" % call)
    for n, k in objs:
        lines.append("  jpv_out(\"%s\", buf_%s, %d);" % (n, n, 8 * k))
    lines.append("  return 0; }")
    return "\n".join(lines), rep


def run_native(src, wd, tag, sanitize=False):
    p = os.path.join(wd, tag + ".cpp")
    open(p, "w").write(src)
    exe = os.path.join(wd, tag)
    cmd = ["clang++"] + clang_flags() + ["-O1", "-w", p, "-o", exe] + (["-fsanitize=address,undefined", "-fno-sanitize-recover=undefined"] if sanitize else [])
    r = subprocess.run(cmd, capture_output=True, text=True)
    if r.returncode != 0:
        return None, "native driver does not compile: " + r.stderr[-1500:]
    try:
        r = subprocess.run([exe], capture_output=True, text=True, timeout=120)
    except subprocess.TimeoutExpired:
        return None, "native driver timed out"
    out = {}
    for line in r.stdout.splitlines():
        parts = line.split()
        if parts:
            out[parts[0]] = [int(x) for x in parts[1:]]
    return out, (r.stderr[-2000:] if r.returncode != 0 or r.stderr else "")


def write_replay(root, prop, unit, result, fresh, tu, wd):
    d = os.path.join(root, "replay", prop)
    os.makedirs(d, exist_ok=True)
    ob = fresh[0][0]
    fn = re.sub(r"[^A-Za-z0-9_.]+", "_", unit.label + "." + ob)
    if len(fn) > 120:
        import hashlib
        fn = fn[:100] + "_" + hashlib.sha1(fn.encode()).hexdigest()[:12]
    path = os.path.join(d, fn + ".json")
    rec = dict(property=prop, unit=unit.label, back_end=unit.back_end, target=getattr(unit, "target", None),
               refuted=[list(f) for f in fresh], time=time.strftime("%Y-%m-%dT%H:%M:%SZ", time.gmtime()))
    found = False
    try:
        if unit.back_end.startswith("BV"):
            found = _replay_bv(rec, unit, result, fresh, tu, wd)
        elif getattr(unit, "replay_hook", None) is not None:
            found = bool(unit.replay_hook(rec, unit, result, fresh, tu, wd, result.get("counterexample")))
        elif unit.back_end == "RING":
            cx = result.get("counterexample")
            if cx:
                rec["counterexample"] = {k: (repr(v)[:600] if k in ("code_poly", "spec_poly", "sym_values") else v) for k, v in cx.items()}
                found = replay_ring(rec, unit, result, tu, wd)
        else:
            cx = result.get("counterexample")
            if cx:
                rec["counterexample"] = cx
                if unit.back_end == "GROUP" and "op" in cx:
                    import wkd_native
                    op_ = str(cx["op"])
                    mod = __import__("pairing_native") if op_.startswith("pairing:") else (__import__("lq_native") if op_.startswith("lq:") else wkd_native)
                    ok, text = mod.replay(cx, wd, tag=unit.name()[:40] + "_native")
                    cx["confirmed_on_real_code"] = bool(ok)
                    rec["native_replay_output"] = text
                found = bool(cx.get("confirmed_on_real_code"))
    except Exception as e:      # replay trouble never hides the refutation
        rec["replay_error"] = repr(e)
    log = result.get("log", "")
    rec["verifier_output_tail"] = log[-6000:]
    rec["found_failing_input"] = found
    with open(path, "w") as fh:
        json.dump(rec, fh, indent=1)
    return path, found


def _witness_from(raw):
    w = {}
    for k, v in raw.items():
        m = re.match(r"jpv_w_(\w+?)(?:\[(\d+)l?\])?$", k)
        if not m:
            continue
        name, idx = m.group(1), m.group(2)
        if idx is None:
            w[name] = v
        else:
            w.setdefault(name, {})[int(idx)] = v
    return w


def _replay_bv(rec, unit, result, fresh, tu, wd):
    byp = result.get("witness_by_prop") or {}
    w = {}
    for f in fresh:
        if f[0] in byp and byp[f[0]]:
            w = _witness_from(byp[f[0]])
            rec["ghost_state"] = {k: str(v) for k, v in (result.get("ghost_by_prop") or {}).get(f[0], {}).items() if not k.startswith("jpv_w_")}
            break
    if not w:
        w = _witness(result.get("log", ""))
    hook = getattr(unit, "replay_hook", None)
    if hook is not None:
        return hook(rec, unit, result, fresh, tu, wd, w)
    rec["witness"] = {k: (v if not isinstance(v, dict) else [v[i] for i in sorted(v)]) for k, v in w.items()}
    if not w:
        return False
    f = tu.func(unit.target)
    cfile, wname, repl, em = units.build_bv(tu, unit, wd)
    src, rep = cxx_driver(tu, em, f, w)
    native, err = run_native(src, wd, unit.name() + "_native")
    rec["native_driver_error"] = err
    if native is None:
        return False
    rec["native_outputs"] = native
    # pin inputs + native outputs, re-decide on the single input
    pins_in, pins_out = [], []
    ptrs = [k for k, v in w.items() if isinstance(v, dict)]
    for a in ptrs:
        for b in ptrs:
            if a < b or True:
                fl = w.get("alias_%s_%s" % (a, b))
                if fl == 1:
                    pins_in.append("__CPROVER_requires((const void *)%s == (const void *)%s)" % (a, b))
                elif fl == 0:
                    pins_in.append("__CPROVER_requires((const void *)%s != (const void *)%s)" % (a, b))
    for a in ptrs:
        for i in sorted(w[a]):
            pins_in.append("__CPROVER_requires(((const uint64_t *)%s)[%d] == %dULL)" % (a, i, w[a][i]))
    for k, v in w.items():
        if not isinstance(v, dict) and not k.startswith("alias_"):
            pins_in.append("__CPROVER_requires((uint64_t)%s == %dULL)" % (k, v))
    for a, vals in native.items():
        if a == "ret":
            pins_out.append("__CPROVER_ensures((uint64_t)(long)__CPROVER_return_value == %dULL) /* model == native */" % vals[0])
        elif a in ptrs:
            for i, v in enumerate(vals):
                pins_out.append("__CPROVER_ensures(((const uint64_t *)%s)[%d] == %dULL) /* model == native */" % (a, i, v))
    c = unit.contracts[unit.target]
    if unit.strip_restrict:
        c = "".join(l + "\n" for l in c.splitlines() if "/* restrict */" not in l)
    k = c.index("__CPROVER_ensures") if "__CPROVER_ensures" in c else len(c)
    pinned = c[:k] + "\n".join(pins_in) + "\n" + c[k:] + "\n".join(pins_out) + "\n"
    u2 = units.BVUnitClone(unit, unit.name() + "_replay")
    u2.strip_restrict = False
    cfile2, wname2, repl2, _ = units.build_bv(tu, u2, wd, pinned)
    r2 = cbmcrun.run(cfile2, wd, u2.name(), "jpv_harness", enforce=wname2, replace=repl2, loop_contracts=units.has_loop_contracts(unit),
                     unwind=unit.unwind, timeout=unit.timeout, extra=unit.extra, defines=unit.defines, checks=unit.checks,
                     solver=unit.solver, unwindset=unit.unwindset)
    rec["pinned_recheck"] = dict(status=r2["status"], reason=r2.get("reason", ""), failed=[list(x) for x in r2["failed"]][:20])
    if r2["status"] != "fail":
        return False
    model_ne_native = [x for x in r2["failed"] if len(x) > 2 and "model == native" in x[2]]
    same = [x for x in r2["failed"] if x[0].split(".")[-2:] == fresh[0][0].split(".")[-2:] or x[2] == (fresh[0][2] if len(fresh[0]) > 2 else None)]
    rec["confirmed_on_real_code"] = bool(same) and not model_ne_native
    return rec["confirmed_on_real_code"]


# ---------------------------------------------------------------------------
# RING counterexamples: evaluate in the real tower, run the real function natively
def eval_ring(p, env):
    """evaluate a Poly with tower elements / ints for the variables (Python operators)"""
    total = 0
    for m, c in p.t.items():
        x = c
        for (v, e) in m:
            b = env[v]
            for _ in range(e):
                x = b * x if not isinstance(x, int) or True else x
        total = x + total
    return total


def ring_native(tu, wd, f, pattern, fq_inputs, scalars, tag):
    """fq_inputs: {param: {fq-level path: int}} ; returns {path: int} after the call"""
    from symx import Interp, Leaf, Cell
    from ringdom import RingDomain, leaves_of, param_names
    I = Interp(tu, RingDomain({"Fq", "BigInt<384>", "BigInt<256>"}))
    I.scopes = [f.record.qname] if f.record is not None else []
    names = param_names(f)
    lines = [unity_source(), "#include <stdio.h>", "#include <string.h>",
             "using namespace embedded_pairing; using namespace embedded_pairing::core; using namespace embedded_pairing::bls12_381;",
             "static void setfq(Fq& x, unsigned long long w0, unsigned long long w1, unsigned long long w2, unsigned long long w3, unsigned long long w4, unsigned long long w5){ unsigned long long w[6]={w0,w1,w2,w3,w4,w5}; BigInt<384> b; memcpy(&b, w, 48); x.set(b); }",
             "static void outfq(const char* n, const Fq& x){ BigInt<384> b; x.get(b); unsigned long long w[6]; memcpy(w, &b, 48); printf(\"%s %llu %llu %llu %llu %llu %llu\\n\", n, w[0],w[1],w[2],w[3],w[4],w[5]); }",
             "int main(){"]
    types = {}
    for nm in names:
        if nm == "this":
            types[nm] = f.record.qname
        else:
            i = names.index(nm) - (1 if names[0] == "this" else 0)
            types[nm] = re.sub(r"(&|\b__restrict\b|\bconst\b)", "", norm_type(tu.canon(f.param_type(i), I.scopes))).strip()
    outs = []
    for nm in names:
        if nm in scalars:
            lines.append("  auto %s = %s;" % (nm, scalars[nm]))
            continue
        if nm in pattern:
            continue
        lines.append("  static %s obj_%s; memset(&obj_%s, 0, sizeof(obj_%s));" % (types[nm], nm, nm, nm))
        o = I.new_object(types[nm])
        for p, lf in leaves_of(o, nm, {}).items():
            acc = "obj_" + p
            if isinstance(lf, Leaf) and lf.type == "Fq":
                v = fq_inputs.get(p, 0)
                lines.append("  setfq(%s, %s);" % (acc, ", ".join("%dULL" % ((v >> (64 * k)) & (2**64 - 1)) for k in range(6))))
                outs.append((p, acc))
            elif isinstance(lf, Cell):
                lines.append("  %s = %d;" % (acc, fq_inputs.get(p, 0)))
    ref = lambda nm: "obj_" + pattern.get(nm, nm)
    args = ", ".join(ref(nm) if nm not in scalars else nm for nm in names if nm != "this")
    if f.is_method and not f.is_static:
        lines.append("  %s.%s(%s);" % (ref("this"), f.name, args))
    elif f.is_method:
        lines.append("  %s::%s(%s);" % (f.record.qname, f.name, args))
    else:
        lines.append("  %s(%s);" % (f.name, args))
    for p, acc in outs:
        lines.append("  outfq(\"%s\", %s);" % (p, acc))
    lines.append("  return 0; }")
    return run_native("\n".join(lines), wd, tag)


def replay_ring(rec, unit, result, tu, wd):
    import random
    import tower_ref as TR
    from poly import Poly
    from ringdom import RING_LEVEL
    cx = result.get("counterexample")
    if not cx or not cx.get("code_poly"):
        return False
    code, spec = cx["code_poly"], cx["spec_poly"]
    d = code - spec
    f = tu.func(unit.target)
    leaf_level = cx.get("leaf_level", 1)
    rnd = random.Random(7)
    sym_values = cx.get("sym_values", {})
    for attempt in range(40):
        env = {}
        for v in d.vars() + [x for x in code.vars() + spec.vars() if x not in d.vars()]:
            if v == "xi":
                env[v] = TR.XI
            elif v == "v":
                env[v] = TR.V
            elif v in sym_values:
                env[v] = sym_values[v]
            elif "#" in v:
                env = None       # uninterpreted symbol: cannot instantiate natively
                break
            else:
                lvl = cx["var_levels"].get(v, leaf_level)
                n = {1: 1, 2: 2, 6: 6, 12: 12}[lvl]
                env[v] = TR.from_flat(lvl, [rnd.randrange(0, 4 + attempt) for _ in range(n)])
        if env is None:
            return False
        dv = eval_ring(d, env)
        nz = (dv != 0) if isinstance(dv, int) else (not dv.is_zero())
        if nz:
            break
    else:
        return False
    # Fq-level inputs
    fq_inputs = {}
    for v, val in env.items():
        if v in ("xi", "v") or v in sym_values:
            continue
        flat = val.flat() if hasattr(val, "flat") else (val,)
        if len(flat) == 1:
            fq_inputs[v] = flat[0]
        else:
            comps = {2: ["c0", "c1"], 6: ["c0.c0", "c0.c1", "c1.c0", "c1.c1", "c2.c0", "c2.c1"],
                     12: ["c0.c0.c0", "c0.c0.c1", "c0.c1.c0", "c0.c1.c1", "c0.c2.c0", "c0.c2.c1", "c1.c0.c0", "c1.c0.c1", "c1.c1.c0", "c1.c1.c1", "c1.c2.c0", "c1.c2.c1"]}[len(flat)]
            for cmp_, x in zip(comps, flat):
                fq_inputs[v + "." + cmp_] = x
    pattern = cx.get("pattern", {})
    # inputs named after an aliased parameter live in the representative object
    native, err = ring_native(tu, wd, f, pattern, fq_inputs, cx.get("scalars", {}), unit.name() + "_native")
    rec["native_driver_error"] = err
    if native is None:
        return False
    want_spec, want_code = eval_ring(spec, env), eval_ring(code, env)
    leaf = cx["leaf_path"]
    def flat(x):
        return list(x.flat()) if hasattr(x, "flat") else [x % TR.Q]
    got = []
    root = leaf
    rootp = root.split(".")[0]
    real_root = pattern.get(rootp, rootp) + root[len(rootp):]
    keys = [k for k in native if k == real_root or k.startswith(real_root + ".")]
    got = [sum(w << (64 * i) for i, w in enumerate(native[k])) for k in keys]
    rec["native_leaf"] = {k: hex(sum(w << (64 * i) for i, w in enumerate(native[k]))) for k in keys}
    rec["spec_value"] = [hex(x) for x in flat(want_spec)]
    rec["model_value"] = [hex(x) for x in flat(want_code)]
    rec["inputs_fq"] = {k: hex(v) for k, v in fq_inputs.items()}
    rec["confirmed_on_real_code"] = (got == flat(want_code)) and (got != flat(want_spec))
    return rec["confirmed_on_real_code"]
