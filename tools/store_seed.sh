#!/bin/bash
# store_seed.sh <id> <patch> [<suffix>] : copy a confirmed seed into /verif/seeded/<id><suffix>/
ID=$1; PATCH=$2; SUF=$3; SRC=/tmp/wt/$ID; D=/verif/seeded/$ID$SUF
mkdir -p $D
cp "$PATCH" $D/patch.diff
cp $SRC/demo.cpp $D/demo.cpp
sed "s#/tmp/wt/$ID#\$W#g" $SRC/demo_cmd.txt > $D/demo_cmd.txt
cp /tmp/seedconf.$ID.log $D/confirm.log 2>/dev/null
python3 - "$ID" "$SRC/meta.json" "$D/meta.json" <<'P'
import json,sys
pid, src, dst = sys.argv[1:]
try:
    m = json.load(open(src))
except Exception as e:
    m = {"property": pid, "summary": "(agent meta.json unreadable: %s)" % e}
m["property"] = pid
m["origin"] = "independent sub-agent given only the property text and a scratch worktree"
m["confirmed_by"] = "tools/confirm_seed.sh in a scratch worktree of /repo HEAD: demo passes unpatched, suite (./test and ./test wkdibe) all PASS with the patch, demo fails with the patch (see confirm.log)"
json.dump(m, open(dst, "w"), indent=1)
P
echo stored $D
