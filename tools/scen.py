"""Scenario units for the GROUP back end: the real API function bodies (clang AST) are executed
symbolically by symx over GroupDomain for EVERY member of an enumerated family of argument shapes
(slot patterns, attribute-list shapes, flags); values (identities, messages, randomness, discrete
logs) stay symbolic, so each run is a proof for all values of that shape.  The family bound (number
of slots l) is the only bound and is reported as such."""
import re, time, traceback
from symx import Interp, Path, explore, SymxError, Finding, Leaf, Obj, Arr, Cell, Ptr, POISON
from jast import ExtractionError
import units as U


class ScenUnit:
    back_end = "GROUP"
    replace = ()
    bodies = ()
    strip_restrict = False

    def __init__(self, label, props, gen, tier="quick", kind="proof", bound=None, note="", targets=(), contracts_used=(), max_paths=4096, assumes=()):
        self.label, self.props, self.gen, self.tier = label, props, gen, tier
        self.kind, self.bound, self.note = kind, bound, note
        self.targets = list(targets)
        self.target = self.targets[0] if self.targets else None
        self.replace = list(contracts_used)
        self.bodies = list(targets)
        self.max_paths = max_paths
        self.assumes = list(assumes)

    def name(self):
        return re.sub(r"[^A-Za-z0-9]+", "_", self.label).strip("_")

    def run(self, tu, workdir):
        t0 = time.time()
        U.SHARED.setdefault("workdir", workdir)
        failed, samples = [], []
        n_ob = n_ok = 0
        cx = None
        undecided = None
        try:
            for q in self.targets:
                tu.func(q)            # must exist with a body (extraction break -> undecided)
            for (tag, runner) in self.gen(tu):
                try:
                    runs = explore(runner, self.max_paths, stop_on=(lambda res: any(o[1] == "fail" for o in res)) if getattr(self, "stop_at_first_failure", False) else None)
                except (SymxError, ExtractionError, KeyError, AttributeError, TypeError, IndexError) as e:
                    # this scenario is outside the interpreter's reach on this tree: undecided, the others still count
                    n_ob += 1
                    undecided = undecided or "%s[%s]: %s: %s" % (self.name(), tag, type(e).__name__, e)
                    continue
                for (trace, obs) in runs:
                    ttag = ";".join("%s=%s" % (("%s:%s" % (l[1], l[2])) if isinstance(l, tuple) and len(l) > 2 else l, d) for l, d in trace)
                    for (oid, status, msg, c) in obs:
                        full = "%s[%s]{%s}.%s" % (self.name(), tag, ttag, oid)
                        n_ob += 1
                        if status == "ok":
                            n_ok += 1
                            if len(samples) < 8:
                                samples.append("%s: %s" % (full, msg))
                        elif status == "fail":
                            failed.append((full, msg, "/* restrict */" if oid == "restrict" else ""))
                            if cx is None and c is not None:
                                cx = dict(c)
                                cx["obligation"] = full
                        else:
                            undecided = undecided or "%s: %s" % (full, msg)
        except (SymxError, ExtractionError, KeyError, AttributeError, TypeError, IndexError) as e:
            return dict(unit=self, status="undecided", reason="%s: %s" % (type(e).__name__, e), obligations=n_ob, discharged=n_ok, failed=[],
                        wall_s=time.time() - t0, log=traceback.format_exc())
        if failed:
            status = "fail"
        elif undecided or n_ob == 0:
            status = "undecided"
        else:
            status = "pass"
        return dict(unit=self, status=status, reason=undecided or ("" if n_ob else "zero obligations"), obligations=n_ob, discharged=n_ok, failed=failed,
                    wall_s=time.time() - t0, log="\n".join("%s :: %s :: %s" % x for x in failed[:200]), counterexample=cx, samples=samples)


class Abandon(Exception):
    """this path only repeats a retry loop beyond the explored depth; it carries no new obligation"""


def guarded(fn):
    """run a scenario body; definite misbehaviour of the real code (Finding) becomes a failed obligation"""
    def runner(path):
        try:
            return fn(path)
        except Abandon:
            return []
        except Finding as e:
            return [("no-ub", "fail", "%s: %s" % (e.kind, e), getattr(fn, "cx", None))]
    return runner
