"""armword: the AArch64 assembly SOURCES of /repo (src/core/arch/aarch64/*.s) executed in the WORD domain (tools/worddom.py).

There is no AArch64 assembler in the sandbox, so -- unlike the x86-64 routines, which are taken from objdump of the assembled object --
the instruction stream is obtained from the source text by this module's own front end: comments stripped, `.macro` / `.endm` bodies
expanded (arguments separated by commas or blanks, `\\name` substitution, nested invocations), labels and directives recognised.  That
front end and the instruction semantics below are trusted and listed as such.  Subset (everything the two files use; anything else
aborts with ExtractionError => exit 2):

  ldp / stp  Xa, Xb, [Xn], #imm | [Xn, #imm] | [Xn, #imm]!     post-index / offset / pre-index; Xn a pointer parameter or sp
  ldr / str  Xa, [..]                                          same addressing
  adds adcs add adc   Xd, Xn, Xm|#imm        d = n + m (+ C);  the S forms set C = carry out, Z
  subs sbcs sub sbc cmp                      d = n - m - (1 - C);  the S forms set C = NOT borrow, Z
  mul / umulh                                low / high 64 bits of the exact product
  cset Xd, cs|cc|hs|lo|eq|ne                 d = condition ? 1 : 0
  mov                                        copy
  b.hi b.lo b.cs b.cc b.hs b.eq b.ne b.al b  forward branches only
  ret"""
import re
from poly import Poly
from symx import SymxError, Finding, POISON
from jast import ExtractionError
from worddom import WordDomain, WVal, Cond, wv, simp
from asmword import PtrVal, FakeInterp

TOP = 1 << 64
CALLEE_SAVED = ["x%d" % i for i in range(19, 29)]


def expand(text):
    """-> list of ('label', name) | ('ins', mnemonic, [operands], source line number)"""
    text = re.sub(r"/\*.*?\*/", lambda m: "\n" * m.group(0).count("\n"), text, flags=re.S)
    lines = []
    for no, l in enumerate(text.splitlines(), 1):
        l = l.split("//")[0].rstrip()
        if l.strip():
            lines.append((no, l))
    macros = {}
    out = []
    i = 0
    body = []
    while i < len(lines):
        no, l = lines[i]
        t = l.strip()
        m = re.match(r"^\.macro\s+(\w+)\s*(.*)$", t)
        if m:
            name = m.group(1)
            params = [p for p in re.split(r"[,\s]+", m.group(2).strip()) if p]
            b = []
            i += 1
            while i < len(lines) and lines[i][1].strip() != ".endm":
                b.append(lines[i])
                i += 1
            if i >= len(lines):
                raise ExtractionError("armword: .macro %s without .endm" % name)
            macros[name] = (params, b)
            i += 1
            continue
        body.append((no, t))
        i += 1

    def emit(no, t, depth):
        if depth > 8:
            raise ExtractionError("armword: macro expansion too deep")
        m = re.match(r"^([A-Za-z_.$][\w.$]*):\s*(.*)$", t)
        if m:
            out.append(("label", m.group(1)))
            t = m.group(2).strip()
            if not t:
                return
        if t.startswith("."):
            return                                   # directive (.global, .type, .text, ...)
        parts = t.split(None, 1)
        mn = parts[0]
        rest = parts[1] if len(parts) > 1 else ""
        if mn in macros:
            params, b = macros[mn]
            args = [a for a in re.split(r"[,\s]+", rest.strip()) if a]
            if len(args) != len(params):
                raise ExtractionError("armword: macro %s expects %d arguments, line %d gives %d" % (mn, len(params), no, len(args)))
            env = dict(zip(params, args))
            for (no2, l2) in b:
                t2 = re.sub(r"\\(\w+)", lambda mm: env[mm.group(1)] if mm.group(1) in env else mm.group(0), l2.strip())
                if "\\" in t2:
                    raise ExtractionError("armword: unresolved macro parameter in '%s' (line %d)" % (t2, no2))
                emit(no2, t2, depth + 1)
            return
        ops = [o.strip() for o in re.split(r",(?![^\[]*\])", rest)] if rest else []
        out.append(("ins", mn, ops, no))

    for no, t in body:
        emit(no, t, 0)
    return out


def routine(prog, name):
    """instructions from the label `name` up to (not including) the next label that does not extend `name`"""
    idx = [i for i, x in enumerate(prog) if x[0] == "label" and x[1] == name]
    if len(idx) != 1:
        raise ExtractionError("armword: routine %s not found (or defined twice)" % name)
    out = []
    for x in prog[idx[0] + 1:]:
        if x[0] == "label" and not x[1].startswith(name + "_"):
            break
        out.append(x)
    return out


class A64:
    def __init__(self, dom, path, ins, name, mem, args):
        self.dom, self.I, self.ins, self.name, self.mem = dom, FakeInterp(path), ins, name, mem
        self.regs = {"x%d" % i: WVal(Poly.var("init_x%d" % i), TOP - 1) for i in range(31)}
        self.init = dict(self.regs)
        for i, a in enumerate(args):
            self.regs["x%d" % i] = a
        self.C = self.Z = "unknown"
        self.sp = 0
        self.stack = {}
        self.min_sp = 0
        self.written = set()
        self.trace = []             # ('ld' | 'st', array, word) in program order
        self.labels = {x[1]: i for i, x in enumerate(ins) if x[0] == "label"}

    def fail(self, t):
        raise ExtractionError("armword: unsupported '%s' in %s" % (t, self.name))

    def get(self, r, what=""):
        if r == "xzr":
            return 0
        if r.startswith("#"):
            return int(r[1:], 0)
        if r not in self.regs:
            self.fail("operand %s (%s)" % (r, what))
        return self.regs[r]

    def put(self, r, v):
        if r == "xzr":
            return
        if r not in self.regs:
            self.fail("destination " + r)
        self.regs[r] = v

    def word(self, v, what):
        if isinstance(v, PtrVal):
            raise ExtractionError("armword: arithmetic on a pointer register (%s) in %s" % (what, self.name))
        return self.dom.refine(wv(v))

    def addr(self, ops):
        """operands after the data registers -> (base register, byte offset used, new base offset or None)"""
        s = ", ".join(ops)
        m = re.match(r"^\[(\w+)\]\s*,\s*#(-?\w+)$", s)
        if m:
            return m.group(1), 0, int(m.group(2), 0)                 # post-index
        m = re.match(r"^\[(\w+)\s*,\s*#(-?\w+)\]!$", s)
        if m:
            return m.group(1), int(m.group(2), 0), int(m.group(2), 0)  # pre-index
        m = re.match(r"^\[(\w+)\s*,\s*#(-?\w+)\]$", s)
        if m:
            return m.group(1), int(m.group(2), 0), None
        m = re.match(r"^\[(\w+)\]$", s)
        if m:
            return m.group(1), 0, None
        self.fail("addressing mode " + s)

    def mem_access(self, regs, ops, store):
        base, off, wb = self.addr(ops)
        n = len(regs)
        if base == "sp":
            a = self.sp + off
            if a % 8:
                self.fail("unaligned stack access")
            for k, r in enumerate(regs):
                if store:
                    self.stack[a + 8 * k] = self.get(r)
                else:
                    if a + 8 * k not in self.stack or a + 8 * k < self.sp:
                        raise Finding("stack", "asm: load from a stack slot that was not stored (entry sp%+d)" % (a + 8 * k))
                    self.put(r, self.stack[a + 8 * k])
            if store and a < self.sp and wb is None:
                raise Finding("stack", "asm: store below the stack pointer")
            if wb is not None:
                self.sp += wb
                self.min_sp = min(self.min_sp, self.sp)
                if self.sp > 0:
                    raise Finding("stack", "asm: stack pointer above its entry value")
            return
        b = self.regs.get(base)
        if not isinstance(b, PtrVal):
            raise ExtractionError("armword: memory operand through %s, which does not hold a pointer parameter, in %s" % (base, self.name))
        a = b.off + off
        if a % 8:
            self.fail("unaligned displacement")
        arr = self.mem[b.name]
        for k, r in enumerate(regs):
            w = a // 8 + k
            if not (0 <= w < len(arr)):
                raise Finding("out-of-bounds", "asm access to word %d of %s (%d words)" % (w, b.name, len(arr)))
            if store:
                v = self.get(r)
                if isinstance(v, PtrVal):
                    self.fail("store of a pointer")
                arr[w] = v
                self.written.add((b.name, w))
                self.trace.append(("st", b.name, w))
            else:
                if arr[w] is POISON:
                    raise Finding("uninitialised", "asm read of word %d of %s before it is written" % (w, b.name))
                self.put(r, arr[w])
                self.trace.append(("ld", b.name, w))
        if wb is not None:
            # the base register may have been overwritten by the load itself (ldp x2, x3, [x2], #16 is not used; checked)
            if base in regs and not store:
                self.fail("load overwrites its own base register with write-back")
            self.regs[base] = PtrVal(b.name, b.off + wb)

    def flagval(self, f, what):
        if isinstance(f, str):
            raise ExtractionError("armword: use of a flag that is not defined at this point (%s) in %s" % (what, self.name))
        return f

    def cond(self, cc):
        """truth of a condition code (forks on symbolic flags)"""
        cc = cc.lower()
        if cc == "al":
            return True
        if cc in ("cs", "hs"):
            return self.truth(self.flagval(self.C, cc))
        if cc in ("cc", "lo"):
            return not self.truth(self.flagval(self.C, cc))
        if cc == "eq":
            return self.truthz()
        if cc == "ne":
            return not self.truthz()
        if cc == "hi":
            return self.truth(self.flagval(self.C, cc)) and not self.truthz()
        if cc == "ls":
            return (not self.truth(self.flagval(self.C, cc))) or self.truthz()
        self.fail("condition " + cc)

    def truth(self, v):
        if isinstance(v, int):
            return bool(v)
        return self.dom.truth(self.I, v)

    def truthz(self):
        z = self.flagval(self.Z, "Z")
        if isinstance(z, tuple):
            v = z[1]
            if isinstance(v, int):
                return v == 0
            return self.dom.truth(self.I, Cond("==", wv(v), wv(0)))
        return self.truth(z)

    def run(self, start=0, stop_before=None):
        """executes from instruction index `start`; returns None at ret, or the index of the first instruction for which stop_before(mnemonic) holds"""
        dom = self.dom
        i = start
        while True:
            if i >= len(self.ins):
                raise ExtractionError("armword: fell off the end of " + self.name)
            x = self.ins[i]
            if x[0] != "label" and stop_before is not None and stop_before(x[1].lower()):
                return i
            i += 1
            if x[0] == "label":
                continue
            _, mn, ops, no = x
            mn = mn.lower()
            text = "%s %s (line %d)" % (mn, ", ".join(ops), no)
            dom.note = text
            if mn in ("ldp", "stp"):
                self.mem_access(ops[:2], ops[2:], mn == "stp")
            elif mn in ("ldr", "str"):
                self.mem_access(ops[:1], ops[1:], mn == "str")
            elif mn in ("adds", "adcs", "add", "adc"):
                cin = self.flagval(self.C, text) if mn in ("adcs", "adc") else 0
                a, b, c = self.word(self.get(ops[1]), text), self.word(self.get(ops[2]), text), self.word(cin, text)
                s = WVal(a.p + b.p + c.p, a.hi + b.hi + c.hi)
                lo, cy = dom.split(s, 64)
                self.put(ops[0], lo)
                if mn.endswith("s"):
                    self.C, self.Z = cy, ("zero", lo)
            elif mn in ("subs", "sbcs", "sub", "sbc", "cmp"):
                if mn == "cmp":
                    d_, n_, m_ = "xzr", ops[0], ops[1]
                else:
                    d_, n_, m_ = ops
                a, b = self.word(self.get(n_), text), self.word(self.get(m_), text)
                if mn in ("sbcs", "sbc"):
                    c = self.word(self.flagval(self.C, text), text)
                    sub = WVal(b.p + Poly.const(1) - c.p, b.hi + 1)          # m + (1 - C)
                else:
                    sub = b
                d, bw = dom.borrow(a, sub)
                self.put(d_, d)
                if mn in ("subs", "sbcs", "cmp"):
                    bwv = wv(bw)
                    self.C = simp(WVal(Poly.const(1) - bwv.p, 1))
                    self.Z = ("zero", d)
            elif mn in ("mul", "umulh"):
                a, b = self.word(self.get(ops[1]), text), self.word(self.get(ops[2]), text)
                lo, hi = dom.split(WVal(a.p * b.p, a.hi * b.hi), 64)
                if mn == "mul":
                    # the multiplier u = (word * inv) mod 2^64 of a Montgomery row is the only product whose high half is never taken
                    if self.inv_const is not None and any(isinstance(self.get(o), int) and self.get(o) == self.inv_const for o in ops[1:]):
                        dom.trunc_products.append(lo)
                    self.put(ops[0], lo)
                else:
                    self.put(ops[0], hi)
            elif mn == "mov":
                self.put(ops[0], self.get(ops[1]))
            elif mn == "cset":
                v = self.cond_value(ops[1])
                self.put(ops[0], 1 if v is True else (0 if v is False else v))
            elif mn == "ret":
                return None
            elif mn == "b" or mn.startswith("b."):
                tgt = ops[0]
                if tgt not in self.labels:
                    self.fail(text + " (target outside the routine)")
                if self.labels[tgt] < i:
                    self.fail(text + " (backward branch)")
                if mn == "b" or self.cond(mn[2:]):
                    i = self.labels[tgt]
            else:
                self.fail(text)

    inv_const = None

    def cond_value(self, cc):
        """value (0/1 int or WVal) of a condition, without forking, for cset on the carry flag"""
        cc = cc.lower()
        c = self.flagval(self.C, "cset")
        if cc in ("cs", "hs"):
            return True if c == 1 and isinstance(c, int) else (False if isinstance(c, int) else c)
        if cc in ("cc", "lo"):
            if isinstance(c, int):
                return c == 0
            return simp(WVal(Poly.const(1) - wv(c).p, 1))
        return self.cond(cc)
