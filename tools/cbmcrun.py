"""Run goto-cc -> goto-instrument --dfcc -> cbmc on an emitted C unit and parse the verdict.

Verdict classes (DESIGN section 4):
  pass       every generated obligation SUCCESS (count > 0)
  fail       cbmc REFUTED at least one obligation (names + trace returned)
  undecided  timeout / out of memory / tool error / zero obligations
"""
import subprocess, os, re, time, resource, json

CBMC_CHECKS = ["--bounds-check", "--pointer-check", "--div-by-zero-check", "--undefined-shift-check",
               "--signed-overflow-check", "--pointer-overflow-check"]
# --conversion-check is deliberately not used: signed->unsigned conversion is modular by definition and out-of-range
# unsigned->signed is implementation-defined (modular on every supported target), neither is UB; value correctness is
# the business of the postconditions


def _limits(mem_gb):
    def f():
        b = int(mem_gb * (1 << 30))
        resource.setrlimit(resource.RLIMIT_AS, (b, b))
    return f


def sh(cmd, timeout, mem_gb=12, cwd=None):
    t0 = time.time()
    try:
        r = subprocess.run(cmd, capture_output=True, text=True, timeout=timeout, preexec_fn=_limits(mem_gb), cwd=cwd)
        return r.returncode, r.stdout + r.stderr, time.time() - t0
    except subprocess.TimeoutExpired as e:
        out = (e.stdout or b"").decode("utf8", "replace") if isinstance(e.stdout, bytes) else (e.stdout or "")
        return -9, out + "\nTIMEOUT after %ss" % timeout, time.time() - t0


RES = re.compile(r"^\[([^\]]+)\]\s+(.*?):\s+(SUCCESS|FAILURE|UNKNOWN|ERROR)\s*$", re.M)


def annotate(failed, cfile):
    """Attach the source line of the generated C (contract clause / statement) to each failed obligation."""
    try:
        lines = open(cfile).read().splitlines()
    except OSError:
        return [(i, t, "") for (i, t) in failed]
    out = []
    for (i, t) in failed:
        m = re.match(r"line (\d+) ", t)
        src = lines[int(m.group(1)) - 1].strip() if m and int(m.group(1)) <= len(lines) else ""
        out.append((i, t, src))
    return out


def run(cfile, workdir, name, entry, enforce=None, replace=(), loop_contracts=False, unwind=None,
        checks=True, timeout=300, mem_gb=12, extra=(), defines=(), solver=(), unwindset=()):
    """Returns dict(status, obligations, discharged, failed[list of (id, text)], wall_s, log, cmd)."""
    base = os.path.join(workdir, name)
    gb0, gb1 = base + ".0.gb", base + ".1.gb"
    log = ""
    t0 = time.time()
    cmd1 = ["goto-cc", "--function", entry] + ["-D" + d for d in defines] + [cfile, "-o", gb0]
    rc, out, _ = sh(cmd1, 120, mem_gb)
    log += "$ " + " ".join(cmd1) + "\n" + out
    if rc != 0:
        return dict(status="undecided", reason="goto-cc failed", obligations=0, discharged=0, failed=[], wall_s=time.time() - t0, log=log, cmd=cmd1)
    gi = ["goto-instrument"]
    if enforce or replace or loop_contracts:
        gi += ["--dfcc", entry]
        if enforce:
            gi += ["--enforce-contract", enforce]
        for r in replace:
            gi += ["--replace-call-with-contract", r]
        if loop_contracts:
            gi += ["--apply-loop-contracts"]
        gi += [gb0, gb1]
        rc, out, _ = sh(gi, 300, mem_gb)
        log += "$ " + " ".join(gi) + "\n" + out[-6000:]
        if rc != 0:
            return dict(status="undecided", reason="goto-instrument failed", obligations=0, discharged=0, failed=[], wall_s=time.time() - t0, log=log, cmd=gi)
    else:
        gb1 = gb0
    cb = ["cbmc", gb1, "--trace"]
    if checks:
        cb += CBMC_CHECKS
    if unwind is not None:
        cb += ["--unwind", str(unwind), "--unwinding-assertions"]
    for u in unwindset:
        cb += ["--unwindset", u]
    cb += list(solver) + list(extra)
    rc, out, dt = sh(cb, timeout, mem_gb)
    log += "$ " + " ".join(cb) + "\n"
    res = RES.findall(out)
    summary = re.search(r"\*\* (\d+) of (\d+) failed", out)
    wall = time.time() - t0
    traces = {}
    for m in re.finditer(r"^Trace for ([^\n:]+):\n(.*?)(?=^Trace for |^\*\* \d+ of \d+ failed|\Z)", out, re.M | re.S):
        traces.setdefault(m.group(1).strip(), m.group(2))
    wit = {k: witness_values(v) for k, v in traces.items()}
    ghosts = {k: witness_values(v, prefix="jpv_") for k, v in traces.items()}
    keep = out if len(out) < 400000 else out[:100000] + "\n...[cut]...\n" + out[-250000:]
    log += keep
    if "ignoring forall" in out or "ignoring exists" in out:
        return dict(status="undecided", reason="quantifier ignored by back end", obligations=len(res), discharged=0, failed=[], wall_s=wall, log=log, cmd=cb)
    if not summary:
        reason = "timeout" if rc == -9 else ("out of memory" if "bad_alloc" in out or "Out of memory" in out else "cbmc error rc=%s" % rc)
        return dict(status="undecided", reason=reason, obligations=len(res), discharged=0, failed=[], wall_s=wall, log=log, cmd=cb)
    nfail, ntot = int(summary.group(1)), int(summary.group(2))
    failed = annotate([(i, t) for (i, t, s) in res if s == "FAILURE"], cfile)
    unknown = [(i, t) for (i, t, s) in res if s in ("UNKNOWN", "ERROR")]
    if ntot == 0:
        return dict(status="undecided", reason="zero obligations generated (vacuous)", obligations=0, discharged=0, failed=[], wall_s=wall, log=log, cmd=cb)
    if unknown and not failed:
        return dict(status="undecided", reason="UNKNOWN obligations", obligations=ntot, discharged=ntot - len(unknown), failed=[], wall_s=wall, log=log, cmd=cb)
    status = "fail" if failed else "pass"
    return dict(status=status, reason="", obligations=ntot, discharged=ntot - nfail, failed=failed, wall_s=wall, log=log, cmd=cb,
                all=[(i, t, s) for (i, t, s) in res], witness_by_prop=wit, ghost_by_prop=ghosts)


TRACE_ASSIGN = re.compile(r"^\s*([A-Za-z_][\w\.\[\]\$:>\-]*)=(.+?)\s*(?:\((?:[01 ]+|\?)\))?\s*$")


def witness_values(log, prefix="jpv_w_"):
    """Extract the last assignment to every witness variable jpv_w_* from a cbmc --trace text."""
    vals = {}
    for line in log.splitlines():
        line = line.strip()
        if not line.startswith(prefix):
            continue
        m = re.match(r"^(%s\w+(?:\[\d+\w*\])?)=(-?\d+)" % prefix, line)
        if m:
            vals[m.group(1)] = int(m.group(2))
        else:
            m = re.match(r"^(%s\w+)=(TRUE|FALSE)" % prefix, line)
            if m:
                vals[m.group(1)] = 1 if m.group(2) == "TRUE" else 0
    return vals
