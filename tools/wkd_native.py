"""Native replay of GROUP-rung counterexamples for the WKD-IBE scenarios: a generated C++ driver (real
headers + real sources of /repo's working tree, natively compiled) builds the scenario with concrete
scalars taken from the solver model, calls the REAL API function and checks the result with an
independent oracle: well-formedness through the scheme's pairing equations, slot lists by direct
comparison, precomputed products by recomputation with plain double-and-add, and guard slots behind
the slot array for out-of-bounds writes."""
import os, re, subprocess, json
from jast import unity_source, clang_flags

PRELUDE = r'''
#include <stdio.h>
#include <string.h>
#include <stdlib.h>
using namespace embedded_pairing;
using namespace embedded_pairing::core;
using namespace embedded_pairing::bls12_381;
namespace W = embedded_pairing::wkdibe;
static uint64_t jpv_st = 88172645463325252ULL;
static void det_rng(void* buf, size_t n) { uint8_t* p = (uint8_t*)buf; for (size_t i = 0; i < n; i++) { jpv_st ^= jpv_st << 13; jpv_st ^= jpv_st >> 7; jpv_st ^= jpv_st << 17; p[i] = (uint8_t)(jpv_st >> 32); } }
static W::Scalar SC(uint64_t w0, uint64_t w1, uint64_t w2, uint64_t w3) { W::Scalar s; uint64_t w[4] = {w0, w1, w2, w3}; memcpy(&s, w, 32); return s; }
enum { FREE_ = 0, FIXED_ = 1, HIDDEN_ = 2 };
#define MAXL 8
struct Pat { int l; int kind[MAXL]; W::Scalar id[MAXL]; };
static int fails = 0;
#define FAIL(...) do { printf("NATIVE-FAIL: " __VA_ARGS__); printf("\n"); fails++; } while (0)
static void prodQ(W::G1& q, const W::Params& p, const Pat& pat) {
    q.copy(p.g3);
    for (int i = 0; i < pat.l; i++) if (pat.kind[i] == FIXED_) { W::G1 t; t.multiply_doubleadd(p.h[i], pat.id[i]); q.add(q, t); }
}
static void make_wf(W::SecretKey& k, W::FreeSlot* slots, const W::Params& p, const W::MasterKey& msk, const Pat& pat, const W::Scalar& rho) {
    W::G1 q; prodQ(q, p, pat);
    k.a0.multiply_doubleadd(q, rho); k.a0.add(k.a0, msk.g2alpha);
    k.a1.multiply_doubleadd(p.g, rho);
    k.b = slots; int j = 0;
    for (int i = 0; i < pat.l; i++) if (pat.kind[i] == FREE_) { slots[j].idx = i; slots[j].hexp.multiply_doubleadd(p.h[i], rho); j++; }
    k.l = j; k.signatures = p.signatures;
    if (p.signatures) k.bsig.multiply_doubleadd(p.hsig, rho); else k.bsig.copy(W::G1::zero);
}
static bool pair_eq(const W::G1& x1, const W::G2& y1, const W::G1& x2, const W::G2& y2, const W::GT* extra) {
    /* e(x1,y1) == e(x2,y2) * extra */
    W::G1Affine a1, a2; W::G2Affine b1, b2; a1.from_projective(x1); a2.from_projective(x2); b1.from_projective(y1); b2.from_projective(y2);
    W::GT l, r; bls12_381::pairing(l, a1, b1); bls12_381::pairing(r, a2, b2);
    if (extra) r.multiply(r, *extra);
    return W::GT::equal(l, r);
}
static void check_wf(const char* what, const W::SecretKey& k, const W::Params& p, const Pat& pat) {
    W::G1 q; prodQ(q, p, pat);
    int nfree = 0; for (int i = 0; i < pat.l; i++) if (pat.kind[i] == FREE_) nfree++;
    if (k.l != nfree) FAIL("%s: key lists %d free slots, the pattern has %d", what, k.l, nfree);
    if (!pair_eq(k.a0, p.g, q, k.a1, &p.pairing)) FAIL("%s: e(a0,g) != e(g2,g1) e(g3 prod h_i^id_i, a1)", what);
    int j = 0;
    for (int i = 0; i < pat.l && j < k.l; i++) if (pat.kind[i] == FREE_) {
        if ((int)k.b[j].idx != i) FAIL("%s: b[%d].idx = %u, expected slot %d", what, j, k.b[j].idx, i);
        else if (!pair_eq(k.b[j].hexp, p.g, p.h[i], k.a1, NULL)) FAIL("%s: e(b[%d],g) != e(h_%d,a1)", what, j, i);
        j++;
    }
    if ((k.signatures ? 1 : 0) != (p.signatures ? 1 : 0)) FAIL("%s: signatures flag", what);
    if (p.signatures) { if (!pair_eq(k.bsig, p.g, p.hsig, k.a1, NULL)) FAIL("%s: e(bsig,g) != e(hsig,a1)", what); }
    else if (!k.bsig.is_zero()) FAIL("%s: bsig not the identity", what);
}
static void canary_fill(W::FreeSlot* s, int cap) { memset((void*)(s + cap), 0xA5, 2 * sizeof(W::FreeSlot)); }
static void canary_check(const char* what, const W::FreeSlot* s, int cap) {
    const unsigned char* p = (const unsigned char*)(s + cap);
    for (size_t i = 0; i < 2 * sizeof(W::FreeSlot); i++) if (p[i] != 0xA5) { FAIL("%s: wrote past the slot array of %d entries (the size the pattern has free slots)", what, cap); return; }
}
'''


def sc(v):
    v %= 1 << 256
    return "SC(%s)" % ", ".join("0x%xULL" % ((v >> (64 * k)) & (2**64 - 1)) for k in range(4))


class Env(dict):
    def __init__(self, model):
        dict.__init__(self)
        self.model = {k: int(v) for k, v in (model or {}).items()}
        self.n = 0

    def __missing__(self, k):
        if k in self.model:
            v = self.model[k]
        else:
            self.n += 1
            v = 1000003 * self.n + 17
        self[k] = v
        return v


def ev(expr, env):
    if expr is None:
        return None
    names = set(re.findall(r"[A-Za-z_]\w*", expr))
    return eval(expr.replace("^", "**"), {"__builtins__": {}}, {n: env[n] for n in names})


def emit_list(name, items, omit_all, env):
    n = len(items)
    out = ["  W::Attribute %s_a[%d];" % (name, max(n, 1))]
    for j, (idx, v) in enumerate(items):
        val = ev(v, env)
        out.append("  %s_a[%d].idx = %d; %s_a[%d].omitFromKeys = %s; %s_a[%d].id = %s;" % (name, j, idx, name, j, "true" if v is None else "false", name, j, sc(0 if val is None else val)))
    out.append("  W::AttributeList %s; %s.attrs = %s_a; %s.length = %d; %s.omitAllFromKeysUnlessPresent = %s;" % (name, name, name, name, n, name, "true" if omit_all else "false"))
    return out


def emit_pat(name, shape, idvals):
    out = ["  Pat %s; %s.l = %d;" % (name, name, len(shape))]
    for i, s in enumerate(shape):
        out.append("  %s.kind[%d] = %s; %s.id[%d] = %s;" % (name, i, {"F": "FREE_", "X": "FIXED_", "H": "HIDDEN_"}[s], name, i, sc(idvals.get(i, 0))))
    return out


def apply_list(shape, ids, items, omit_all, env):
    """specification-side pattern algebra on concrete values (mirrors contracts/wkd.py apply_list)"""
    listed = dict(items)
    shape2, ids2 = [], dict(ids)
    for i, s in enumerate(shape):
        if i in listed:
            v = listed[i]
            if s == "X":
                shape2.append("X")
            elif s == "H":
                shape2.append("H")
            elif v is None:
                shape2.append("H")
            else:
                shape2.append("X")
                ids2[i] = ev(v, env)
        else:
            shape2.append("H" if (s == "F" and omit_all) else s)
    return "".join(shape2), ids2


def driver(cx):
    op = cx["op"]
    env = Env(cx.get("model"))
    l, sig = cx.get("l", 0), cx.get("sig", 1)
    L = [unity_source(), PRELUDE, "int main() {",
         "  static W::G1 hbuf[MAXL]; W::Params params; params.h = hbuf; W::MasterKey msk;",
         "  W::setup(params, msk, %d, %s, det_rng);" % (l, "true" if sig else "false"),
         "  W::Scalar rho; W::random_zpstar(rho, det_rng);"]
    if op in ("keygen", "nondelegable_keygen"):
        items = [(i, v) for i, v in cx["items"]]
        want, ids = apply_list("F" * l, {}, items, cx["omit_all"], env)
        cap = want.count("F")
        L += emit_list("attrs", items, cx["omit_all"], env) + emit_pat("want", want, ids)
        L += ["  W::FreeSlot* slots = (W::FreeSlot*)malloc((%d + 2) * sizeof(W::FreeSlot)); canary_fill(slots, %d);" % (cap, cap),
              "  W::SecretKey sk; sk.b = slots;"]
        L.append("  W::keygen(sk, params, msk, attrs, det_rng);" if op == "keygen" else "  W::nondelegable_keygen(sk, params, msk, attrs);")
        L += ["  canary_check(\"%s\", slots, %d);" % (op, cap), "  if (!fails) check_wf(\"%s\", sk, params, want);" % op]
    elif op in ("qualifykey", "nondelegable_qualifykey"):
        shape = cx["parent"] if "parent" in cx else cx["key"]
        ids = {i: env["p%d" % i] for i, s in enumerate(shape) if s == "X"}
        items = [(i, v) for i, v in cx["items"]]
        want, ids2 = apply_list(shape, ids, items, cx["omit_all"], env)
        cap = want.count("F")
        L += emit_list("attrs", items, cx["omit_all"], env) + emit_pat("pat", shape, ids) + emit_pat("want", want, ids2)
        L += ["  W::FreeSlot pslots[MAXL]; W::SecretKey parent; make_wf(parent, pslots, params, msk, pat, rho);",
              "  W::FreeSlot* slots = (W::FreeSlot*)malloc((%d + 2) * sizeof(W::FreeSlot)); canary_fill(slots, %d);" % (cap, cap),
              "  W::SecretKey sk; sk.b = slots;"]
        L.append("  W::qualifykey(sk, params, parent, attrs, det_rng);" if op == "qualifykey" else "  W::nondelegable_qualifykey(sk, params, parent, attrs);")
        L += ["  canary_check(\"%s\", slots, %d);" % (op, cap), "  if (!fails) check_wf(\"%s\", sk, params, want);" % op]
    elif op == "adjust_nondelegable":
        shape = cx["parent"]
        ids = {i: env["p%d" % i] for i, s in enumerate(shape) if s == "X"}
        fr = [(i, v) for i, v in cx["frm"]]
        to = [(i, v) for i, v in cx["to"]]
        s_from, ids_from = apply_list(shape, ids, fr, 0, env)
        s_to, ids_to = apply_list(shape, ids, to, 0, env)
        cap = shape.count("F")
        L += emit_list("from", fr, 0, env) + emit_list("to", to, 0, env) + emit_pat("pat", shape, ids) + emit_pat("pfrom", s_from, ids_from) + emit_pat("want", s_to, ids_to)
        L += ["  W::FreeSlot pslots[MAXL]; W::SecretKey parent; make_wf(parent, pslots, params, msk, pat, rho);",
              "  W::FreeSlot* slots = (W::FreeSlot*)malloc((%d + 2) * sizeof(W::FreeSlot)); canary_fill(slots, %d);" % (cap, cap),
              "  W::SecretKey sk; make_wf(sk, slots, params, msk, pfrom, rho);",
              "  W::adjust_nondelegable(sk, parent, from, to);",
              "  canary_check(\"adjust_nondelegable\", slots, %d);" % cap, "  if (!fails) check_wf(\"adjust_nondelegable\", sk, params, want);"]
    elif op in ("adjust_precomputed", "precompute"):
        fr = [(i, v) for i, v in cx.get("frm", [])]
        to = [(i, v) for i, v in cx.get("to", cx.get("items", []))]
        pf = {i: ev(v, env) for i, v in fr}
        pt = {i: ev(v, env) for i, v in to}
        L += emit_list("from", fr, 0, env) + emit_list("to", to, 0, env)
        L += emit_pat("pfrom", "".join("X" if i in pf else "F" for i in range(l)), pf) + emit_pat("pto", "".join("X" if i in pt else "F" for i in range(l)), pt)
        L += ["  W::Precomputed pre; W::G1 want; prodQ(want, params, pto);"]
        if op == "precompute":
            L.append("  W::precompute(pre, params, to);")
        else:
            L += ["  prodQ(pre.prodexp, params, pfrom);", "  W::adjust_precomputed(pre, params, from, to);"]
        L.append("  if (!W::G1::equal(pre.prodexp, want)) FAIL(\"%s: result differs from g3 prod h_i^id_i of the target list (recomputed with double-and-add)\");" % op)
    elif op == "resamplekey":
        shape = cx["key"]
        ids = {i: env["p%d" % i] for i, s in enumerate(shape) if s == "X"}
        want = shape if cx["support"] else shape.replace("F", "H")
        cap = want.count("F")
        L += emit_pat("pat", shape, ids) + emit_pat("want", want, ids)
        L += ["  W::FreeSlot pslots[MAXL]; W::SecretKey key; make_wf(key, pslots, params, msk, pat, rho);",
              "  W::Precomputed pre; prodQ(pre.prodexp, params, pat);",
              "  W::FreeSlot* slots = (W::FreeSlot*)malloc((%d + 2) * sizeof(W::FreeSlot)); canary_fill(slots, %d);" % (cap, cap),
              "  W::SecretKey sk; sk.b = slots;",
              "  W::resamplekey(sk, params, pre, key, %s, det_rng);" % ("true" if cx["support"] else "false"),
              "  canary_check(\"resamplekey\", slots, %d);" % cap, "  if (!fails) check_wf(\"resamplekey\", sk, params, want);"]
    else:
        return None
    L += ["  printf(fails ? \"NATIVE-RESULT: FAIL\\n\" : \"NATIVE-RESULT: PASS\\n\");", "  return fails ? 1 : 0;", "}"]
    return "\n".join(L)


def replay(cx, wd, tag="wkd_native"):
    """returns (confirmed, text)"""
    src = driver(cx)
    if src is None:
        return False, "no native driver for scenario kind %r" % cx.get("op")
    p = os.path.join(wd, tag + ".cpp")
    open(p, "w").write(src)
    exe = os.path.join(wd, tag)
    r = subprocess.run(["clang++"] + clang_flags() + ["-O1", "-w", p, "-o", exe], capture_output=True, text=True)
    if r.returncode != 0:
        return False, "native driver does not compile: " + r.stderr[-1500:]
    try:
        r = subprocess.run([exe], capture_output=True, text=True, timeout=300)
    except subprocess.TimeoutExpired:
        return False, "native driver timed out"
    out = r.stdout + r.stderr
    return ("NATIVE-RESULT: FAIL" in out), out[-3000:]
