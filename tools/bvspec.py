"""Spec-side vocabulary for the BV back end: wide-bit-vector readings of word arrays,
reference parameters of BLS12-381 (derived from the curve parameter x, NOT from the library),
and helpers that write contract clauses."""

# ---- reference parameters (oracle): BLS12-381, x = -0xd201000000010000 ----
X_ABS = 0xd201000000010000
X = -X_ABS
R = X**4 - X**2 + 1
Q = ((X - 1)**2 * R) // 3 + X
assert ((X - 1)**2 * R) % 3 == 0
assert Q == 0x1a0111ea397fe69a4b1ba7b6434bacd764774b84f38512bf6730d2a0f6b0f6241eabfffeb153ffffb9feffffffffaaab
assert R == 0x73eda753299d7d483339d80809a1d80553bda402fffe5bfeffffffff00000001
W = 64
MOD = {384: Q, 256: R}
NAME = {384: "Q", 256: "R"}


def mont_R(bits):
    return (1 << bits) % MOD[bits]


def mont_inv_word(bits):
    """-(p^-1) mod 2^64"""
    return (-pow(MOD[bits], -1, 1 << 64)) % (1 << 64)


def lit(v, nwords, ty):
    """C expression for a wide constant built from 64-bit literals."""
    parts = []
    for i in range(nwords):
        w = (v >> (64 * i)) & ((1 << 64) - 1)
        if w:
            parts.append("((%s)0x%xULL << %d)" % (ty, w, 64 * i) if i else "((%s)0x%xULL)" % (ty, w))
    return "(" + " | ".join(parts or ["((%s)0)" % ty]) + ")"


def prelude(widths=(64, 128, 192, 256, 384, 512, 768), wordbits=64):
    """wordbits: width of BigInt::word_t in the configuration being extracted (the VALn / OLDn readings are the same integers)"""
    out = ["/* ---- spec vocabulary (not library code) ---- */"]
    for n in widths:
        nw = max(1, n // wordbits)
        ty = "uv%d" % n
        out.append("typedef unsigned __CPROVER_bitvector[%d] %s;" % (n + 64, ty))
        out.append("#define VAL%d(p) (%s)" % (n, " | ".join("((%s)(p)->words[%d] << %d)" % (ty, i, wordbits * i) for i in range(nw))))
        out.append("#define OLD%d(p) (%s)" % (n, " | ".join("((%s)__CPROVER_old((p)->words[%d]) << %d)" % (ty, i, wordbits * i) for i in range(nw))))
    out.append("#define SPEC_Q %s" % lit(Q, 6, "uv384"))
    out.append("#define SPEC_R %s" % lit(R, 4, "uv256"))
    out.append("#define SPEC_MOD384 SPEC_Q")
    out.append("#define SPEC_MOD256 SPEC_R")
    return "\n".join(out) + "\n"


def fresh(p, ty=None):
    return "__CPROVER_is_fresh(%s, sizeof(*%s))" % (p, p)


def req(*cl):
    return "".join("__CPROVER_requires(%s)\n" % c for c in cl)


def ens(*cl):
    return "".join("__CPROVER_ensures(%s)\n" % c for c in cl)


def assigns(*t):
    return "__CPROVER_assigns(%s)\n" % "; ".join(t)


def alias_all(*ptrs):
    """Every alias pattern among ptrs: the first is fresh, each later one equals an earlier one or is fresh."""
    out = ""
    for k, p in enumerate(ptrs):
        alts = ["__CPROVER_pointer_equals(%s, %s)" % (p, q) for q in ptrs[:k]] + [fresh(p)]
        out += "__CPROVER_requires(%s)\n" % " || ".join(alts)
    return out


def restrict(out, *ps):
    """__restrict operands: distinct from the written object.  Asserted at call sites (call-site
    obligation, reported as a restrict-discipline finding); dropped when the function itself is
    enforced, so the body is proved under MORE alias patterns than its signature permits."""
    return "".join("__CPROVER_requires(%s != %s) /* restrict */\n" % (out, p) for p in ps)


def alias_out_a_b(out="self", a="a", b="b"):
    """out may alias a; a may alias b; b is __restrict w.r.t. the written object."""
    return alias_all(b, a, out) + restrict(out, b)


def alias_out_a(out="self", a="a"):
    return alias_all(a, out)
