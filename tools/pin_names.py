#!/usr/bin/env python3
"""pin_names.py : record, for every function of the working tree that has a body, the declaration order of its parameters and locals
(contracts/pinned_names.json).  Run on the PINNED tree; the BV units use it to follow pure renamings of variables (tools/units.py rename_map)."""
import sys, os, json, tempfile, shutil
HERE = os.path.dirname(os.path.abspath(__file__))
sys.path[:0] = [HERE, os.path.join(HERE, "..", "contracts")]
import jast, units as U
wd = tempfile.mkdtemp(prefix="jpv.pin.")
try:
    out = {}
    for variant in (None, "wkdcapi", "lqcapi"):
        tu = jast.TU(jast.dump_ast(wd)) if variant is None else U.get_tu(jast.TU(jast.dump_ast(wd)), variant, wd)
        for q, f in tu.by_qname.items():
            if f.body is not None and q not in out:
                ps, ls = U.decl_order(f)
                if ls or ps:
                    out[q] = [ps, ls]
    with open(os.path.join(HERE, "..", "contracts", "pinned_names.json"), "w") as fh:
        json.dump(out, fh, indent=0, sort_keys=True)
    print(len(out), "functions")
finally:
    shutil.rmtree(wd, ignore_errors=True)
