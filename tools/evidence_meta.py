"""Static text that goes into every evidence file: trusted base and global assumptions (DESIGN section 10)."""
TRUSTED_BASE = [
    "clang 14 front end: JSON AST (name lookup, overload resolution, template instantiation, if-constexpr selection) and record layouts",
    "tools/cxx2c.py printer (AST -> C): rewrite rules listed in DESIGN.md 2.2; every unknown node/type aborts with exit 2",
    "cbmc 6.11.0 / goto-cc / goto-instrument --dfcc (contract instrumentation, SAT back end MiniSat)",
    "little-endian byte order; 64-bit words with unsigned __int128 double words (the configuration extracted)",
]
GLOBAL_ASSUMPTIONS = [
    "C++ object-model UB without a C counterpart (strict aliasing, union active member, lifetime of reinterpret_cast targets) is not modelled",
    "RESIST_SIDE_CHANNELS branches are not extracted (macro undefined in every shipped configuration)",
    "compiler / assembler correctness",
]
META = {}
