"""Static text that goes into every evidence file: trusted base and global assumptions (DESIGN section 10)."""
TRUSTED_BASE = [
    "clang 14 front end: JSON AST (name lookup, overload resolution, template instantiation, if-constexpr selection) and record layouts",
    "tools/cxx2c.py printer (AST -> C): rewrite rules listed in DESIGN.md 2.2; every unknown node/type aborts with exit 2",
    "cbmc 6.11.0 / goto-cc / goto-instrument --dfcc (contract instrumentation, SAT back end MiniSat)",
    "tools/symx.py VC generator with its domains (RING: exact polynomials; GROUP: Z_r-modules + integer scalars; WORD: machine words as exact integer polynomials with carry symbols, tools/worddom.py) and tools/poly.py normal forms",
    "little-endian byte order; 64-bit words with unsigned __int128 double words (the configuration extracted)",
]
GLOBAL_ASSUMPTIONS = [
    "C++ object-model UB without a C counterpart (strict aliasing, union active member, lifetime of reinterpret_cast targets) is not modelled",
    "RESIST_SIDE_CHANNELS branches are not extracted (macro undefined in every shipped configuration)",
    "compiler / assembler correctness",
]
GROUP_ASSUME = [
    "GROUP rung: G1, G2, GT are treated as Z_r-modules over formal generators; the contracts applied at this boundary are the statements of the lower rungs (C05 group law, C06 [k]P for every 256-bit k, C07 a^k, C01/C08 bilinearity of pairing and pairing_product)",
    "negative claims (does not decrypt / does not verify) are in the generic-group reading: the residual is a non-zero polynomial in the formal discrete logs (Schwartz-Zippel); collisions for special parameter values are not excluded",
    "random_generator / random scalars are fresh formal symbols (uniformity of the real samplers: C10)",
]
WKD_EXPL = ("Per-operation proof at the group level: the real bodies of src/wkdibe/api.cpp (clang AST) are executed symbolically for every slot pattern, every permitted attribute-list shape and "
            "both flags up to the stated slot count l; identities, messages, randomness and discrete logs stay symbolic, so each run decides its obligations for ALL values (polynomial identity mod r; "
            "z3 for the integer side conditions of the 256-bit scalar code, with the model replayed natively). Because well-formedness is established by keygen and preserved by every step, every finite "
            "history yields a well-formed key (induction over histories, on paper). Bounded in l only; reported as bounded obligations, not as discharged proof obligations.")
META = {
    "C02": dict(level="proof", assumptions=[
        "WORD units (multiply, square, Montgomery product / reduction, divide_std_dword): every word is 0 <= w < 2^64 and nothing else is assumed; results are exact polynomial identities; the only non-polynomial steps are monotone bounds on non-negative integers (T*R == A*B + U*p with A, B < p, U < R gives T < 2p; a carry dropped above the top word of a product that fits is 0), spelled out in contracts/fpmulw.py",
        "Fp::multiply / square / montgomery_reduce end in FpBase::reduce, which enters through its own CBMC contract (argument < 2p => result == argument mod p, < p)",
        "fp_inverse: partial correctness by an inductive invariant over the three loops (b == K*u, c == K*v mod p); each 'multiple of p' claim carries an explicit certificate m*X == p*Y + sum c_i*rel_i that is re-checked exactly; K exists because the modulus is prime (Miller-Rabin, 64 bases); infeasible integer branches pruned with z3 (QF_LIA)",
        "fp_inverse terminates: the invariant also carries u, v >= 1, gcd(u, v) == 1 (ghost Bezout witnesses X*u + Y*v == 1, re-established by integer combinations 2X / X+Y of the old ones) and 'u, v not both even' at the outer head; each halving loop strictly decreases its own variable and leaves the other pair untouched, the outer loop strictly decreases u + v; the branch u == v is excluded by the Bezout relation (u >= 2 would divide 1). Existence of the witnesses at entry is gcd(a, p) == 1 for 0 < a < p, p prime (closed fact). The loop cuts follow the loops' own text (which pair a halving loop works on, where the exit test sits), not their position",
        "exponentiate / Legendre / Fq::square_root: exponent view with loop cuts; Euler's criterion and the q == 3 (mod 4) root formula are textbook facts applied to the proved exponents",
        "Fr::square_root (Tonelli-Shanks): loop cut on the outer loop in the exponent view a^alpha * c0^gamma (gamma modulo 2^32, parity syntactic because odd quantities are written 2x+1); for every m in 1..32 and every order 2^i of t one real iteration re-establishes the invariant with m' = i < m (termination) or exits with x^2 == a; claimed for squares only; F_r^* cyclic, the root-of-unity constant of exact order 2^32 (closed fact)",
        "the assembly back ends that replace these routines are C03; the architecture forwarders (which routine each specialised method calls, with which arguments, in every preprocessor configuration incl. compile-time __BMI2__) are decided in contracts/archfw.py"]),
    "C11": dict(level="other", explanation=WKD_EXPL, assumptions=GROUP_ASSUME + [
        "slot bookkeeping for EVERY slot count (contracts/slots.py, CBMC loop contracts, reported as proof obligations): keygen, nondelegable_keygen, qualifykey, nondelegable_qualifykey -- for all 0 <= l <= INT_MAX, every attribute list and (qualification) every parent slot count: 0 <= key.l <= capacity, omitAll ==> key.l == 0, keygen lists at least l - |attrs| slots, entries ascending and in range (two ghost positions), every index inside its array, no signed overflow, no lossy conversion; group operations enter by their frame contracts only. What the entries CONTAIN is the GROUP part (bounded in l)"]),
    "C12": dict(level="other", explanation=WKD_EXPL, assumptions=GROUP_ASSUME),
    "C13": dict(level="other", explanation=WKD_EXPL, assumptions=GROUP_ASSUME),
    "C14": dict(level="other", explanation=WKD_EXPL, assumptions=GROUP_ASSUME),
    "C06": dict(level="proof", assumptions=GROUP_ASSUME + [
        "telescoping lemma (paper): scalar = c_0, c_j = 2 c_{j+1} + d_j (proved per iteration, no wrap), c_n = 0  ==>  scalar = sum d_j 2^j",
        "Horner lemma (paper): acc' = 2 acc + (digit contribution) per iteration (proved for every digit and every accumulator value)  ==>  acc_final = (sum digits 2^j) * P",
        "G1::endomorphism acts as [lambda] and the twisted Frobenius as [q] = [x] on the order-r subgroups (CM / Frobenius theory; the constants' closed facts are checked)",
        "integer contracts of BigInt::multiply (exact product) and BigInt::divide_std_dword<|x|> (a = q d + rem, rem < d) used by the decomposition units are enforced by the WORD units (contracts/fpmulw.py, contracts/decomp.py); the 128-bit / and % operators are the Euclidean pair of the C definition",
        "decompose_lambda (words): products and the rounded quotient are ghost values with the range axiom P <= (2^128-1)*v2_1; the recombination identity over them is the integer-level unit",
        "loop-cut representative index: the digit loops are checked at one representative position i; every other digit cell is poisoned, so any other access would be reported",
        "termination of rejection / retry loops is not verified"]),
    "C01": dict(level="other", explanation=("Refinement to the reference algorithm, piece by piece: (i) the real miller_loop / G2Prepared::prepare, executed for their 62+1 iterations with the step functions as uninterpreted "
                                            "transformers and the accumulator as an exponent vector over formal line values, equal the textbook Miller loop over the bits of |x| (x from the curve definition), conjugated; "
                                            "(ii) miller_doubling_step / miller_addition_step update the running point by the Jacobian doubling / mixed-addition relations and emit the tangent / chord line up to a factor in F_q2 "
                                            "(exact polynomial identities over an abstract F_q2); ell multiplies by the line evaluated at P; (iii) final_exponentiation, run on discrete logs of F_q12^*, has exponent 3(q^12-1)/r exactly, "
                                            "so every output has order dividing r; (iv) pairs with an identity member contribute nothing. That this algorithm is THE bilinear non-degenerate optimal-ate pairing is divisor theory and taken from the literature."),
                assumptions=["the optimal-ate Miller loop for BLS12 curves followed by the final exponentiation is a bilinear, non-degenerate pairing of order r (literature) -- bilinearity e(aP,bQ) = e(P,Q)^(ab) and non-degeneracy are consequences of THAT, not decided here",
                             "line values are non-zero and multiplicatively generic (exponent-vector view of F_q12^*); factors in F_q2 (indeed F_q6) are killed by the final exponentiation because (q^6-1) divides the exponent",
                             "tower operations act on discrete logs as stated (C04); Jacobian relations mean the group law (C05)",
                             "the exported constant generator_pairing equals the definition-level reference pairing of the published generators (contracts/pairing_ref.py: untwisted Q in E(F_q12), affine chord-and-tangent Miller loop, plain exponentiation by 3(q^12-1)/r; tools/tower_ref.py arithmetic), which is not 1 and has r-th power 1; that the library's pairing() on the generators returns this value follows from the refinement units, it is not evaluated inside a contract"]),
    "C08": dict(level="proof", assumptions=["schedule view: step functions uninterpreted, accumulator = exponent vector over formal line values (equal vectors <=> same multiset of line evaluations with the same powers)",
                                            "list lengths are enumerated up to 2 plain + 2 prepared pairs (quick) / 3 + 3 (thorough) with every identity pattern: BOUNDED in the list length (reported as bounded obligations); the single-pair and prepare obligations are unbounded (constant trip count executed exactly)",
                                            "final_exponentiation is a homomorphism (exponent view, C01)"]),
    "C19": dict(level="proof", assumptions=[
        "binding: every library function is an opaque recorder; the obligation is about WHICH function is called with WHICH parameters in WHICH order and what is returned -- what the callee does is the other properties",
        "the binding table is written from the C header names (gt_add -> Fq12::multiply, gt_negate -> inverse, gt_double -> square_cyclotomic, *_marshal -> encode / marshal<compressed>, ...); plain scheme wrappers must forward their parameters in declaration order to the function of the same name",
        "layout: sizes, alignments and member offsets are the C and C++ front ends' own constant evaluation (clang 14) on probes generated from the AST; the (C struct, C++ type) pairs are collected from the casts in the wrapper bodies; 32-bit-word configuration obtained with -U__SIZEOF_INT128__ on the host target (a true 32-bit target is not available offline)",
        "Go bindings (lang/go) are not covered"]),
    "C20": dict(level="other", explanation=("Frames: every function under contract in the BV back end has a proved assigns clause (its output objects and nothing else) -- the field-layer units are re-run here. Whole-library facts: "
                                            "no function-local statics in any configuration's AST, no function writes to or exposes a namespace-scope object, the rebuilt objects import only memory primitives and compiler helpers and have no "
                                            "writable symbol outside the never-written namespace-scope objects. Data-race freedom on distinct outputs follows from disjoint frames (paper lemma); no schedule is explored."),
                assumptions=["thread interleavings are not enumerated (no thread model in CBMC worth using here): re-entrancy is argued from frames + absence of hidden state",
                             "the x86-64 build configuration of this host is the one whose objects are rebuilt; AArch64 / ARMv6-M objects are not built offline (their sources contain no data sections: not checked mechanically)",
                             "the dispatch pointers are written only by their static initialisers (AST: no assignment anywhere)"]),
    "C03": dict(level="proof", assumptions=[
        "tools/asmlift.py (x86-64 subset: mov add adc sub sbb cmp neg xor and or mul mulx adcx adox imul push pop jcc ret seto) and tools/asmword.py with their instruction semantics tables are trusted; the instruction text is regenerated from objdump of the object assembled from /repo's .s on every run; native replay runs the REAL assembled routine",
        "bigint.s (bigint_384_add / subtract / multiply2, fpbase_384_add / subtract / multiply2): CBMC against the SAME contract text as the portable C++ routines (C02), out aliased to the first operand or not, plus stack balance and callee-saved registers",
        "multiply.s and multiply_bmi2_adx.s (bigint_768_multiply, bigint_768_square, fpbase_384_montgomery_reduce, both variants): WORD back end over the machine code; products / squares are exact polynomial identities for all operands; Montgomery reduction for p = q, inv = the library's constant, t < p*R: identity exact on every path, result < p by z3 (linear arithmetic over the rationals on the recorded word-range facts: sound for the integers); carries that an interval cannot exclude are excluded by the same prover or stay symbolic",
        "result and operands of the 768-bit routines are distinct objects (the C++ signatures say __restrict; call sites: C18)",
        "portable C++ with 32-bit words: the unity TU is dumped a second time with -U__SIZEOF_INT128__ (word_t = uint32_t, dword_t = uint64_t, the selection made by include/core/bigint.hpp); the 384- and 256-bit linear-layer units are re-run on that AST with the SAME contract text (the VALn readings are the same integers; only shift_right_in_word's returned bit sits at bit 31), multiply / square / Montgomery with the same word-level statements",
        "AArch64 (src/core/arch/aarch64/bigint.s, multiply.s; eight routines): WORD back end over the SOURCE TEXT -- tools/armword.py expands the .macro bodies itself and interprets ldp/stp/adds/adcs/subs/sbcs/mul/umulh/cmp/cset/b.cc (no AArch64 assembler or emulator in the sandbox, so neither the encoding nor a native run is available; the front end and the semantics table are trusted); the compare / conditional-subtract tail is proved on an abstracted state (every live word a fresh symbol, one fact T < 2p carried over), i.e. for more states than can occur",
        "ARMv6-M (src/core/arch/armv6_m/bigint.s, multiply.s; eight routines, Thumb-1, 32-bit words): tools/thumbword.py, source-text level as for AArch64; flag semantics of the pre-UAL syntax per the ARMv6-M ARM (16-bit data-processing instructions set the flags; MULS / EORS leave C; LSLS / LSRS set C to the last bit shifted out); a low-register `mov` makes C UNKNOWN (the two possible encodings differ) and no covered routine reads it afterwards; fpbase_384_reduce (fp.cpp -> FpBase<384>::reduce) enters through its 32-bit-word CBMC contract; one z3 process per path, fed incrementally (facts asserted once; `unsat` for a query is accepted only between echo markers)",
        "run-time dispatch (runtime.cpp): each pointer's initialiser is `probe ? bmi2_adx_X : X` for the same operation X, after the flag, in one translation unit, and no other namespace-scope object of the library is dynamically initialised (clang AST); the CPUID probe's machine code is the expected leaf-7 / EBX[8] & EBX[19] sequence; what the CPU reports is outside",
        "architecture forwarders (include/core/arch/*/bigint.hpp, fp.hpp): for the x86-64 default, x86-64 compiled with -mbmi2 -madx (the #ifdef __BMI2__ branches), AArch64 and ARMv6-M preprocessor configurations every explicit specialisation is one call of the routine (or dispatch pointer) of its own class, width and operation with (this, operands in order); the two ARM ASTs are dumped with clang's freestanding headers and a declarations-only <string.h> (tools/stubinc)",
        "bit-identity of the back ends is the corollary of every back end meeting the same deterministic postcondition"]),
    "C07": dict(level="proof", assumptions=GROUP_ASSUME + [
        "GT in the exponent view: multiply / square_cyclotomic / conjugate / inverse act as +, *2, -, - on discrete logs (C04 for the field operations; Granger-Scott squaring and conj = inverse on the cyclotomic subgroup are trusted)",
        "frobenius_map(.,k) on GT is exponentiation by q^k, and q = x (mod r) (closed fact by construction of q from x)",
        "Horner's rule (paper): the per-iteration identity holds for every bit pattern and every accumulator value; every index of the loop is a step case (the counter is concrete control state) and the guard is re-evaluated after each step",
        "BigInt::multiply / add / compare / divide_std_dword integer contracts (C02 rung) in the integer-level decomposition units",
        "uniformity of PowersOfX::random: (digits) <-> [0, r) is a bijection on the accepted set (paper, one line); termination of the rejection loops is not claimed"]),
    "C10": dict(level="proof", assumptions=GROUP_ASSUME + [
        "random source: function-pointer contract 'writes exactly the n bytes it is given, contents arbitrary' -- every stream is covered, termination of rejection / retry loops is not claimed",
        "try-and-increment terminates (squares are dense) -- not claimed; the result is the first accepted x by the loop-cut step/exit obligations",
        "cofactor * (curve point) lies in the order-r subgroup (Lagrange; #E = h*r checked as closed facts in C05/C06 constants)"]),
    "C09": dict(level="proof", assumptions=[
        "TRUSTED STUBS state the C02/C04 contracts of the field layer on plain integers: Fq::read_big_endian = (BE & 2^381-1) mod q, Fq::write_big_endian = BE of a canonical value (asserted), negate / compare on integers mod q; the Montgomery representation is irrelevant to the byte logic",
        "get_point_from_x / is_on_curve / is_in_correct_subgroup_assuming_on_curve are recorded oracles inside the decode units; their own contracts: RING units (get_point_from_x: y in {s,-s}, sign rule; is_on_curve: y^2 = x^3 + b) and the C06 double-and-add unit (multiplication by r)",
        "round trip decode(encode(g)) = g is the composition of the two byte-exact contracts (paper step), given sqrt(y^2) in {y,-y} and y != -y on the odd-order subgroups",
        "Fq::compare is a total order with compare(-a,-b) antisymmetric (C02 rung)"]),
    "C15": dict(level="proof", assumptions=[
        "TRUSTED STUBS (ghost recorders) stand in for Encoding::encode/decode, Affine::from_projective, Projective::from_affine, Fq12::read/write_big_endian and pairing in the marshal/unmarshal units: they record (offset, length, source tag) and touch the first and last byte of their region; what the encoders themselves do is C09 / C04",
        "round trip = (this check: unmarshal reads component k from exactly the region where marshal wrote component k, regions tile the buffer, flag byte and big-endian slot index exact) + (C09: decode(encode(g)) = g) + (C05: from_affine(from_projective(P)) ~ P)",
        "slot loops are unrolled for l in {0,1,2}: BOUNDED in the slot count (reported as bounded obligations); the length functions are proved for every buffer length n in [1, 2^32] and every first byte",
        "alignment obligations are relative to a buffer base that is itself suitably aligned (what malloc returns)",
        "lang/go/*/marshal.go (the allocating Go callers) are not covered: no Go verifier in this toolchain"]),
    "C17": dict(level="proof", assumptions=[
        "slot loops of keygen / nondelegable_keygen / qualifykey / nondelegable_qualifykey for every slot count: CBMC loop contracts with bounds, pointer, overflow and conversion checks (contracts/slots.py); destination array capacity = l (keygen) or the parent's slot count (qualification)",
        "same stubs and bounds as C15; memory-safety obligations are CBMC's own instrumentation (--bounds-check --pointer-check --pointer-overflow-check --div-by-zero-check --undefined-shift-check --signed-overflow-check) on the extracted C, plus out-of-bounds / uninitialised-read / null-subscript findings of the symbolic executor on the scheme API bodies",
        "(a) length functions: for every n and first byte, either -1 or n = fixed(first byte) + l*slot;  (b) unmarshal on a buffer of exactly that n and a slot array of exactly l entries: every access in bounds;  (a)+(b) compose to 'any buffer of any length >= 1'",
        "C++-only UB classes (strict aliasing, union active member, object lifetime) are not modelled; assembly routines are outside this check",
        "lang/go/*/marshal.go is not covered"]),
    "C16": dict(level="proof", assumptions=GROUP_ASSUME + ["Encoding::encode and Fq12::write_big_endian are injective byte encodings of the group element (C09, C04)",
        "the binding clauses are proved for an identity point != O; that compute_id_from_hash returns the point only after testing the cofactor-cleared point non-zero is an explicit obligation (defect D11: before the repair the identity hash 00..00 gave the point at infinity)",
        "hash points are formal curve points of unknown order; try_and_increment's next candidate is another such point (C10)"]),
}
