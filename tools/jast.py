"""jast: load clang's JSON AST of the *real* jedi-pairing translation units and index it.

Nothing here interprets semantics; it only finds declarations (with clang's own
name lookup / overload resolution / template instantiation already done) and gives
them stable names.  Used by cxx2c (C emitter for CBMC) and symx (VC generator).
"""
import json, os, re, subprocess, hashlib, sys

REPO = os.environ.get("JPV_REPO", "/repo")

LIB_SOURCES = [
    "src/bls12_381/fq.cpp", "src/bls12_381/fr.cpp", "src/bls12_381/fq2.cpp",
    "src/bls12_381/fq6.cpp", "src/bls12_381/fq12.cpp", "src/bls12_381/fq12_cyclotomic.cpp",
    "src/bls12_381/decomposition.cpp", "src/bls12_381/curve.cpp",
    "src/bls12_381/curve_fast_multiply.cpp", "src/bls12_381/pairing.cpp",
    "src/bls12_381/bls12_381.cpp",
    "src/wkdibe/api.cpp", "src/wkdibe/marshal.cpp",
    "src/lqibe/api.cpp", "src/lqibe/marshal.cpp",
]

# explicit instantiations the library itself never forces but whose members are
# under contract (e.g. Fr::add is public API but unused inside the library)
DRIVER = r'''
namespace embedded_pairing { namespace core {
template struct FpBase<256>;
template struct FpBase<384>;
template void fp_inverse<embedded_pairing::bls12_381::Fr>(embedded_pairing::bls12_381::Fr&, const embedded_pairing::bls12_381::Fr&);
} }
namespace jpv_driver {
using namespace embedded_pairing::bls12_381;
using embedded_pairing::core::BigInt;
void inst(Fr& r, const Fr& a, Fq& q, const Fq& b, BigInt<256>& i256, BigInt<384>& i384, G1& g1, G2& g2, const G1Affine& g1a, const G2Affine& g2a, const BigInt<256>& k, Fq12& gt) {
    gt.exponentiate_gt_nodiv(gt, k);
    r.add(a, a); r.subtract(a, a); r.multiply2(a); r.negate(a); r.multiply(a, a); r.square(a);
    r.set(i256); r.get(i256); r.into_montgomery_form(); (void) r.is_one(); (void) r.legendre();
    q.set(i384); q.get(i384); (void) q.is_one(); (void) q.legendre();
    q.add(b, b); q.subtract(b, b); q.multiply2(b); q.negate(b);
    g1.multiply_doubleadd(g1a, k); g2.multiply_doubleadd(g2a, k);
    g1.multiply_doubleadd(g1, k); g2.multiply_doubleadd(g2, k);
    g1.multiply_wnaf(g1a, k); g2.multiply_wnaf(g2a, k);
    (void) G1::equal(g1, g1); (void) G2::equal(g2, g2);
    (void) G1Affine::equal(g1a, g1a); (void) G2Affine::equal(g2a, g2a);
}
}
'''


# the C-interface translation units cannot share one TU (each opens its scheme's namespace): one variant per wrapper file
VARIANTS = {
    "wkdcapi": dict(drop=("src/lqibe/api.cpp", "src/lqibe/marshal.cpp"), add=("src/wkdibe/wkdibe.cpp",)),
    "lqcapi": dict(drop=("src/wkdibe/api.cpp", "src/wkdibe/marshal.cpp"), add=("src/lqibe/lqibe.cpp",)),
}


def unity_source(extra_sources=(), with_driver=True, repo=None, variant=None):
    repo = repo or REPO
    srcs = list(LIB_SOURCES)
    if variant:
        srcs = [f for f in srcs if f not in VARIANTS[variant]["drop"]] + list(VARIANTS[variant]["add"])
    s = "".join('#include "%s/%s"\n' % (repo, f) for f in srcs)
    s += "".join('#include "%s/%s"\n' % (repo, f) for f in extra_sources)
    if with_driver:
        s += DRIVER
    return s


def clang_flags(asm=False, repo=None):
    repo = repo or REPO
    fl = ["-std=c++17", "-I%s/include" % repo]
    if not asm:
        fl.append("-DDISABLE_ASM")
    return fl


def dump_ast(workdir, name="u1", extra_sources=(), asm=False, repo=None, extra_flags=(), source=None):
    """Run clang on the unity TU of /repo's current working tree; return parsed JSON."""
    os.makedirs(workdir, exist_ok=True)
    src = os.path.join(workdir, name + ".cpp")
    with open(src, "w") as f:
        f.write(source if source is not None else unity_source(extra_sources, repo=repo))
    out = os.path.join(workdir, name + ".json")
    cmd = ["clang++"] + clang_flags(asm, repo) + list(extra_flags) + ["-fsyntax-only", "-Xclang", "-ast-dump=json", src]
    with open(out, "w") as f:
        r = subprocess.run(cmd, stdout=f, stderr=subprocess.PIPE, text=True)
    if r.returncode != 0:
        raise ExtractionError("clang failed on the working tree:\n" + r.stderr[-4000:])
    with open(out) as f:
        root = json.load(f)
    os.unlink(out)
    return root


BUILTIN_TYPES = {"void", "bool", "_Bool", "char", "signed char", "unsigned char", "short", "unsigned short", "int",
                 "unsigned int", "long", "unsigned long", "long long", "unsigned long long", "__int128", "unsigned __int128",
                 "uint8_t", "int8_t", "uint16_t", "int16_t", "uint32_t", "int32_t", "uint64_t", "int64_t", "size_t"}
FNPTR_TYPES = {"void (*)(void *, size_t)", "void (*)(void *, unsigned long)",
               "void (*)(void *, size_t, const void *, size_t)", "void (*)(void *, unsigned long, const void *, unsigned long)"}


class ExtractionError(Exception):
    """Anything that makes the mechanical extraction unusable: exit 2 (undecided), never a violation."""


NS_STRIP = re.compile(r"\b(?:embedded_pairing::)?(?:core::|bls12_381::)")
NS_STRIP2 = re.compile(r"\bembedded_pairing::")


def norm_type(s):
    s = NS_STRIP.sub("", s)
    s = NS_STRIP2.sub("", s)
    s = re.sub(r"\b(struct|union|class|typename) ", "", s)
    s = re.sub(r"\btrue\b", "1", s)
    s = re.sub(r"\bfalse\b", "0", s)
    return s.strip()


def sanitize(s):
    s = norm_type(s)
    s = s.replace("::", "_")
    s = re.sub(r"[^A-Za-z0-9]+", "_", s)
    return s.strip("_")


def targ_str(t):
    if "type" in t:
        return norm_type(t["type"].get("desugaredQualType", t["type"]["qualType"]))
    if "value" in t:
        # clang prints a bool template argument `true` as the 1-bit signed value -1
        return "1" if t["value"] == -1 else str(t["value"])
    if "decl" in t:
        return t["decl"].get("name", "?")
    # expression argument (e.g. <x> with constexpr local): look for an evaluated ConstantExpr
    for c in t.get("inner", []):
        v = find_value(c)
        if v is not None:
            return str(v)
    return "?"


def find_value(n):
    if "value" in n and n.get("kind") in ("ConstantExpr", "IntegerLiteral"):
        return n["value"]
    for c in n.get("inner", []):
        v = find_value(c)
        if v is not None:
            return v
    return None


class Func:
    def __init__(self, node, scope, record, targs, ns):
        self.node = node
        self.id = node["id"]
        self.name = node["name"]
        self.record = record          # Record or None
        self.ns = ns                  # list of namespaces
        self.targs = targs            # template args of the function itself (strings)
        self.params = [c for c in node.get("inner", []) if c.get("kind") == "ParmVarDecl"]
        self.body = next((c for c in node.get("inner", []) if c.get("kind") == "CompoundStmt"), None)
        self.is_method = node["kind"] in ("CXXMethodDecl", "CXXConstructorDecl", "CXXDestructorDecl")
        self.is_static = node.get("storageClass") == "static" and self.is_method
        qt = node["type"]["qualType"]
        self.is_const = qt.rstrip().endswith(" const")
        self.ret_type = None
        self.implicit = bool(node.get("isImplicit"))
        self.cname = None
        self.qname = None

    def param_type(self, i):
        t = self.params[i]["type"]
        return t.get("desugaredQualType", t["qualType"])

    def line(self):
        return self.node.get("loc", {}).get("line") or self.node.get("range", {}).get("begin", {}).get("line")


class Record:
    def __init__(self, node, qname, ns):
        self.node = node
        self.ns = ns
        self.id = node["id"]
        self.qname = qname            # e.g. BigInt<384>, wkdibe::Params
        self.cname = sanitize(qname)
        self.is_union = node.get("tagUsed") == "union"
        self.fields = []              # (name, typestr, fieldnode)
        self.bases = []               # typestr
        self.static_vars = {}         # name -> VarDecl node
        for b in node.get("bases", []):
            t = b["type"]
            self.bases.append(norm_type(t.get("desugaredQualType", t["qualType"])))
        last_anon = None
        for c in node.get("inner", []):
            if c.get("kind") in ("RecordDecl", "CXXRecordDecl") and not c.get("name") and c.get("completeDefinition"):
                last_anon = c
            if c.get("kind") == "FieldDecl":
                t = c["type"]
                ft = norm_type(t.get("desugaredQualType", t["qualType"]))
                if "(unnamed" in ft or "(anonymous" in ft:
                    if last_anon is None:
                        raise ExtractionError("anonymous field type without record: " + ft)
                    ft = re.sub(r"\((unnamed|anonymous)[^)]*\)", "__anon_" + last_anon["id"], ft)
                self.fields.append((c["name"], ft, c))
            elif c.get("kind") == "VarDecl":
                self.static_vars[c["name"]] = c


import threading
_TLS = threading.local()


class TU:
    # function-local constexpr values needed to canonicalise type sugar; per thread (units run in parallel)
    @property
    def const_env(self):
        return getattr(_TLS, "const_env", {})

    @const_env.setter
    def const_env(self, v):
        _TLS.const_env = v

    def __init__(self, root):
        self.root = root
        self.decl = {}        # id -> node (every Decl kind we may reference)
        self.owner = {}       # decl id -> Record
        self.funcs = []       # Func with bodies, instantiated only
        self.func_by_id = {}
        self.records = {}     # qname -> Record (complete definitions)
        self.record_by_id = {}
        self.globals = {}     # id -> (qualified name, node)
        self.typedefs = {}
        for c in root.get("inner", []):
            self._walk(c, [], None, False)
        self._name_funcs()

    # ------------------------------------------------------------------
    def _walk(self, n, ns, rec, pattern):
        k = n.get("kind")
        if "id" in n and k and k.endswith("Decl"):
            self.decl[n["id"]] = n
            if rec is not None:
                self.owner[n["id"]] = rec
        if k == "NamespaceDecl":
            for c in n.get("inner", []):
                self._walk(c, ns + [n.get("name", "")], rec, pattern)
        elif k == "LinkageSpecDecl":
            for c in n.get("inner", []):
                self._walk(c, ns, rec, pattern)
        elif k == "ClassTemplateDecl":
            first = True
            for c in n.get("inner", []):
                ck = c.get("kind")
                if ck == "CXXRecordDecl":
                    self._walk(c, ns, rec, True)
                elif ck == "ClassTemplateSpecializationDecl":
                    self._walk(c, ns, rec, pattern)
        elif k == "ClassTemplatePartialSpecializationDecl":
            pass
        elif k in ("CXXRecordDecl", "ClassTemplateSpecializationDecl", "RecordDecl"):
            if not n.get("completeDefinition"):
                return
            name = n.get("name", "")
            anon_nested = (not name and rec is not None)
            if k == "ClassTemplateSpecializationDecl":
                targs = [c for c in n.get("inner", []) if c.get("kind") == "TemplateArgument"]
                name += "<" + ", ".join(targ_str(t) for t in targs) + ">"
            prefix = [x for x in ns if x not in ("embedded_pairing", "core", "bls12_381", "")]
            if anon_nested:
                qn = "__anon_" + n["id"]
            elif rec is not None:
                qn = rec.qname + "::" + name
            else:
                qn = "::".join(prefix + [name])
            r = Record(n, qn, ns)
            r.pattern = pattern
            if not pattern:
                if qn in self.records and self.records[qn].id != r.id:
                    pass
                self.records[qn] = r
            self.record_by_id[n["id"]] = r
            for c in n.get("inner", []):
                self._walk(c, ns, r, pattern)
        elif k == "FunctionTemplateDecl":
            for c in n.get("inner", []):
                if c.get("kind") in ("FunctionDecl", "CXXMethodDecl"):
                    has_targs = any(x.get("kind") == "TemplateArgument" for x in c.get("inner", []))
                    self._walk(c, ns, rec, pattern or not has_targs)
        elif k in ("FunctionDecl", "CXXMethodDecl", "CXXConstructorDecl"):
            if "id" in n:
                self.decl[n["id"]] = n
            for c in n.get("inner", []):
                if c.get("kind") == "ParmVarDecl":
                    self.decl[c["id"]] = c
            if pattern:
                return
            if rec is None and n.get("parentDeclContextId") in self.record_by_id:
                rec = self.record_by_id[n["parentDeclContextId"]]
                if getattr(rec, "pattern", False):
                    return
            f = Func(n, None, rec, [targ_str(t) for t in n.get("inner", []) if t.get("kind") == "TemplateArgument"], ns)
            self.func_by_id[n["id"]] = f
            if f.body is not None:
                self.funcs.append(f)
                self._index_locals(f.body)
        elif k == "VarDecl":
            if rec is None and n.get("parentDeclContextId") in self.record_by_id:
                rec = self.record_by_id[n["parentDeclContextId"]]
                if getattr(rec, "pattern", False):
                    return
            if rec is None:
                prefix = [x for x in ns if x not in ("embedded_pairing", "core", "bls12_381", "")]
                self.globals[n["id"]] = ("::".join(prefix + [n["name"]]), n)
            elif not pattern:
                self.globals[n["id"]] = (rec.qname + "::" + n["name"], n)
        elif k == "VarTemplateDecl":
            for c in n.get("inner", []):
                if c.get("kind") in ("VarTemplateSpecializationDecl",):
                    self._walk(c, ns, rec, pattern)
        elif k == "VarTemplateSpecializationDecl":
            if rec is not None and not pattern:
                targs = [targ_str(t) for t in n.get("inner", []) if t.get("kind") == "TemplateArgument"]
                self.globals[n["id"]] = (rec.qname + "::" + n["name"] + "<" + ",".join(targs) + ">", n)
        elif k in ("TypedefDecl", "TypeAliasDecl"):
            t = n["type"]
            tgt = norm_type(t.get("desugaredQualType", t["qualType"]))
            prefix = [x for x in ns if x not in ("embedded_pairing", "core", "bls12_381", "")]
            key = (rec.qname + "::" + n["name"]) if rec is not None else "::".join(prefix + [n["name"]])
            if pattern:
                return
            # typedef struct {...} name;  (C headers): remember the anonymous record under the typedef name
            rid = self._typedef_record_id(n)
            if rid is not None and rid in self.record_by_id and not self.record_by_id[rid].node.get("name"):
                r = self.record_by_id[rid]
                r.qname = key
                r.cname = sanitize(key)
                self.records[key] = r
            else:
                self.typedefs[key] = tgt

    def _typedef_record_id(self, n):
        for c in n.get("inner", []):
            if c.get("kind") == "RecordType" and "decl" in c:
                return c["decl"]["id"]
            r = self._typedef_record_id(c)
            if r is not None:
                return r
        return None

    # ------------------------------------------------------------------
    # type canonicalisation: clang prints sugar ("BigInt<768 - 384>", "wkdibe::GT",
    # "BigInt<128>::dword_t"); resolve to the names used in self.records / builtins
    def canon(self, s, scopes=()):
        s = norm_type(s)
        if s in FNPTR_TYPES:
            return s
        m = re.match(r"^(.*?)((?:\[\d*\])+)$", s)
        dims = ""
        if m:
            s, dims = m.group(1).strip(), m.group(2)
        # peel suffixes
        suf = ""
        while True:
            m = re.search(r"\s*(\*|&&|&|\bconst|\b__restrict)\s*$", s)
            if not m or (m.group(1) == "const" and not re.search(r"[\*&]\s*const\s*$", s)):
                break
            suf = " " + m.group(1) + suf if m.group(1) in ("const", "__restrict") else m.group(1) + suf
            s = s[:m.start()]
        s = s.strip()
        const = False
        if s.startswith("const "):
            const, s = True, s[6:].strip()
        if s.endswith(" const"):
            const, s = True, s[:-6].strip()
        s = re.sub(r"^typename\s+", "", s)
        base = self._canon_base(s, scopes)
        if base.startswith("const "):
            const, base = True, base[6:]
        # a typedef may itself expand to something with suffixes (pointer typedefs): re-canon
        return ("const " if const else "") + base + (" " + suf.strip() if suf.strip() else "") + dims

    def _split_targs(self, s):
        """'A<B<1>, 2>::x' -> (name 'A', [args], rest '::x') ; no template -> (s, None, '')"""
        i = s.find("<")
        if i < 0:
            return s, None, ""
        depth, args, cur = 0, [], ""
        for j in range(i, len(s)):
            ch = s[j]
            if ch == "<":
                depth += 1
                if depth == 1:
                    continue
            elif ch == ">":
                depth -= 1
                if depth == 0:
                    args.append(cur.strip())
                    return s[:i], args, s[j + 1:]
            elif ch == "," and depth == 1:
                args.append(cur.strip())
                cur = ""
                continue
            cur += ch
        raise ExtractionError("unbalanced type string " + s)

    def _canon_arg(self, a, scopes):
        a = a.strip()
        if re.fullmatch(r"[-+*/ ()0-9UuLl]+", a):
            expr = re.sub(r"(?<=\d)[UuLl]+", "", a).replace("/", "//")
            return str(eval(expr, {"__builtins__": {}}))
        if a in ("true", "false"):
            return "1" if a == "true" else "0"
        if a in getattr(self, "const_env", {}):
            return str(self.const_env[a])
        if re.fullmatch(r"[A-Za-z_][A-Za-z_0-9:]*", a) and not self._is_type_name(a, scopes):
            return a.split("::")[-1]           # reference to a global (fq_modulus_var, ...)
        return self.canon(a, scopes)

    def _is_type_name(self, a, scopes):
        if a in BUILTIN_TYPES or a in self.records or a in self.typedefs:
            return True
        for sc in scopes:
            if sc + "::" + a in self.records or sc + "::" + a in self.typedefs:
                return True
        return False

    def _canon_base(self, s, scopes, depth=0):
        if depth > 8:
            raise ExtractionError("typedef loop on " + s)
        if s in BUILTIN_TYPES or s in FNPTR_TYPES:
            return s
        name, args, rest = self._split_targs(s)
        if args is not None:
            s = name + "<" + ", ".join(self._canon_arg(a, scopes) for a in args) + ">" + rest
        if s in self.records:
            return s
        if s in self.typedefs:
            return self.canon(self.typedefs[s], scopes)
        for sc in scopes:
            q = sc + "::" + s
            if q in self.records:
                return q
            if q in self.typedefs:
                return self.canon(self.typedefs[q], scopes)
        # C::name where C is a derived class: look the member typedef up in bases
        if "::" in s:
            head, tail = s.rsplit("::", 1)
            try:
                h = self._canon_base(head, scopes, depth + 1)
            except ExtractionError:
                h = None
            if h in self.records:
                r = self.records[h]
                seen = [r]
                while seen:
                    r = seen.pop()
                    q = r.qname + "::" + tail
                    if q in self.typedefs:
                        return self.canon(self.typedefs[q], scopes)
                    if q in self.records:
                        return q
                    seen += [self.records[self.canon(b)] for b in r.bases if self.canon(b) in self.records]
        raise ExtractionError("unknown type %r (scopes %s)" % (s, list(scopes)))

    def _index_locals(self, n):
        k = n.get("kind")
        if k in ("VarDecl", "ParmVarDecl") and "id" in n:
            self.decl[n["id"]] = n
        for c in n.get("inner", []):
            self._index_locals(c)

    # ------------------------------------------------------------------
    def _name_funcs(self):
        groups = {}
        for f in self.func_by_id.values():
            prefix = [x for x in f.ns if x not in ("embedded_pairing", "core", "bls12_381", "")]
            if f.record is not None:
                base = f.record.qname + "::" + f.name
            else:
                base = "::".join(prefix + [f.name])
            if f.targs and any(re.fullmatch(r"-?\d+|true|false", t) for t in f.targs):
                base += "<" + ",".join(f.targs) + ">"
            f.qbase = base
            groups.setdefault(base, []).append(f)
        self.by_qname = {}
        for base, fs in groups.items():
            # several decls with the same signature (redeclarations): keep the one with a body
            sigs = {}
            for f in fs:
                sig = tuple(norm_type(f.param_type(i)) for i in range(len(f.params)))
                cur = sigs.get(sig)
                if cur is None or (cur.body is None and f.body is not None):
                    sigs[sig] = f
                if cur is not None and cur is not sigs[sig]:
                    cur.alias_of = sigs[sig]
                elif cur is not None:
                    f.alias_of = cur
            for g in fs:
                gsig = tuple(norm_type(g.param_type(i)) for i in range(len(g.params)))
                if g.is_static:
                    sigs[gsig].is_static = True
                if g.is_const:
                    sigs[gsig].is_const = True
            for sig, f in sigs.items():
                if len(sigs) == 1:
                    f.qname = base
                else:
                    f.qname = base + "(" + ", ".join(sig) + ")"
                f.cname = sanitize(f.qname)
                self.by_qname[f.qname] = f
            for f in fs:
                if f.qname is None:
                    o = getattr(f, "alias_of", None)
                    if o is not None:
                        f.qname, f.cname = o.qname, o.cname

    def func(self, qname):
        f = self.by_qname.get(qname)
        if f is None:
            cands = [q for q in self.by_qname if q.startswith(qname)]
            raise ExtractionError("function %r not found in the working tree's AST (candidates: %s)" % (qname, cands[:8]))
        if f.body is None:
            raise ExtractionError("function %r has no body in the AST" % qname)
        return f

    def func_of_decl(self, did):
        f = self.func_by_id.get(did)
        if f is None:
            raise ExtractionError("callee decl %s not indexed" % did)
        o = getattr(f, "alias_of", None)
        return o if (o is not None and f.body is None) else f

    def record(self, qname):
        r = self.records.get(qname)
        if r is None:
            raise ExtractionError("record %r not found" % qname)
        return r


if __name__ == "__main__":
    import tempfile
    wd = tempfile.mkdtemp(prefix="jpv.")
    tu = TU(dump_ast(wd))
    for q in sorted(tu.by_qname):
        f = tu.by_qname[q]
        if f.body is not None and not f.implicit:
            print(q, " -> ", f.cname)
    print(len(tu.records), "records")
    for q in sorted(tu.records):
        print("R", q, [(a, b) for a, b, _ in tu.records[q].fields], tu.records[q].bases)
