"""cxx2c: print clang's (already resolved, already instantiated) AST of real jedi-pairing
functions as C that CBMC's C front end accepts.  A printer, not a parser: every
rewrite is listed in DESIGN.md section 2.2 and counted in `self.rules`.

Unknown AST node kinds, unknown types, missing callees => ExtractionError (exit 2).
"""
import re, os, subprocess, struct, collections
from jast import TU, ExtractionError, norm_type, sanitize, dump_ast, unity_source, clang_flags, REPO

BUILTIN = {
    "void": (0, 1), "bool": (1, 1), "_Bool": (1, 1), "char": (1, 1), "signed char": (1, 1), "unsigned char": (1, 1),
    "short": (2, 2), "unsigned short": (2, 2), "int": (4, 4), "unsigned int": (4, 4),
    "long": (8, 8), "unsigned long": (8, 8), "long long": (8, 8), "unsigned long long": (8, 8),
    "__int128": (16, 16), "unsigned __int128": (16, 16),
    "uint8_t": (1, 1), "int8_t": (1, 1), "uint16_t": (2, 2), "int16_t": (2, 2), "uint32_t": (4, 4), "int32_t": (4, 4),
    "uint64_t": (8, 8), "int64_t": (8, 8), "size_t": (8, 8),
}
BIGINT_VIEWS = {"dwords", "words", "bytes", "std_words", "std_dwords"}
FNPTR = {
    "void (*)(void *, size_t)": "jpv_rand_fn",
    "void (*)(void *, unsigned long)": "jpv_rand_fn",
    "void (*)(void *, size_t, const void *, size_t)": "jpv_hash_fn",
    "void (*)(void *, unsigned long, const void *, unsigned long)": "jpv_hash_fn",
}

PRELUDE = r'''
#include <stdint.h>
#include <stddef.h>
#include <string.h>
typedef unsigned __int128 jpv_u128;
typedef void (*jpv_rand_fn)(void *, size_t);
typedef void (*jpv_hash_fn)(void *, size_t, const void *, size_t);
#ifndef JPV_MUL
/* word x word -> dword product; under CBMC optionally the uninterpreted symbol M (DESIGN 3.4) */
#define JPV_MUL(x, y) ((jpv_u128)(x) * (jpv_u128)(y))
#endif
#ifndef JPV_UDIV128
/* dword / dword and dword % dword; a unit may define them as the axiomatised Euclidean division (quotient and remainder
   characterised by a == q*b + r, r < b -- the C definition of the operators) instead of CBMC's bit-level divider */
#define JPV_UDIV128(x, y) ((x) / (y))
#define JPV_UREM128(x, y) ((x) % (y))
#endif
'''


def split_type(t):
    """'const BigInt<384> &__restrict' -> (base, [suffix tokens]) ; arrays handled by caller."""
    t = t.strip()
    suf = []
    while True:
        m = re.search(r"(\*|&&|&|\bconst|\b__restrict|\bvolatile)\s*$", t)
        if not m or (m.group(1) == "const" and not re.search(r"[\*&]\s*const\s*$", t)):
            break
        suf.insert(0, m.group(1))
        t = t[:m.start()].strip()
    is_const = False
    if t.startswith("const "):
        is_const = True
        t = t[6:].strip()
    if t.endswith(" const"):
        is_const = True
        t = t[:-6].strip()
    return t, is_const, suf


class Emitter:
    def __init__(self, tu, workdir):
        self.tu = tu
        self.wd = workdir
        self.rules = collections.Counter()
        self.need_records = []        # ordered cnames
        self.need_globals = {}        # cname -> (qualified cxx name, typestr, node)
        self.need_funcs = {}          # cname -> Func (everything called)
        self._layout_cache = {}
        self.global_values = None
        self.scopes = []
        self.wordbits = getattr(tu, "wordbits", 64)     # BigInt::word_t of the configuration this AST was dumped for
        self.cfg_flags = list(getattr(tu, "cfg_flags", []))

    def canon(self, ts):
        return self.tu.canon(ts, self.scopes)

    def scopes_of(self, f):
        sc = [x for x in f.ns if x not in ("embedded_pairing", "core", "bls12_381", "")]
        out = []
        if f.record is not None:
            out.append(f.record.qname)
        if sc:
            out.append("::".join(sc))
        return out

    # ---------------- types ----------------
    def record_for(self, base):
        r = self.tu.records.get(base)
        if r is None:
            # typedef'd names inside wkdibe/lqibe (G1, GT, ...) are desugared by clang already
            raise ExtractionError("unknown type %r" % base)
        return r

    def resolve_alias(self, r):
        """Derived class with one base and no own fields == its base (same layout, same C type)."""
        while not r.fields and len(r.bases) == 1:
            self.rules["derived-is-base"] += 1
            r = self.record_for(self.fcanon(r, r.bases[0]))
        return r

    def cbase(self, base):
        base = base.strip()
        if base in FNPTR:
            return FNPTR[base]
        if base in BUILTIN:
            return {"bool": "_Bool", "unsigned __int128": "jpv_u128"}.get(base, base)
        r = self.resolve_alias(self.record_for(base))
        if r.cname not in self.need_records:
            self._require_record(r)
        return r.cname

    def rscopes(self, r):
        sc = [x for x in r.node and getattr(r, "ns", []) or [] if x not in ("embedded_pairing", "core", "bls12_381", "")]
        return [r.qname] + (["::".join(sc)] if sc else [])

    def fcanon(self, r, ft):
        return self.tu.canon(ft, self.rscopes(r))

    def _require_record(self, r):
        if r.cname in self.need_records or r.cname in getattr(self, "_in_progress", set()):
            return
        self._in_progress = getattr(self, "_in_progress", set())
        self._in_progress.add(r.cname)
        self._rec_by_cname = getattr(self, "_rec_by_cname", {})
        self._rec_by_cname[r.cname] = r
        later = []
        if not r.is_union:
            for b in r.bases:
                self.cbase(self.fcanon(r, b))
            for (_, ft, _) in r.fields:
                fb, dims = self.strip_array(self.fcanon(r, ft))
                b, _, suf = split_type(fb)
                if b in FNPTR or b in BUILTIN:
                    continue
                if "*" in suf or "&" in suf:
                    later.append(b)      # pointer to record: forward declaration suffices
                    continue
                self.cbase(b)
        self.need_records.append(r.cname)
        self._in_progress.discard(r.cname)
        for b in later:
            self.cbase(b)

    @staticmethod
    def strip_array(t):
        m = re.match(r"^(.*?)((?:\[\d*\])+)$", t.strip())
        if m:
            return m.group(1).strip(), [int(x) if x else 0 for x in re.findall(r"\[(\d*)\]", m.group(2))]
        return t.strip(), []

    def cdecl(self, typestr, name):
        """C declaration of `name` with C++ type `typestr` (references become pointers)."""
        t = self.canon(typestr)
        if t in FNPTR:
            return "%s %s" % (FNPTR[t], name)
        t, dims = self.strip_array(t)
        base, is_const, suf = split_type(t)
        if base in FNPTR:
            cb = FNPTR[base]
        else:
            cb = self.cbase(base)
        s = ("const " if is_const else "") + cb
        for x in suf:
            if x in ("&", "&&"):
                self.rules["ref-to-pointer"] += 1
                s += " *"
            elif x == "*":
                s += " *"
            elif x == "const":
                s += " const"
            elif x == "__restrict":
                self.rules["drop-restrict"] += 1
        return s + " " + name + "".join("[%d]" % d for d in dims)

    def ctype(self, typestr):
        return self.cdecl(typestr, "").strip()

    def is_ref(self, typestr):
        _, _, suf = split_type(self.strip_array(norm_type(typestr))[0])
        return any(x in ("&", "&&") for x in suf)

    def raw_type(self, n):
        t = n["type"]
        return t.get("desugaredQualType", t["qualType"])

    # ---------------- layout ----------------
    def layout(self, typestr):
        """(size, align) under the LP64 / 64-bit-word configuration."""
        t = self.canon(typestr)
        if t in self._layout_cache:
            return self._layout_cache[t]
        tb, dims = self.strip_array(t)
        base, _, suf = split_type(tb)
        if suf and any(x in ("*", "&", "&&") for x in suf) or base in FNPTR:
            sz, al = 8, 8
        elif base in BUILTIN:
            sz, al = BUILTIN[base]
        else:
            sz, al, _ = self.record_layout(self.record_for(base))
        for d in dims:
            sz *= d
        self._layout_cache[t] = (sz, al)
        return sz, al

    def record_layout(self, r):
        key = "R:" + r.qname
        if key in self._layout_cache:
            return self._layout_cache[key]
        offs = {}
        if r.is_union:
            sz = al = 0
            for (fn, ft, _) in r.fields:
                s, a = self.layout(self.fcanon(r, ft))
                sz, al = max(sz, s), max(al, a)
                offs[fn] = 0
            sz = (sz + al - 1) // al * al
        else:
            off, al = 0, 1
            for b in r.bases:
                s, a, _ = self.record_layout(self.record_for(self.fcanon(r, b)))
                off = (off + a - 1) // a * a
                off += s
                al = max(al, a)
            for (fn, ft, _) in r.fields:
                s, a = self.layout(self.fcanon(r, ft))
                off = (off + a - 1) // a * a
                offs[fn] = off
                off += s
                al = max(al, a)
            sz = (off + al - 1) // al * al
            if sz == 0:
                sz = 1
        self._layout_cache[key] = (sz, al, offs)
        return sz, al, offs

    def sizeof(self, typestr):
        return self.layout(typestr)[0]

    # ---------------- records as C ----------------
    def record_c(self, cname):
        r = self._rec_by_cname[cname]
        if r.is_union:
            if not r.qname.startswith("BigInt<"):
                raise ExtractionError("unexpected union " + r.qname)
            self.rules["union-flatten"] += 1
            sz, al, _ = self.record_layout(r)
            return "struct %s { uint64_t words[%d]; } __attribute__((aligned(%d)));" % (cname, sz // 8, al)
        lines = []
        for b in r.bases:
            lines.append("  %s jpv_base;" % self.cbase(self.fcanon(r, b)))
        for (fn, ft, _) in r.fields:
            lines.append("  " + self.cdecl(self.fcanon(r, ft), fn) + ";")
        if not lines:
            lines.append("  char jpv_empty;")
        return "struct %s {\n%s\n};" % (cname, "\n".join(lines))

    # ---------------- globals ----------------
    def global_ref(self, did):
        """C lvalue expression for a namespace-scope / static-member variable."""
        qn, node = self.tu.globals[did]
        t = node["type"]
        ts = self.canon(t.get("desugaredQualType", t["qualType"]))
        if self.is_ref(ts):
            # constexpr reference (Fp::p_value etc.): resolve to its referent statically
            tgt = self._find_declref(node)
            if tgt is None:
                raise ExtractionError("cannot resolve reference global " + qn)
            self.rules["ref-global-resolved"] += 1
            return self.global_ref(tgt)
        cname = "g_" + sanitize(qn)
        if cname not in self.need_globals:
            self.need_globals[cname] = (qn, ts, node)
            tb, _ = self.strip_array(ts)
            b, _, suf = split_type(tb)
            if not any(x in ("*", "&") for x in suf):
                self.cbase(b)
        return cname

    def _find_declref(self, n):
        for c in n.get("inner", []):
            if c.get("kind") == "DeclRefExpr":
                rid = c["referencedDecl"]["id"]
                if rid in self.tu.globals:
                    return rid
            r = self._find_declref(c)
            if r is not None:
                return r
        return None

    def cxx_global_name(self, qn, node):
        """Spell the global for the native constant dumper (namespaces opened by using-directives)."""
        return qn

    def load_global_values(self):
        """Native constant dumper: the real headers + sources, compiled by the real compiler."""
        if not self.need_globals:
            self.global_values = {}
            return
        src = unity_source()
        src += "\n#include <stdio.h>\nusing namespace embedded_pairing; using namespace embedded_pairing::core; using namespace embedded_pairing::bls12_381;\n"
        src += "static void jpv_dump(const char* n, const void* p, size_t s){ printf(\"%s %zu \", n, s); for(size_t i=0;i<s;i++) printf(\"%02x\", ((const unsigned char*)p)[i]); printf(\"\\n\"); }\n"
        src += "int main(){\n"
        for cname, (qn, ts, node) in self.need_globals.items():
            cxx = re.sub(r"<([^<>]*)>", lambda m: "<" + m.group(1) + ">", qn)
            if self.strip_array(ts)[1]:
                src += "  jpv_dump(\"%s\", &(%s), sizeof(%s));\n" % (cname, cxx, cxx)
            else:
                src += "  { auto jpv_v = %s; jpv_dump(\"%s\", &jpv_v, sizeof(jpv_v)); }\n" % (cxx, cname)
        src += "  return 0; }\n"
        p = os.path.join(self.wd, "constdump.cpp")
        open(p, "w").write(src)
        exe = os.path.join(self.wd, "constdump")
        r = subprocess.run(["clang++"] + clang_flags() + self.cfg_flags + ["-O0", "-w", p, "-o", exe], capture_output=True, text=True)
        if r.returncode != 0:
            raise ExtractionError("constant dumper does not compile:\n" + r.stderr[-3000:])
        out = subprocess.run([exe], capture_output=True, text=True, check=True).stdout
        self.global_values = {}
        for line in out.splitlines():
            n, s, hx = line.split(" ")
            self.global_values[n] = bytes.fromhex(hx)
            qn, ts, node = self.need_globals[n]
            if int(s) != self.sizeof(ts):
                raise ExtractionError("layout mismatch for %s: clang sizeof=%s, extractor=%d" % (qn, s, self.sizeof(ts)))

    def init_from_bytes(self, typestr, data):
        t = self.canon(typestr)
        tb, dims = self.strip_array(t)
        if dims:
            inner = tb + "".join("[%d]" % d for d in dims[1:])
            s = self.sizeof(inner)
            return "{" + ", ".join(self.init_from_bytes(inner, data[i * s:(i + 1) * s]) for i in range(dims[0])) + "}"
        base, _, suf = split_type(tb)
        if any(x in ("*", "&") for x in suf):
            raise ExtractionError("pointer-valued constant not supported: " + typestr)
        if base in BUILTIN:
            v = int.from_bytes(data[:BUILTIN[base][0]], "little")
            return "%dU" % v if v < 2**32 else "%dULL" % v
        r = self.resolve_alias(self.record_for(base))
        if r.is_union:
            n = len(data) // 8
            return "{{" + ", ".join("0x%xULL" % int.from_bytes(data[8 * i:8 * i + 8], "little") for i in range(n)) + "}}"
        sz, al, offs = self.record_layout(r)
        parts = []
        off = 0
        for b in r.bases:
            b = self.fcanon(r, b)
            s, a, _ = self.record_layout(self.record_for(b))
            parts.append(self.init_from_bytes(b, data[off:off + s]))
            off += s
        for (fn, ft, _) in r.fields:
            ft = self.fcanon(r, ft)
            s, _ = self.layout(ft)
            parts.append(".%s = %s" % (fn, self.init_from_bytes(ft, data[offs[fn]:offs[fn] + s])))
        return "{" + ", ".join(parts) + "}"

    def globals_c(self):
        if self.global_values is None:
            self.load_global_values()
        out = []
        for cname, (qn, ts, node) in self.need_globals.items():
            const = "const " if (split_type(self.strip_array(ts)[0])[1] or node.get("constexpr")) else ""
            tb = ts[6:] if ts.startswith("const ") else ts
            out.append("static %s%s = %s; /* %s */" % (const, self.cdecl(tb, cname), self.init_from_bytes(ts, self.global_values[cname]), qn))
        return "\n".join(out)

    # ---------------- expressions ----------------
    def tstr(self, n):
        t = n["type"]
        return self.canon(t.get("desugaredQualType", t["qualType"]))

    def expr(self, n, cx):
        k = n["kind"]
        m = getattr(self, "e_" + k, None)
        if m is None:
            raise ExtractionError("unsupported expression node %s in %s" % (k, cx.get("fn")))
        self.rules["node:" + k] += 1
        return m(n, cx)

    def kids(self, n):
        return [c for c in n.get("inner", [])]

    def e_ParenExpr(self, n, cx):
        return "(" + self.expr(n["inner"][0], cx) + ")"

    def e_ConstantExpr(self, n, cx):
        return self.expr(n["inner"][0], cx)

    def e_ExprWithCleanups(self, n, cx):
        return self.expr(n["inner"][0], cx)

    def e_MaterializeTemporaryExpr(self, n, cx):
        return self.expr(n["inner"][0], cx)

    def e_SubstNonTypeTemplateParmExpr(self, n, cx):
        self.rules["template-arg-subst"] += 1
        inner = [c for c in n["inner"] if c.get("kind") != "NonTypeTemplateParmDecl"]
        return self.expr(inner[-1], cx)

    def e_CXXDefaultArgExpr(self, n, cx):
        raise ExtractionError("default argument must be expanded at call site")

    def e_IntegerLiteral(self, n, cx):
        t = self.tstr(n)
        v = n["value"]
        suf = {"unsigned int": "U", "long": "L", "unsigned long": "UL", "long long": "LL", "unsigned long long": "ULL", "int": ""}.get(t)
        if suf is None:
            return "((%s)%s)" % (self.ctype(t), v)
        return v + suf

    def e_CharacterLiteral(self, n, cx):
        return str(n["value"])

    def e_CXXBoolLiteralExpr(self, n, cx):
        return "1" if n["value"] else "0"

    def e_CXXNullPtrLiteralExpr(self, n, cx):
        return "0"

    def e_CXXThisExpr(self, n, cx):
        return "self"

    def e_DeclRefExpr(self, n, cx):
        ref = n["referencedDecl"]
        rid, rk = ref["id"], ref["kind"]
        if rk in ("ParmVarDecl", "VarDecl", "VarTemplateSpecializationDecl"):
            if rid in self.tu.globals and rid not in cx["locals"]:
                return self.global_ref(rid)
            if rk == "VarTemplateSpecializationDecl":
                raise ExtractionError("variable template specialisation %s not indexed" % ref.get("name"))
            name = ref["name"]
            d = self.tu.decl.get(rid)
            t = (d or ref)["type"]
            ts = norm_type(t.get("desugaredQualType", t["qualType"]))
            if self.is_ref(ts):
                return "(*%s)" % name
            return name
        if rk in ("FunctionDecl", "CXXMethodDecl"):
            f = self.tu.func_of_decl(rid) if rid in self.tu.func_by_id else None
            if f is None:
                return ref["name"]        # libc function (memcpy, ...)
            self.need_funcs[f.cname] = f
            return f.cname
        raise ExtractionError("DeclRefExpr to %s" % rk)

    def e_MemberExpr(self, n, cx):
        base = self.expr(n["inner"][0], cx)
        name = n["name"]
        bt = self.tstr(n["inner"][0])
        b, _, suf = split_type(bt)
        arrow = n.get("isArrow")
        rid = n.get("referencedMemberDecl")
        if rid in self.tu.globals:
            # static data member accessed through an object
            return self.global_ref(rid)
        rec = self.tu.records.get(b)
        if rec is not None and rec.is_union and name in BIGINT_VIEWS:
            acc = "(%s)->words" % base if arrow else "(%s).words" % base
            if name == "words" and self.wordbits == 64:
                return acc
            self.rules["union-view:" + name] += 1
            et = {"dwords": "jpv_u128" if self.wordbits == 64 else "uint64_t", "words": "uint32_t", "bytes": "uint8_t", "std_words": "uint32_t", "std_dwords": "uint64_t"}[name]
            return "((%s *)%s)" % (et, acc)
        return "(%s)%s%s" % (base, "->" if arrow else ".", name)

    def e_ArraySubscriptExpr(self, n, cx):
        return "%s[%s]" % (self.expr(n["inner"][0], cx), self.expr(n["inner"][1], cx))

    def e_UnaryOperator(self, n, cx):
        op = n["opcode"]
        e = self.expr(n["inner"][0], cx)
        if n.get("isPostfix"):
            return "(%s)%s" % (e, op)
        if op == "&":
            return "(&%s)" % e
        if op == "*":
            return "(*%s)" % e
        return "(%s(%s))" % (op, e)

    def is_word_mul(self, n):
        if n.get("opcode") != "*":
            return False
        t = self.tstr(n)
        return t in ("unsigned __int128",)

    def e_BinaryOperator(self, n, cx):
        op = n["opcode"]
        a, b = n["inner"]
        if op == "*" and self.tstr(n) == "unsigned __int128":
            self.rules["MUL"] += 1
            return "JPV_MUL(%s, %s)" % (self.expr(a, cx), self.expr(b, cx))
        if op in ("/", "%") and self.tstr(n) == "unsigned __int128":
            self.rules["DIV128"] += 1
            return "%s(%s, %s)" % ("JPV_UDIV128" if op == "/" else "JPV_UREM128", self.expr(a, cx), self.expr(b, cx))
        if op == ",":
            return "(%s, %s)" % (self.expr(a, cx), self.expr(b, cx))
        return "(%s %s %s)" % (self.expr(a, cx), op, self.expr(b, cx))

    def e_CXXOperatorCallExpr(self, n, cx):
        """only the implicitly defined copy assignment of a trivially copyable record: plain C struct assignment"""
        callee, args = n["inner"][0], n["inner"][1:]
        c = callee
        while c["kind"] in ("ImplicitCastExpr", "ParenExpr"):
            c = c["inner"][0]
        rd = c.get("referencedDecl", {}) if c["kind"] == "DeclRefExpr" else {}
        if rd.get("name") != "operator=" or len(args) != 2:
            raise ExtractionError("unsupported overloaded operator %s in %s" % (rd.get("name"), cx.get("fn")))
        f = None
        try:
            f = self.tu.func_of_decl(rd["id"])
        except Exception:
            f = None
        if f is not None and f.body is not None and not getattr(f, "is_implicit", False) and not f.node.get("isImplicit"):
            raise ExtractionError("user-provided operator= in %s" % cx.get("fn"))
        self.rules["struct-assignment"] += 1
        return "(%s = %s)" % (self.expr(args[0], cx), self.expr(args[1], cx))

    def e_CompoundAssignOperator(self, n, cx):
        a, b = n["inner"]
        return "(%s %s %s)" % (self.expr(a, cx), n["opcode"], self.expr(b, cx))

    def e_ConditionalOperator(self, n, cx):
        c, a, b = n["inner"]
        return "(%s ? %s : %s)" % (self.expr(c, cx), self.expr(a, cx), self.expr(b, cx))

    def e_ImplicitCastExpr(self, n, cx):
        ck = n["castKind"]
        e = self.expr(n["inner"][0], cx)
        if ck in ("LValueToRValue", "NoOp", "ArrayToPointerDecay", "FunctionToPointerDecay"):
            return e
        if ck in ("DerivedToBase", "UncheckedDerivedToBase"):
            self.rules["derived-to-base"] += 1
            if n.get("valueCategory") == "prvalue":       # pointer conversion
                return "((%s)(%s))" % (self.ctype(self.tstr(n)), e)
            return e
        if ck in ("IntegralCast", "BitCast", "IntegralToBoolean", "BooleanToSignedIntegral", "PointerToBoolean"):
            return "((%s)(%s))" % (self.ctype(self.tstr(n)), e)
        if ck == "NullToPointer":
            return "0"
        raise ExtractionError("implicit cast kind " + ck)

    def _align_obligation(self, n, e, cx):
        """a cast that produces a pointer to a type with stricter alignment than its source: the pointer must be aligned
        (otherwise every access through it is UB).  Emitted as an assertion in front of the statement (C17)."""
        try:
            t = self.tstr(n)
            tb, _, suf = split_type(t)
            if "*" not in suf or tb in BUILTIN or tb in FNPTR or tb not in self.tu.records:
                return
            al = self.record_layout(self.tu.records[tb])[1]
            if al <= 1:
                return
            st = self.tstr(n["inner"][-1])
            sb, _, ssuf = split_type(st)
            sal = 1
            if sb in BUILTIN:
                sal = BUILTIN[sb][1] if sb != "void" else 1
            elif sb in self.tu.records:
                sal = self.record_layout(self.tu.records[sb])[1]
            if sal >= al:
                return
            self.rules["alignment-obligation"] += 1
            # the source type guarantees only alignment `sal`: the object's base may sit at any multiple of it (a caller's byte buffer: anywhere)
            cx.setdefault("pre_stmts", []).append('{ size_t jpv_base; __CPROVER_assume(jpv_base %% %d == 0); __CPROVER_assert((jpv_base + __CPROVER_POINTER_OFFSET(%s)) %% %d == 0, "alignment: pointer cast to %s (alignment %d) from a pointer whose type guarantees alignment %d only"); }' % (sal, e, al, tb, al, sal))
        except ExtractionError:
            return

    def _explicit_cast(self, n, cx):
        inner = [c for c in n["inner"]]
        e = self.expr(inner[-1], cx)
        self._align_obligation(n, e, cx)
        return "((%s)(%s))" % (self.ctype(self.tstr(n)), e)

    e_CStyleCastExpr = _explicit_cast
    e_CXXStaticCastExpr = _explicit_cast
    e_CXXFunctionalCastExpr = _explicit_cast
    e_CXXConstCastExpr = _explicit_cast

    def e_CXXReinterpretCastExpr(self, n, cx):
        self.rules["reinterpret-cast"] += 1
        e = self.expr(n["inner"][-1], cx)
        t = self.tstr(n)
        if n.get("valueCategory") == "lvalue":
            return "(*(%s *)&(%s))" % (self.ctype(t), e)
        self._align_obligation(n, e, cx)
        return "((%s)(%s))" % (self.ctype(t), e)

    def e_UnaryExprOrTypeTraitExpr(self, n, cx):
        if n.get("name") != "sizeof":
            raise ExtractionError("type trait " + str(n.get("name")))
        if "argType" in n:
            t = n["argType"]
            ts = self.canon(t.get("desugaredQualType", t["qualType"]))
        else:
            ts = self.tstr(n["inner"][0])
            # sizeof(expr) of reference-typed / parenthesised expression: clang gives the object type
        ts = ts.rstrip("& ")
        self.rules["sizeof-const"] += 1
        return "((size_t)%dUL)" % self.sizeof(ts)

    def e_CXXConstructExpr(self, n, cx):
        # copy construction of a POD: value of the source expression
        args = n.get("inner", [])
        if len(args) == 1:
            self.rules["pod-copy-ctor"] += 1
            return self.expr(args[0], cx)
        raise ExtractionError("constructor with %d args" % len(args))

    def call_args(self, f_params, args, cx):
        out = []
        for i, a in enumerate(args):
            if a["kind"] == "CXXDefaultArgExpr":
                # expand the default from the callee declaration
                p = f_params[i]
                dflt = [c for c in p.get("inner", []) if c.get("kind") not in ("NoInlineAttr",)]
                if not dflt:
                    raise ExtractionError("default arg without expression")
                self.rules["default-arg"] += 1
                out.append(self.expr(dflt[-1], cx))
                continue
            pt = f_params[i]["type"] if i < len(f_params) else None
            if pt is not None and self.is_ref(norm_type(pt.get("desugaredQualType", pt["qualType"]))):
                out.append("&(%s)" % self.expr(a, cx))
            else:
                out.append(self.expr(a, cx))
        return out

    def e_CallExpr(self, n, cx):
        callee, args = n["inner"][0], n["inner"][1:]
        # find referenced function decl
        c = callee
        while c["kind"] in ("ImplicitCastExpr", "ParenExpr"):
            c = c["inner"][0]
        if c["kind"] == "DeclRefExpr" and c["referencedDecl"]["kind"] in ("FunctionDecl", "CXXMethodDecl"):
            rid = c["referencedDecl"]["id"]
            if rid in self.tu.func_by_id and c["referencedDecl"]["name"] not in ("memcpy", "memmove", "memset", "memcmp"):
                f = self.tu.func_of_decl(rid)
                self.need_funcs[f.cname] = f
                return "%s(%s)" % (f.cname, ", ".join(self.call_args(f.params, args, cx)))
            name = c["referencedDecl"]["name"]
            if name not in ("memcpy", "memmove", "memset", "memcmp"):
                raise ExtractionError("call to external function " + name)
            self.rules["libc:" + name] += 1
            return "%s(%s)" % (name, ", ".join(self.expr(a, cx) for a in args))
        # call through function pointer
        self.rules["fnptr-call"] += 1
        return "(*%s)(%s)" % (self.expr(callee, cx), ", ".join(self.expr(a, cx) for a in args))

    def e_CXXMemberCallExpr(self, n, cx):
        me, args = n["inner"][0], n["inner"][1:]
        while me["kind"] in ("ParenExpr",):
            me = me["inner"][0]
        if me["kind"] != "MemberExpr":
            raise ExtractionError("member call through " + me["kind"])
        f = self.tu.func_of_decl(me["referencedMemberDecl"])
        self.need_funcs[f.cname] = f
        obj = self.expr(me["inner"][0], cx)
        if f.is_static:
            return "%s(%s)" % (f.cname, ", ".join(self.call_args(f.params, args, cx)))
        selfarg = obj if me.get("isArrow") else "&(%s)" % obj
        return "%s(%s)" % (f.cname, ", ".join([selfarg] + self.call_args(f.params, args, cx)))

    def e_InitListExpr(self, n, cx):
        return self.init_list(n, cx)

    def e_ImplicitValueInitExpr(self, n, cx):
        return "{0}"

    def init_list(self, n, cx):
        ts = self.tstr(n)
        tb, dims = self.strip_array(ts)
        if dims:
            items = [self.expr(c, cx) for c in n.get("inner", [])]
            return "{" + ", ".join(items or ["0"]) + "}"
        base, _, _ = split_type(tb)
        if base in BUILTIN:
            return self.expr(n["inner"][0], cx)
        r = self.record_for(base)
        if r.is_union:
            self.rules["union-init"] += 1
            fld = n.get("field", {}).get("name")
            inner = n.get("inner", [])
            if not inner:
                return "{{0}}"
            vals = self._int_list(inner[0])
            esz = {"std_words": 4, "std_dwords": 8, "dwords": 2 * self.wordbits // 8, "words": self.wordbits // 8, "bytes": 1}[fld]
            sz = self.record_layout(r)[0]
            raw = b"".join(int(v).to_bytes(esz, "little") for v in vals).ljust(sz, b"\0")
            return "{{" + ", ".join("0x%xULL" % int.from_bytes(raw[8 * i:8 * i + 8], "little") for i in range(sz // 8)) + "}}"
        # struct: bases first, then fields
        inner = n.get("inner", [])
        nb = len(r.bases)
        if not r.fields and nb == 1:
            return self.expr(inner[0], cx) if inner else "{0}"
        parts = []
        for i, c in enumerate(inner):
            if i < nb:
                parts.append(self.expr(c, cx))
            else:
                parts.append(".%s = %s" % (r.fields[i - nb][0], self.expr(c, cx)))
        return "{" + ", ".join(parts) + "}"

    def _int_list(self, n):
        if n["kind"] == "IntegerLiteral":
            return [int(n["value"])]
        if n["kind"] == "ImplicitValueInitExpr":
            return []
        out = []
        for c in n.get("inner", []):
            out += self._int_list(c)
        return out

    # ---------------- statements ----------------
    def stmt(self, n, cx, ind):
        k = n["kind"]
        if k in ("DeclStmt", "ReturnStmt") or k.endswith("Expr") or k.endswith("Operator"):
            cx["pre_stmts"] = []
            body = self._stmt(n, cx, ind)
            pre = "".join("  " * ind + "/* ghost */ " + p + "\n" for p in cx.pop("pre_stmts", []))
            return pre + body
        return self._stmt(n, cx, ind)

    def _stmt(self, n, cx, ind):
        k = n["kind"]
        pad = "  " * ind
        self.rules["node:" + k] += 1
        if k == "CompoundStmt":
            s = pad + "{\n"
            for c in n.get("inner", []):
                s += self.stmt(c, cx, ind + 1)
            return s + pad + "}\n"
        if k == "NullStmt":
            return pad + ";\n"
        if k == "DeclStmt":
            return "".join(self.vardecl(c, cx, ind) for c in n["inner"])
        if k == "ReturnStmt":
            if n.get("inner"):
                return pad + "return %s;\n" % self.expr(n["inner"][0], cx)
            return pad + "return;\n"
        if k == "BreakStmt":
            return pad + "break;\n"
        if k == "ContinueStmt":
            return pad + "continue;\n"
        if k == "IfStmt":
            inner = n["inner"]
            if n.get("isConstexpr"):
                self.rules["if-constexpr"] += 1
            cond = self.expr(inner[0], cx)
            s = pad + "if (%s)\n" % cond + self.stmt(self._block(inner[1]), cx, ind)
            if len(inner) > 2:
                s += pad + "else\n" + self.stmt(self._block(inner[2]), cx, ind)
            return s
        if k in ("ForStmt", "WhileStmt", "DoStmt"):
            cx["loop"] += 1
            ordinal = cx["loop"]
            lc = cx["loop_contracts"].get(ordinal, "")
            if lc:
                cx["loop_contracts_used"].add(ordinal)
                if "@LOCALS@" in lc:
                    # frame of the loop: every local declared so far (an over-approximation, so the invariant must carry
                    # whatever is needed); keeps the contract independent of incidental temporaries
                    self.rules["loop-frame-locals"] += 1
                    loc_ = ", ".join(cx.get("local_decls", []))
                    if not loc_:
                        lc = lc.replace("@LOCALS@, ", "").replace(", @LOCALS@", "")
                    lc = lc.replace("@LOCALS@", loc_ or "jpv_nothing")
                lc = "\n".join(pad + "  " + l for l in lc.strip().splitlines()) + "\n"
            g_begin, g_end = cx["loop_contracts"].get(("begin", ordinal)), cx["loop_contracts"].get(("end", ordinal))
            if g_begin or g_end:
                # ghost statements at the start / end of the loop body (spec side only)
                for key in (("begin", ordinal), ("end", ordinal)):
                    if key in cx["loop_contracts"]:
                        cx["loop_contracts_used"].add(key)
                inner = n["inner"][-1] if k != "DoStmt" else n["inner"][0]
                if g_end and self._has_continue(inner):
                    raise ExtractionError("ghost code at the end of a loop body that contains `continue`")
                real_block = self._block
                def wrap(b, real_block=real_block, g_begin=g_begin, g_end=g_end):
                    self._block = real_block          # one-shot: only the loop's own body
                    b = real_block(b)
                    items = list(b.get("inner", []))
                    if g_begin:
                        items.insert(0, {"kind": "JpvGhost", "text": g_begin})
                    if g_end:
                        items.append({"kind": "JpvGhost", "text": g_end})
                    return {"kind": "CompoundStmt", "inner": items}
                self._block = wrap
                try:
                    return self._loop_text(n, k, cx, ind, pad, lc)
                finally:
                    self._block = real_block
            return self._loop_text(n, k, cx, ind, pad, lc)
        if k == "JpvGhost":
            return "".join(pad + "/* ghost */ " + l + "\n" for l in n["text"].strip().splitlines())
        if False:
            pass
        if k == "SwitchStmt":
            cond, body = n["inner"][-2], n["inner"][-1]
            return pad + "switch (%s)\n" % self.expr(cond, cx) + self.stmt(body, cx, ind)
        if k == "CaseStmt":
            val = n["inner"][0]
            sub = n["inner"][-1]
            return pad + "case %s:\n" % self.expr(val, cx) + self.stmt(sub, cx, ind + 1)
        if k == "DefaultStmt":
            return pad + "default:\n" + self.stmt(n["inner"][-1], cx, ind + 1)
        # expression statement
        return pad + self.expr(n, cx) + ";\n"

    def _has_continue(self, n):
        if n.get("kind") == "ContinueStmt":
            return True
        if n.get("kind") in ("ForStmt", "WhileStmt", "DoStmt"):
            return False
        return any(self._has_continue(c) for c in n.get("inner", []))

    def _loop_text(self, n, k, cx, ind, pad, lc):
        if True:
            if k == "ForStmt":
                init, condvar, cond, inc, body = n["inner"]
                if init.get("kind") == "DeclStmt" and len([c for c in init.get("inner", []) if c.get("kind") == "VarDecl"]) > 1:
                    # `for (T a = .., b = ..; ...)`: the declarations are hoisted into an enclosing block (same scope, same order)
                    self.rules["for-init-multi-decl"] += 1
                    pre = self.stmt(init, cx, ind + 1)
                    c_s = self.expr(cond, cx) if cond.get("kind") else ""
                    n_s = self.expr(inc, cx) if inc.get("kind") else ""
                    return pad + "{\n" + pre + pad + "  for (; %s; %s)\n" % (c_s, n_s) + lc + self.stmt(self._block(body), cx, ind + 1) + pad + "}\n"
                i_s = self.stmt(init, cx, 0).strip() if init.get("kind") else ";"
                if not i_s.endswith(";"):
                    i_s += ";"
                c_s = self.expr(cond, cx) if cond.get("kind") else ""
                n_s = self.expr(inc, cx) if inc.get("kind") else ""
                return pad + "for (%s %s; %s)\n" % (i_s, c_s, n_s) + lc + self.stmt(self._block(body), cx, ind)
            if k == "WhileStmt":
                cond, body = n["inner"][-2], n["inner"][-1]
                return pad + "while (%s)\n" % self.expr(cond, cx) + lc + self.stmt(self._block(body), cx, ind)
            body, cond = n["inner"]
            return pad + "do\n" + lc + self.stmt(self._block(body), cx, ind) + pad + "while (%s);\n" % self.expr(cond, cx)

    def _block(self, n):
        if n["kind"] == "CompoundStmt":
            return n
        return {"kind": "CompoundStmt", "inner": [n]}

    def vardecl(self, n, cx, ind):
        pad = "  " * ind
        if n["kind"] != "VarDecl":
            raise ExtractionError("declaration kind " + n["kind"])
        if n.get("storageClass") == "static":
            raise ExtractionError("static local variable %s" % n["name"])
        cx["locals"].add(n["id"])
        t = n["type"]
        init = [c for c in n.get("inner", []) if c.get("kind") and not c["kind"].endswith("Attr")]
        try:
            ts = self.canon(t.get("desugaredQualType", t["qualType"]))
        except ExtractionError:
            # sugar that names a local constexpr (WnafScalar<64, wnaf_window_size>&): take the initialiser's type
            if not init:
                raise
            self.rules["type-from-init"] += 1
            ts = self.tstr(init[0]) + (" &" if norm_type(t["qualType"]).rstrip().endswith("&") else "")
        name = n["name"]
        if not self.is_ref(ts) and "*" not in ts:
            tb0, dims0 = self.strip_array(ts)
            b0 = split_type(tb0)[0]
            cx.setdefault("local_decls", []).append(name if (not dims0 and (b0 in BUILTIN)) else "__CPROVER_object_whole(&%s)" % name if not dims0 else "__CPROVER_object_whole(%s)" % name)
        if self.is_ref(ts):
            self.rules["local-ref-to-pointer"] += 1
            decl = self.cdecl(ts, name)
            return pad + "%s = &(%s);\n" % (decl, self.expr(init[0], cx))
        decl = self.cdecl(ts[6:] if (ts.startswith("const ") and init and init[0]["kind"] == "CXXConstructExpr") else ts, name)
        if not init:
            return pad + decl + ";\n"
        e = init[0]
        if e["kind"] == "CXXConstructExpr" and not e.get("inner"):
            self.rules["trivial-default-ctor"] += 1
            return pad + decl + ";\n"
        return pad + "%s = %s;\n" % (decl, self.expr(e, cx))

    # ---------------- functions ----------------
    def signature(self, f):
        self.scopes = self.scopes_of(f)
        t = f.node["type"]["qualType"]
        ret = norm_type(f.node["type"].get("desugaredQualType", t))
        # return type: text before the first '(' at depth 0
        depth = 0
        for i, ch in enumerate(ret):
            if ch == "<":
                depth += 1
            elif ch == ">":
                depth -= 1
            elif ch == "(" and depth == 0:
                ret = ret[:i].strip()
                break
        # typedef'd return types such as word_t: ask the declared returnType if clang provides one
        params = []
        if f.is_method and not f.is_static:
            rc = self.resolve_alias(f.record).cname
            self.cbase(f.record.qname)
            params.append(("const " if f.is_const else "") + rc + " *self")
        for i, p in enumerate(f.params):
            params.append(self.cdecl(f.param_type(i), p.get("name", "jpv_arg%d" % i)))
        return "%s %s(%s)" % (self.ctype(ret), f.cname, ", ".join(params) or "void")

    def _resolve_typedef(self, ret):
        r = ret.strip()
        r = re.sub(r"^typename\s+", "", r)
        if r.endswith("::word_t") or r == "word_t":
            return "unsigned long"
        if r.endswith("::dword_t"):
            return "unsigned __int128"
        if r in ("uint64_t",):
            return "unsigned long"
        return r

    def function_c(self, f, contract="", loop_contracts=None, static=False):
        self.scopes = self.scopes_of(f)
        self.tu.const_env = {}
        self._scan_consts(f.body)
        cx = {"fn": f.qname, "locals": set(), "loop": 0, "loop_contracts": loop_contracts or {}, "loop_contracts_used": set()}
        for p in f.params:
            cx["locals"].add(p["id"])
        sig = self.signature(f)
        self.scopes = self.scopes_of(f)
        body = self.stmt(f.body, cx, 0)
        missing = set((loop_contracts or {}).keys()) - cx["loop_contracts_used"]
        if missing:
            raise ExtractionError("%s: loop contract(s) for loop ordinal(s) %s did not attach (function has %d loops)" % (f.qname, sorted(missing), cx["loop"]))
        f.nloops = cx["loop"]
        return "/* %s  (%s:%s) */\n%s%s\n%s%s" % (f.qname, f.node.get("loc", {}).get("file", ""), f.line(), "static " if static else "", sig, (contract.strip() + "\n") if contract.strip() else "", body)

    def _scan_consts(self, n):
        if n.get("kind") == "VarDecl" and n.get("constexpr"):
            from jast import find_value
            v = find_value(n)
            if v is not None and re.fullmatch(r"-?\d+", str(v)):
                self.tu.const_env[n["name"]] = v
        for c in n.get("inner", []):
            self._scan_consts(c)

    def prototype_c(self, f, contract=""):
        return "%s\n%s;" % (self.signature(f), contract.strip()) if contract.strip() else self.signature(f) + ";"


def inject_ghost(text, rules, qname):
    """ghost statements (spec-side only: assignments to jpv_ ghost variables, __CPROVER_assert / assume of spec terms)
    spliced next to an anchor line of the emitted body.  rules: [(regex, 'before'|'after', code)].
    Every anchor must match exactly one line (must-fire rule), otherwise the extraction is unusable."""
    lines = text.splitlines()
    for (rx, where, code) in rules:
        hits = [i for i, l in enumerate(lines) if re.search(rx, l)]
        if len(hits) != 1:
            raise ExtractionError("%s: ghost anchor %r matches %d lines (must be exactly 1)" % (qname, rx, len(hits)))
        i = hits[0]
        pad = re.match(r"\s*", lines[i]).group(0)
        block = [pad + "/* ghost */ " + c for c in code.strip().splitlines()]
        lines[i + 1 if where == "after" else i:i + 1 if where == "after" else i] = block
    return "\n".join(lines) + "\n"


def build_unit(tu, workdir, bodies, contracts=None, loop_contracts=None, extra_bodies=(), spec_prelude="", defines="", ghost=None, stubs=None):
    """Emit one C translation unit.

    bodies:      qualified names of functions emitted WITH their real bodies
    contracts:   {qualified name: contract text}  (spliced between signature and body, or on the prototype)
    every other function that is called gets a prototype (+contract if given)
    """
    contracts = contracts or {}
    loop_contracts = loop_contracts or {}
    em = Emitter(tu, workdir)
    body_funcs = [tu.func(q) for q in bodies]
    texts = []
    for f in body_funcs:
        t = em.function_c(f, contracts.get(f.qname, ""), loop_contracts.get(f.qname))
        if ghost and f.qname in ghost:
            t = inject_ghost(t, ghost[f.qname], f.qname)
        texts.append(t)
    protos = []
    done = {f.cname for f in body_funcs}
    stub_texts = []
    for q, body in (stubs or {}).items():
        # ghost recorder standing in for a callee (listed as a trusted stub in the evidence): same signature, hand-written body
        sf = tu.func(q)
        if sf.cname in em.need_funcs:
            pnames = [p_.get("name", "jpv_arg%d" % i_) for i_, p_ in enumerate(sf.params)]
            for i_ in range(len(pnames) - 1, -1, -1):
                body = body.replace("$%d" % i_, pnames[i_])        # positional parameter names
            stub_texts.append("/* STUB for %s */\n%s\n%s" % (q, em.signature(sf), body))
            done.add(sf.cname)
    em.called = set(em.need_funcs)          # callees the emitted bodies really call
    for q in contracts:
        f = tu.func(q)
        em.need_funcs.setdefault(f.cname, f)
    # signatures may require more records; iterate to fixpoint
    for cname in list(em.need_funcs):
        f = em.need_funcs[cname]
        if cname in done:
            continue
        protos.append(em.prototype_c(f, contracts.get(f.qname, "")))
    all_protos = [em.signature(f) + ";" for f in body_funcs]
    recs = "\n".join("typedef struct %s %s;" % (c, c) for c in em.need_records) + "\n" + "\n".join(em.record_c(c) for c in em.need_records)
    glob = em.globals_c()
    src = PRELUDE.replace("#ifndef JPV_MUL", defines + "\n#ifndef JPV_MUL") + "\n" + recs + "\n\n" + spec_prelude + "\n" + glob + "\n\n" + "\n".join(all_protos) + "\n" + "\n".join(protos) + "\n\n" + "\n".join(stub_texts) + "\n\n" + "\n".join(texts)
    return src, em


if __name__ == "__main__":
    import sys, tempfile
    wd = tempfile.mkdtemp(prefix="jpv.")
    tu = TU(dump_ast(wd))
    if len(sys.argv) > 1:
        src, em = build_unit(tu, wd, sys.argv[1:])
        print(src)
        print("/* rules:", dict(em.rules), "*/")
    else:
        ok = bad = 0
        errs = collections.Counter()
        for q, f in sorted(tu.by_qname.items()):
            if f.body is None or f.implicit:
                continue
            try:
                build_unit(tu, wd, [q])
                ok += 1
            except ExtractionError as e:
                bad += 1
                errs[str(e)[:100]] += 1
                print("FAIL", q, str(e)[:200])
        print(ok, "ok", bad, "bad")
        for e, c in errs.most_common():
            print(c, e)
