#!/usr/bin/env python3
"""validate MANIFEST.json and evidence/*.json against the schemas (run with python3-vt, which has jsonschema)"""
import json, glob, sys
import jsonschema
jsonschema.validate(json.load(open('/verif/MANIFEST.json')), json.load(open('/root/.vp/MANIFEST.schema.json')))
print("manifest ok")
sch = json.load(open('/root/.vp/EVIDENCE.schema.json'))
for f in sorted(glob.glob('/verif/evidence/*.json')):
    jsonschema.validate(json.load(open(f)), sch)
    d = json.load(open(f))
    print("ok", f, d["level"], d["coverage"].get("obligations"), d["coverage"].get("discharged"), d["coverage"].get("bounded_obligations"))
