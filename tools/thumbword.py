"""thumbword: the ARMv6-M (Thumb-1) assembly SOURCES of /repo (src/core/arch/armv6_m/*.s) executed in the WORD domain with 32-bit words.

As for AArch64 there is no assembler for this target in the sandbox: the instruction stream is the source text after this module's own
`.macro` expansion (tools/armword.expand, `@` comments, arithmetic in immediates).  The files use the pre-UAL ("divided") Thumb syntax, in which
the 16-bit data-processing instructions set the flags although they are written without an S suffix.  Semantics used (Arm ARMv6-M ARM):

  add adc sub sbc neg(rsbs #0)     low registers: N Z C V updated; C = carry out resp. NOT borrow
  add Rd, sp, #imm / add sp, sp, #imm / sub sp, sp, #imm     no flags
  mul                              low 32 bits of the product; N Z updated, C unchanged (ARMv6-M; UNPREDICTABLE before ARMv6 -- noted)
  eor                              N Z updated, C unchanged
  lsl / lsr Rd, Rm, #n             C = last bit shifted out (n != 0)
  uxth                             low 16 bits, no flags
  mov with a high register         no flags
  mov Rd, Rm with two low registers   the divided syntax has no flag-free encoding before ARMv6 and GNU as historically emitted `adds Rd, Rm, #0`
                                   (C := 0); an ARMv6-M assembler may emit the flag-free MOV.  Both are covered: C becomes UNKNOWN after such
                                   a mov and any later read of it aborts the extraction (exit 2) -- the covered routines never read it.
  ldr str ldm stm push pop         no flags; addresses are a pointer parameter or the stack; sp-relative frame tracked exactly
  bl label                         contract of the callee supplied by the unit (r0-r3, r12, lr and the flags are clobbered)
  bx lr / pop {.., pc}             return (the popped pc must be the entry lr)"""
import re
from poly import Poly
from symx import SymxError, Finding, POISON
from jast import ExtractionError
from worddom import WordDomain, WVal, Cond, wv, simp
from asmword import PtrVal, FakeInterp
import armword

W = 32
TOP = 1 << 32
LOW = ["r%d" % i for i in range(8)]
CALLEE_SAVED = ["r%d" % i for i in range(4, 12)]


def expand(text):
    text = "\n".join(l.split("@")[0] for l in text.splitlines())
    return armword.expand(text)


def imm(tok):
    t = tok.strip()
    if not t.startswith("#"):
        raise ExtractionError("thumbword: immediate expected, got " + tok)
    e = t[1:]
    if not re.fullmatch(r"[0-9a-fx+\-*() ]+", e):
        raise ExtractionError("thumbword: immediate expression " + tok)
    return int(eval(e, {"__builtins__": {}}))


def reglist(tok):
    t = tok.strip().strip("{}")
    out = []
    for part in t.split(","):
        part = part.strip()
        m = re.fullmatch(r"r(\d+)\s*-\s*r(\d+)", part)
        if m:
            out += ["r%d" % i for i in range(int(m.group(1)), int(m.group(2)) + 1)]
        elif part:
            out.append(part)
    return out


class Thumb:
    def __init__(self, dom, path, ins, name, mem, args, stack_args=(), callees=None):
        self.dom, self.I, self.ins, self.name, self.mem = dom, FakeInterp(path), ins, name, mem
        self.regs = {"r%d" % i: WVal(Poly.var("init_r%d" % i), TOP - 1) for i in range(13)}
        self.regs["lr"] = WVal(Poly.var("init_lr"), TOP - 1)
        self.init = dict(self.regs)
        for i, a in enumerate(args):
            self.regs["r%d" % i] = a
        self.C = "unknown"
        self.sp = 0
        self.min_sp = 0
        self.stack = {4 * i: v for i, v in enumerate(stack_args)}     # byte offset from the entry sp -> word
        self.written = set()
        self.trace = []
        self.callees = callees or {}
        self.labels = {x[1]: i for i, x in enumerate(ins) if x[0] == "label"}
        self.inv_const = None
        self.returned_to = None

    def fail(self, t):
        raise ExtractionError("thumbword: unsupported '%s' in %s" % (t, self.name))

    # ---- values ----
    def get(self, r):
        r = r.strip()
        if r == "sp":
            return PtrVal("stack", self.sp)
        if r not in self.regs:
            self.fail("register " + r)
        return self.regs[r]

    def put(self, r, v):
        r = r.strip()
        if r not in self.regs:
            self.fail("destination " + r)
        self.regs[r] = v

    def word(self, v, what):
        if isinstance(v, PtrVal):
            raise ExtractionError("thumbword: arithmetic on a pointer (%s) in %s" % (what, self.name))
        return self.dom.refine(wv(v))

    def carry(self, what):
        c = self.C
        if isinstance(c, str):
            raise ExtractionError("thumbword: the carry flag is read where it is %s (%s) in %s" % (c, what, self.name))
        if isinstance(c, tuple) and c[0] == "bit":
            _, v, k = c
            hi = self.dom.split(v, k)[1]                 # v >> k
            bit = self.dom.split(hi, 1)[0]               # & 1
            self.C = bit
            return bit
        return c

    # ---- memory ----
    def load(self, p, off, what):
        a = p.off + off
        if a % 4:
            self.fail("unaligned access " + what)
        if p.name == "stack":
            if a < self.sp:
                raise Finding("stack", "asm: load below the stack pointer (entry sp%+d)" % a)
            if a not in self.stack:
                if a >= 0:
                    v = self.dom.input_word("callerframe_%d" % a, TOP - 1)    # caller's frame / stack arguments: arbitrary
                    self.stack[a] = v
                else:
                    raise Finding("uninitialised", "asm: load from a stack slot that was never stored (entry sp%+d)" % a)
            return self.stack[a]
        arr = self.mem[p.name]
        w = a // 4
        if not (0 <= w < len(arr)):
            raise Finding("out-of-bounds", "asm read of word %d of %s (%d words)" % (w, p.name, len(arr)))
        if arr[w] is POISON:
            raise Finding("uninitialised", "asm read of word %d of %s before it is written" % (w, p.name))
        self.trace.append(("ld", p.name, w))
        return arr[w]

    def store(self, p, off, v, what):
        if isinstance(v, PtrVal):
            self.fail("store of a pointer " + what)
        a = p.off + off
        if a % 4:
            self.fail("unaligned access " + what)
        if p.name == "stack":
            if a < self.sp:
                raise Finding("stack", "asm: store below the stack pointer (entry sp%+d)" % a)
            if a >= 0:
                raise Finding("stack", "asm: store into the caller's frame (entry sp%+d)" % a)
            self.stack[a] = v
            return
        arr = self.mem[p.name]
        w = a // 4
        if not (0 <= w < len(arr)):
            raise Finding("out-of-bounds", "asm write of word %d of %s (%d words)" % (w, p.name, len(arr)))
        arr[w] = v
        self.written.add((p.name, w))
        self.trace.append(("st", p.name, w))

    def ptr(self, r, what):
        v = self.get(r)
        if not isinstance(v, PtrVal):
            raise ExtractionError("thumbword: memory access through %s, which does not hold a pointer, in %s (%s)" % (r, self.name, what))
        return v

    def addr(self, ops, what):
        s = ", ".join(ops)
        m = re.match(r"^\[(\w+)\s*(?:,\s*(#[^\]]+))?\]$", s)
        if not m:
            self.fail("addressing mode " + s)
        return self.ptr(m.group(1), what), (imm(m.group(2)) if m.group(2) else 0)

    def setsp(self, new):
        if new > 0:
            raise Finding("stack", "asm: stack pointer above its entry value")
        if new % 4:
            self.fail("unaligned sp")
        for a in [a for a in self.stack if a < new]:
            del self.stack[a]                     # popped slots are dead
        self.sp = new
        self.min_sp = min(self.min_sp, new)

    # ---- execution ----
    def run(self, start=0, stop_before=None):
        dom = self.dom
        i = start
        while True:
            if i >= len(self.ins):
                raise ExtractionError("thumbword: fell off the end of " + self.name)
            x = self.ins[i]
            if x[0] != "label" and stop_before is not None and stop_before(x):
                return i
            i += 1
            if x[0] == "label":
                continue
            _, mn, ops, no = x
            mn = mn.lower()
            text = "%s %s (line %d)" % (mn, ", ".join(ops), no)
            dom.note = text
            if mn in ("ldr", "str"):
                p, off = self.addr(ops[1:], text)
                if mn == "ldr":
                    self.put(ops[0], self.load(p, off, text))
                else:
                    self.store(p, off, self.get(ops[0]), text)
            elif mn in ("ldm", "stm", "ldmia", "stmia"):
                base = ops[0].strip()
                wb = base.endswith("!")
                base = base.rstrip("!")
                regs = reglist(", ".join(ops[1:]))
                p = self.ptr(base, text)
                if not wb:
                    self.fail(text + " (without write-back)")
                if mn.startswith("ldm") and base in regs:
                    self.fail(text + " (base register in the list)")
                for k, r in enumerate(regs):
                    if mn.startswith("ldm"):
                        self.put(r, self.load(p, 4 * k, text))
                    else:
                        self.store(p, 4 * k, self.get(r), text)
                self.regs[base] = PtrVal(p.name, p.off + 4 * len(regs))
            elif mn == "push":
                regs = reglist(", ".join(ops))
                order = sorted(regs, key=lambda r: 14 if r == "lr" else int(r[1:]))
                self.setsp(self.sp - 4 * len(order))
                for k, r in enumerate(order):
                    v = self.get(r)
                    if isinstance(v, PtrVal):
                        self.fail(text + " (push of a pointer register)")
                    self.stack[self.sp + 4 * k] = v
            elif mn == "pop":
                regs = reglist(", ".join(ops))
                order = sorted(regs, key=lambda r: 15 if r == "pc" else int(r[1:]))
                vals = []
                for k, r in enumerate(order):
                    a = self.sp + 4 * k
                    if a >= 0 or a not in self.stack:
                        raise Finding("stack", "asm: pop of a slot that was not pushed (entry sp%+d)" % a)
                    vals.append(self.stack[a])
                self.setsp(self.sp + 4 * len(order))
                for r, v in zip(order, vals):
                    if r == "pc":
                        self.returned_to = v
                        return None
                    self.put(r, v)
            elif mn == "mov":
                d, s_ = ops[0].strip(), ops[1].strip()
                if s_.startswith("#"):
                    self.put(d, imm(s_) & (TOP - 1))
                else:
                    self.put(d, self.get(s_))
                    if d in LOW and s_ in LOW:
                        self.C = "UNKNOWN after a low-register mov (adds #0 or flag-free mov, depending on the assembler)"
            elif mn in ("add", "adc", "sub", "sbc"):
                if len(ops) == 2:
                    ops = [ops[0], ops[0], ops[1]]
                d, n_, m_ = [o.strip() for o in ops]
                if n_ == "sp" or d == "sp":
                    k = imm(m_)
                    if mn not in ("add", "sub"):
                        self.fail(text)
                    k = k if mn == "add" else -k
                    if d == "sp":
                        self.setsp(self.sp + k)
                    else:
                        self.put(d, PtrVal("stack", self.sp + k))
                    continue
                if mn in ("sub", "sbc") and n_ == m_:
                    a = b = wv(0)                                   # x - x (the register may hold a pointer: its value cancels)
                else:
                    a = self.word(self.get(n_), text)
                    b = self.word(imm(m_) if m_.startswith("#") else self.get(m_), text)
                if mn in ("add", "adc"):
                    c = self.word(self.carry(text), text) if mn == "adc" else wv(0)
                    lo, cy = dom.split(WVal(a.p + b.p + c.p, a.hi + b.hi + c.hi), W)
                    self.put(d, lo)
                    self.C = cy
                else:
                    if mn == "sbc":
                        c = self.word(self.carry(text), text)
                        sub = WVal(b.p + Poly.const(1) - c.p, b.hi + 1)
                    else:
                        sub = b
                    dd, bw = dom.borrow(a, sub, W)
                    self.put(d, dd)
                    self.C = simp(WVal(Poly.const(1) - wv(bw).p, 1))
            elif mn == "neg":
                a = self.word(self.get(ops[1]), text)
                dd, bw = dom.borrow(wv(0), a, W)
                self.put(ops[0], dd)
                self.C = simp(WVal(Poly.const(1) - wv(bw).p, 1))
            elif mn == "mul":
                if len(ops) == 2:
                    ops = [ops[0], ops[0], ops[1]]
                a, b = self.word(self.get(ops[1]), text), self.word(self.get(ops[2]), text)
                lo, _hi = dom.split(WVal(a.p * b.p, a.hi * b.hi), W)
                if self.inv_const is not None and ((a.p.is_const() and a.p.const_value() == self.inv_const) or (b.p.is_const() and b.p.const_value() == self.inv_const)):
                    dom.trunc_products.append(lo)
                self.put(ops[0], lo)
            elif mn == "eor":
                if len(ops) == 2:
                    ops = [ops[0], ops[0], ops[1]]
                if ops[1].strip() == ops[2].strip():
                    self.put(ops[0], 0)
                else:
                    self.fail(text + " (eor of different registers)")
            elif mn in ("lsl", "lsr"):
                if len(ops) == 2:
                    ops = [ops[0], ops[0], ops[1]]
                a = self.word(self.get(ops[1]), text)
                n = imm(ops[2])
                if not (0 < n < 32):
                    self.fail(text)
                if mn == "lsr":
                    lo, hi = dom.split(a, n)
                    self.put(ops[0], hi)
                    self.C = ("bit", a, n - 1)
                else:
                    lo, hi = dom.split(a, W - n)
                    l = wv(lo)
                    self.put(ops[0], simp(WVal(l.p * (1 << n), l.hi << n)))
                    self.C = ("bit", a, W - n)
            elif mn == "uxth":
                a = self.word(self.get(ops[1]), text)
                self.put(ops[0], dom.split(a, 16)[0])
            elif mn == "bl":
                tgt = ops[0].strip()
                if tgt not in self.callees:
                    self.fail(text + " (no contract for the callee)")
                self.callees[tgt](self)
                for r in ("r0", "r1", "r2", "r3", "r12", "lr"):
                    self.regs[r] = dom.input_word("clobbered_%s_%d" % (r, i), TOP - 1)
                self.C = "clobbered by a call"
            elif mn == "bx":
                if ops[0].strip() != "lr":
                    self.fail(text)
                self.returned_to = self.regs["lr"]
                return None
            else:
                self.fail(text)
