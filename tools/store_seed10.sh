#!/bin/bash
# store_seed6.sh <Xn> <property> <k> : copy a confirmed round-6 seed from /tmp/wt10/<Xn> into /verif/seeded/<property>_r10_<k>/
N=$1; ID=$2; K=$3; SRC=/tmp/wt10/$N; D=/verif/seeded/${ID}_r10_$K
mkdir -p $D
cp $SRC/patch.diff $D/patch.diff
for f in demo.cpp demo.c; do [ -f $SRC/$f ] && cp $SRC/$f $D/$f; done
sed "s#/tmp/wt10/$N#\$W#g" $SRC/demo_cmd.txt > $D/demo_cmd.txt
cp /tmp/seedconf.$N.log $D/confirm.log 2>/dev/null
python3 - "$ID" "$SRC/meta.json" "$D/meta.json" <<'P'
import json,sys
pid, src, dst = sys.argv[1:]
try:
    m = json.load(open(src))
except Exception as e:
    m = {"property": pid, "summary": "(agent meta.json unreadable: %s)" % e}
m["property"] = pid
m["origin"] = "round 10 (32-bit-word branches, untrusted bytes, G2 / Fq2 side, a new kind): independent sub-agent given only the property texts and a scratch worktree"
m["confirmed_by"] = "tools/confirm_seed.sh in a scratch worktree of /repo HEAD: demo passes unpatched, suite (./test and ./test wkdibe) all PASS with the patch, demo fails with the patch (see confirm.log)"
json.dump(m, open(dst, "w"), indent=1)
P
echo stored $D
