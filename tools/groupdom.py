"""GROUP back end: the abstraction rung above the curve / target-group arithmetic (DESIGN 3.3).

Leaves are whole group elements.  G1, G2 and GT are Z_r-modules (r = the BLS12-381 group order);
an element is a formal linear combination  sum c_g * g  of formal generators g whose coefficients
c_g are exact integer polynomials in the scalar symbols of the scenario (identities, messages,
randomness, discrete logs).  The callee contracts applied at this boundary are the statements of
the lower rungs:

    Projective::add / multiply2 / negate / copy / conversions   = module operations       (C05)
    G::multiply*(base, k)                                      = (k mod r) * base        (C06)
    Fq12::multiply / inverse / square_cyclotomic on GT         = +, -, *2                (C04, C07)
    Fq12::exponentiate_gt(a, k)                                = k * a                   (C07)
    pairing(P, Q), pairing_product                             = bilinear form           (C01, C08)
    random_generator / random scalar                           = fresh formal symbol

Scalars (BigInt<256>) are integers: symbolic ones are integer polynomials plus *path constraints*
recorded whenever the real code branches on a borrow, a carry or an equality of scalars.  An
obligation "two group elements are equal" is a polynomial identity modulo r; when it is not an
identity outright the residual (linear in the 256-bit inputs) goes to z3 together with the path
constraints:  unsat = discharged,  sat = refuted with concrete inputs that are replayed natively.
"""
import re, subprocess, os, tempfile
from poly import Poly
from symx import Leaf, Obj, Arr, Cell, Ptr, POISON, SymxError, Finding
from ringdom import RingDomain, BIGINT_RE
from bvspec import R as R_ORDER, Q as Q_MOD

G1_T = "Projective<Fq>"
G2_T = "Projective<Fq2>"
G1A_T = "Affine<Fq, Fr, g1_b_coeff_var>"
G2A_T = "Affine<Fq2, Fr, g2_b_coeff_var>"
GT_T = "Fq12"
GROUP_TYPES = {G1_T: "G1", G2_T: "G2", G1A_T: "G1", G2A_T: "G2", GT_T: "GT"}
TWO256 = 1 << 256


def pmod(p, n=R_ORDER):
    """coefficients reduced modulo n (symmetric is not needed: only zero-ness matters); n = None: no reduction"""
    if n is None:
        return P(p)
    if isinstance(p, int):
        return Poly.const(p % n)
    return Poly({m: c % n for m, c in p.t.items() if c % n})


def P(v):
    return v if isinstance(v, Poly) else Poly.const(int(v))


class Lin:
    """element of a free Z_N-module over formal generators (N = r by default; subclasses pick another modulus)"""
    __slots__ = ("t",)
    MOD = R_ORDER

    def __init__(self, t=None):
        self.t = {}
        for g, c in (t or {}).items():
            c = pmod(P(c), self.MOD)
            if not c.is_zero():
                self.t[g] = c

    @classmethod
    def gen(cls, name):
        return cls({name: Poly.const(1)})

    def __add__(self, o):
        t = dict(self.t)
        for g, c in o.t.items():
            t[g] = t.get(g, Poly()) + c
        return type(self)(t)

    def __neg__(self):
        return type(self)({g: -c for g, c in self.t.items()})

    def __sub__(self, o):
        return self + (-o)

    def scale(self, k):
        k = P(k)
        return type(self)({g: c * k for g, c in self.t.items()})

    def is_zero(self):
        return not self.t

    def __eq__(self, o):
        return isinstance(o, Lin) and (self - o).is_zero()

    def __hash__(self):
        return hash(repr(self))

    def coeff(self, g):
        return self.t.get(g, Poly())

    def __repr__(self):
        if not self.t:
            return "O"
        return " + ".join("(%r)*%s" % (c, g) for g, c in sorted(self.t.items()))


class LinZ(Lin):
    """exponent vectors over Z (no reduction): multiplicative group of a field whose order is not fixed by the view"""
    __slots__ = ()
    MOD = None


class LinE(Lin):
    """exponent vectors in the cyclic group F_q12^* (order q^12 - 1): products of formal line values"""
    __slots__ = ()
    MOD = Q_MOD ** 12 - 1


def pair(a, b):
    """bilinear form G1 x G2 -> GT on formal generators"""
    t = {}
    for g, c in a.t.items():
        for h, d in b.t.items():
            k = "e(%s,%s)" % (g, h)
            t[k] = t.get(k, Poly()) + c * d
    return Lin(t)


# ---------------------------------------------------------------------------
# linear integer side conditions -> z3
def _smt_term(p):
    """SMT-LIB term of an integer polynomial"""
    terms = []
    for m, c in p.t.items():
        fs = []
        for (v, e) in m:
            fs += [_sym(v)] * e
        if not fs:
            terms.append(_num(c))
        elif c == 1 and len(fs) == 1:
            terms.append(fs[0])
        else:
            terms.append("(* %s %s)" % (_num(c), " ".join(fs)))
    if not terms:
        return "0"
    return terms[0] if len(terms) == 1 else "(+ %s)" % " ".join(terms)


def _num(c):
    return str(c) if c >= 0 else "(- %d)" % (-c)


def _sym(v):
    return "|%s|" % v


def z3_query(vars_ranges, constraints, goal_terms, timeout=60):
    """constraints: [(Poly, rel)] with rel in >=0 <0 ==0 !=0 ; goal_terms: extra SMT assertions.
    returns ("sat", model) | ("unsat", None) | ("unknown", text)"""
    lines = ["(set-option :timeout %d)" % (timeout * 1000)]
    for v, (lo, hi) in sorted(vars_ranges.items()):
        lines.append("(declare-const %s Int)" % _sym(v))
        lines.append("(assert (and (<= %d %s) (< %s %d)))" % (lo, _sym(v), _sym(v), hi))
    rel = {">=0": "(>= %s 0)", "<0": "(< %s 0)", "==0": "(= %s 0)", "!=0": "(not (= %s 0))"}
    for (p, r) in constraints:
        lines.append("(assert %s)" % (rel[r] % _smt_term(P(p))))
    for g in goal_terms:
        lines.append("(assert %s)" % g)
    lines.append("(check-sat)")
    lines.append("(get-model)")
    txt = "\n".join(lines) + "\n"
    if txt in _Z3_CACHE:
        return _Z3_CACHE[txt]
    res = _z3_run(txt, timeout)
    if res[0] != "unknown":
        _Z3_CACHE[txt] = res
    return res


_Z3_CACHE = {}


def _z3_run(txt, timeout):
    try:
        r = subprocess.run(["z3", "-in", "-T:%d" % (timeout + 5)], input=txt, capture_output=True, text=True, timeout=timeout + 15)
    except subprocess.TimeoutExpired:
        return "unknown", "z3 timeout"
    out = r.stdout
    first = out.strip().splitlines()[0] if out.strip() else ""
    if first == "unsat":
        return "unsat", None
    if first == "sat":
        model = {}
        for m in re.finditer(r"\(define-fun \|?([^|\s]+)\|? \(\) Int\s+(\(- (\d+)\)|\d+)\)", out):
            model[m.group(1)] = -int(m.group(3)) if m.group(3) else int(m.group(2))
        return "sat", model
    return "unknown", out[:400] + r.stderr[:200]


class GroupDomain(RingDomain):
    """see module docstring"""

    def __init__(self, consts=None, extra_leaf=(), obj_contracts=None, named_globals=None, drop_leaf=()):
        RingDomain.__init__(self, (set(GROUP_TYPES) | {"BigInt<256>", "BigInt<128>", "BigInt<512>", "BigInt<64>", "BigInt<384>", "BigInt<192>", "BigInt<768>", "PowersOfX"} | set(extra_leaf)) - set(drop_leaf),
                            consts=consts, obj_contracts=obj_contracts)
        self.constraints = []        # [(Poly, rel)]
        self.ranges = {}             # scalar symbol -> (lo, hi) : lo <= v < hi
        self.nfresh = 0
        self.named_globals = named_globals or {}
        self.events = []             # abstract calls, in order (ghost trace for schedule / binding obligations)
        self.prune = False           # prune infeasible scalar branches with z3 (linear conditions)
        self.side = []               # side obligations (oid, status, msg): ranges / no truncation

    # ---- leaves ----
    def is_group(self, t):
        return t in GROUP_TYPES

    def zero(self, t):
        if self.is_group(t):
            return Lin()
        return 0

    def fresh_scalar(self, hint, lo=0, hi=R_ORDER):
        self.nfresh += 1
        n = "%s#%d" % (hint, self.nfresh)
        self.ranges[n] = (lo, hi)
        return Poly.var(n)

    def input_scalar(self, name, lo=0, hi=TWO256):
        self.ranges[name] = (lo, hi)
        return Poly.var(name)

    def fresh_gen(self, hint):
        self.nfresh += 1
        return Lin.gen("%s#%d" % (hint, self.nfresh))

    def gval(self, leaf, what="operand"):
        v = self.val(leaf, what)
        if not isinstance(v, Lin):
            raise SymxError("%s: group element expected, got %r" % (what, v))
        return v

    def sval(self, x, what="scalar"):
        if isinstance(x, Leaf):
            x = self.val(x, what)
        elif isinstance(x, Cell):
            x = x.v
        if x is POISON:
            raise Finding("uninitialised", "read of uninitialised " + what)
        if isinstance(x, (int, Poly)):
            return x
        raise SymxError("%s: scalar expected, got %r" % (what, x))

    def global_object(self, I, qn, ts):
        o = I.new_object(ts)
        if isinstance(o, Leaf) and self.is_group(o.type):
            short = qn.split("::")[-1]
            if qn in self.named_globals:
                o.val = self.named_globals[qn]
            elif short == "zero":
                o.val = Lin()
            elif short == "one" and o.type == GT_T:
                o.val = Lin()
            else:
                o.val = Lin.gen("K:" + qn)
            return o
        return RingDomain.global_object(self, I, qn, ts)

    def leaf_from_init(self, I, t, src):
        if isinstance(src, Leaf):
            return src.val
        if isinstance(src, (int, Poly, Lin)):
            return src
        raise SymxError("leaf initialiser from %r" % (src,))

    # ---- scalar decisions ----
    def decide_rel(self, I, p, label, rel_true, rel_false):
        """fork on an integer relation; records the path constraint"""
        p = P(p)
        if p.is_const():
            c = p.const_value()
            return {">=0": c >= 0, "<0": c < 0, "==0": c == 0, "!=0": c != 0}[rel_true]
        constrained = {v for (c, _) in self.constraints for v in P(c).vars()}
        if self.prune and p.degree() <= 1 and all(v in constrained for v in p.vars()):
            # a branch whose condition contradicts the path constraints and the ranges is not explored (z3, linear)
            feas = []
            for rel in (rel_true, rel_false):
                rng = {v: self.ranges.get(v, (0, TWO256)) for v in p.vars()}
                for (c, _) in self.constraints:
                    for v in P(c).vars():
                        rng.setdefault(v, self.ranges.get(v, (0, TWO256)))
                st, _m = z3_query(rng, self.constraints + [(p, rel)], [], timeout=20)
                feas.append(st != "unsat")
            if feas == [True, False] or feas == [False, True]:
                d = feas[0]
                self.constraints.append((p, rel_true if d else rel_false))
                return d
        d = I.path.decide(("scalar", label, repr(p)[:80]), (True, False))
        self.constraints.append((p, rel_true if d else rel_false))
        return d

    def contract_for(self, I, f, this, args):
        if f.qname in self.obj_contracts:
            h = self.obj_contracts[f.qname]
            if getattr(h, "raw", False):
                return h
            return RingDomain.contract_for(self, I, f, this, args)
        if isinstance(this, Leaf):
            return self.method
        if this is None and f.name in FREE_NAMES:
            if any(isinstance(a, Leaf) for a in args):
                return self.free
        return None

    # ---- contracts of the lower rungs ----
    def method(self, I, f, this, args):
        self.check_restrict(I, f, this, args)
        n, t = f.name, this.type
        self.events.append((f.qname,))
        if self.is_big(t):
            return self.big_method(I, f, this, args)
        if t == "PowersOfX":
            if n == "random":
                s = self.fresh_scalar("rnd")
                this.val = s
                args[0].val = s
                return None
            if n == "decompose":
                this.val = self.sval(args[0])
                return None
            raise SymxError("no contract for PowersOfX::" + n)
        if not self.is_group(t):
            return RingDomain.method(self, I, f, this, args)
        G = lambda i: self.gval(args[i], "%s arg %d" % (f.qname, i))
        if n in ("copy", "set", "from_projective", "from_affine"):
            this.val = G(0)
        elif n == "add":
            this.val = G(0) + G(1)
        elif n == "subtract" and t != GT_T:
            this.val = G(0) - G(1)
        elif n == "multiply2":
            this.val = G(0).scale(2)
        elif n == "negate":
            this.val = -G(0)
        elif n == "multiply" and t == GT_T:
            this.val = G(0) + G(1)
        elif n == "square" and t == GT_T or n == "square_cyclotomic":
            this.val = G(0).scale(2)
        elif n in ("inverse", "conjugate") and t == GT_T:
            this.val = -G(0)
        elif n == "endomorphism":
            # G1::endomorphism acts as multiplication by lambda on the order-r subgroup (beta^3 = 1, CM theory: trusted; constants: CONST)
            this.val = G(0).scale(self.consts.value("g1_endomorphism_lambda"))
        elif n == "frobenius_map" and t == GT_T:
            # on GT (order r) the q-power Frobenius is exponentiation by q = x (mod r)  (trusted; q = x mod r by construction of q)
            from bvspec import X as BLS_X
            this.val = G(0).scale(BLS_X ** I.rv(args[1]))
        elif n == "frobenius_map" and t in (G2_T, G2A_T):
            # the twisted Frobenius acts on G2 as multiplication by q = x (mod r)  (trusted; q = x mod r by construction of q)
            from bvspec import X as BLS_X
            this.val = G(0).scale(BLS_X ** I.rv(args[1]))
        elif n.startswith("multiply_doubleadd"):
            # double-and-add over the bits highest_bit .. 0 of the scalar (C06 unit): bits above highest_bit are ignored
            k = self.sval(args[1], "%s scalar" % f.qname)
            bits = int(BIGINT_RE.match(args[1].type).group(1)) if isinstance(args[1], Leaf) and BIGINT_RE.match(args[1].type) else 256
            hb = I.rv(args[2]) if len(args) > 2 else bits - 1
            if isinstance(hb, int) and hb + 1 < bits and not (isinstance(k, int) and k < (1 << (hb + 1))):
                lo = self.fresh_scalar("klow", 0, 1 << (hb + 1))
                hi = self.fresh_scalar("khigh", 0, 1 << (bits - hb - 1))
                self.constraints.append((P(k) - lo - hi * (1 << (hb + 1)), "==0"))
                k = lo
            this.val = G(0).scale(k)
        elif n.startswith("multiply") or n.startswith("exponentiate"):
            this.val = G(0).scale(self.sval(args[1], "%s scalar" % f.qname))
        elif n == "random_generator":
            this.val = self.fresh_gen("gen")
        elif n == "random_gt":
            s = self.fresh_scalar("rnd")
            args[0].val = s
            this.val = G(1).scale(s)
        elif n == "is_zero":
            return 1 if self.gval(this).is_zero() else 0
        elif n == "is_one" and t == GT_T:
            return 1 if self.gval(this).is_zero() else 0
        else:
            raise SymxError("no group contract for %s on %s" % (f.qname, t))
        return None

    def big_method(self, I, f, this, args):
        n = f.name
        if n == "copy":
            this.val = self.sval(args[0])
            return None
        if n == "clear":
            this.val = 0
            return None
        if n in ("random",):
            this.val = self.fresh_scalar("rnd")
            return None
        if n == "hash_reduce":
            # Fr::hash_reduce: (v mod 2^255) mod r -- left abstract here (a fresh value below r)
            self.val(this)
            this.val = self.fresh_scalar("hred")
            return None
        bits = int(BIGINT_RE.match(this.type).group(1))
        top = 1 << bits
        if n == "subtract":
            a, b = self.sval(args[0]), self.sval(args[1])
            d = P(a) - P(b)
            if self.decide_rel(I, d, "borrow", "<0", ">=0"):
                this.val = _norm(d + top)
                return 1
            this.val = _norm(d)
            return 0
        if n == "add":
            a, b = self.sval(args[0]), self.sval(args[1])
            s = P(a) + P(b)
            if self.decide_rel(I, s - top, "carry", ">=0", "<0"):
                this.val = _norm(s - top)
                return 1
            this.val = _norm(s)
            return 0
        if n == "multiply":
            a, b = self.sval(args[0]), self.sval(args[1])
            pr = P(a) * P(b)
            self.range_obligation(I, pr, top, "%s: product fits %d bits" % (f.qname, bits))
            this.val = _norm(pr)
            return None
        if n == "divide_std_dword":
            d = int(f.targs[0])
            a = self.sval(args[0])
            qv = self.fresh_scalar("quot", 0, top)
            rv_ = self.fresh_scalar("rem", 0, d)
            # contract of the division loop (BV unit): a == q*d + rem, 0 <= rem < d
            self.constraints.append((P(a) - qv * d - rv_, "==0"))
            this.val = qv
            return rv_
        if n.startswith("shift_left_in_word"):
            amt = int(f.targs[0])
            a = P(self.sval(args[0])) * (1 << amt)
            if amt != 1:
                raise SymxError("shift_left_in_word<%d>" % amt)
            if self.decide_rel(I, a - top, "carry", ">=0", "<0"):
                this.val = _norm(a - top)
                return 1
            this.val = _norm(a)
            return 0
        v = self.sval(this)
        if n == "is_zero":
            return 1 if self.decide_rel(I, P(v), "is_zero", "==0", "!=0") else 0
        if isinstance(v, Poly) and v.is_const():
            v = v.const_value()
        if n == "bit":
            if not isinstance(v, int):
                raise SymxError("bit of symbolic scalar")
            return (v >> I.rv(args[0])) & 1
        if n == "is_odd":
            if not isinstance(v, int):
                raise SymxError("parity of symbolic scalar")
            return v & 1
        raise SymxError("no contract for BigInt::" + n)

    def free(self, I, f, this, args):
        n = f.name
        self.events.append((f.qname,))
        if n == "pairing":
            args[0].val = pair(self.gval(args[1]), self.gval(args[2]))
            return None
        if n == "pairing_product":
            res, pairs, np_, ppairs, npp = args
            np_, npp = I.rv(np_), I.rv(npp)
            pairs, ppairs = I.rv(pairs), I.rv(ppairs)
            acc = Lin()
            for (arr, cnt) in ((pairs, np_), (ppairs, npp)):
                for k in range(cnt):
                    pr = Ptr(arr.arr, arr.idx + k).deref()
                    g1 = I.rv(pr.f["g1"]).deref()
                    g2 = I.rv(pr.f["g2"]).deref()
                    acc = acc + pair(self.gval(g1), self.gval(g2))
            res.val = acc
            return None
        if n == "equal":
            a, b = args
            if isinstance(a, Leaf) and self.is_group(a.type):
                return 1 if (self.gval(a) - self.gval(b)).is_zero() else 0
            d = P(self.sval(a)) - P(self.sval(b))
            return 1 if self.decide_rel(I, d, "equal", "==0", "!=0") else 0
        if n == "compare":
            a, b = args
            d = P(self.sval(a)) - P(self.sval(b))
            if self.decide_rel(I, d, "less", "<0", ">=0"):
                return -1
            return 0 if self.decide_rel(I, d, "equal", "==0", "!=0") else 1
        raise SymxError("no contract for free function %s" % f.qname)

    def reinterpret(self, I, v, ts):
        return v

    def range_obligation(self, I, p, top, what):
        """0 <= p < top must hold under the path constraints (else the real code truncates)"""
        p = P(p)
        if p.is_const():
            ok = 0 <= p.const_value() < top
            self.side.append((what, "ok" if ok else "fail", repr(p)))
            return
        if p.degree() > 1:
            self.side.append((what, "undecided", "non-linear range condition %r" % p))
            return
        rng = {v: self.ranges.get(v, (0, TWO256)) for v in p.vars()}
        for (c, _) in self.constraints:
            for v in P(c).vars():
                rng.setdefault(v, self.ranges.get(v, (0, TWO256)))
        st, model = z3_query(rng, self.constraints, ["(or (< %s 0) (>= %s %d))" % (_smt_term(p), _smt_term(p), top)])
        self.side.append((what, "ok" if st == "unsat" else ("fail" if st == "sat" else "undecided"), "" if st == "unsat" else repr(model)))

    def leaf_member(self, I, leaf, name):
        if self.is_big(leaf.type) and name in ("std_dwords", "std_words", "words"):
            return WordView(self, I, leaf, {"std_dwords": 64, "std_words": 32, "words": 64}[name])
        return RingDomain.leaf_member(self, I, leaf, name)


class WordView:
    """word view of a BigInt leaf: only whole-value accesses through word 0 are modelled (value must fit the word)"""

    def __init__(self, dom, I, leaf, wbits):
        self.dom, self.I, self.leaf, self.wbits = dom, I, leaf, wbits

    def subscript(self, I, i):
        return WordCell(self, i)


class WordCell(Cell):
    __slots__ = ("view", "idx")

    def __init__(self, view, idx=0):
        self.view, self.idx = view, idx

    @property
    def v(self):
        vw = self.view
        val = vw.dom.sval(vw.leaf)
        if isinstance(val, Poly) and val.is_const():
            val = val.const_value()
        if isinstance(val, int):
            return (val >> (vw.wbits * self.idx)) & ((1 << vw.wbits) - 1)
        if self.idx != 0:
            raise SymxError("word %d of a symbolic BigInt" % self.idx)
        vw.dom.range_obligation(vw.I, val, 1 << vw.wbits, "low word read of %s: value fits %d bits (no truncation)" % (vw.leaf.type, vw.wbits))
        return val

    @v.setter
    def v(self, x):
        vw = self.view
        if self.idx != 0:
            raise SymxError("write to word %d of a BigInt leaf" % self.idx)
        vw.dom.range_obligation(vw.I, x, 1 << vw.wbits, "low word write of %s: value fits %d bits" % (vw.leaf.type, vw.wbits))
        vw.leaf.val = x


FREE_NAMES = {"pairing", "pairing_product", "equal", "compare"}


def _norm(p):
    p = P(p)
    return p.const_value() if p.is_const() else p


# ---------------------------------------------------------------------------
def residual_check(dom, diff, inputs, timeout=60):
    """Is the group-element difference `diff` (a Lin) zero for every value of the symbols, under
    the path constraints?  Returns ("ok", None) | ("refuted", model) | ("undecided", why).

    Symbols not in `inputs` (randomness, discrete logs) are generic: the difference vanishes for all
    of them iff every coefficient polynomial (in the inputs) does, modulo r."""
    if diff.is_zero():
        return "ok", None
    goals = []
    inputs = set(inputs)
    for g, c in diff.t.items():
        by_mon = {}
        for m, k in c.t.items():
            gm = tuple((v, e) for (v, e) in m if v not in inputs)
            im = tuple((v, e) for (v, e) in m if v in inputs)
            by_mon.setdefault(gm, Poly())
            by_mon[gm] = by_mon[gm] + Poly({im: k})
        for gm, cp in by_mon.items():
            cp = pmod(cp)
            if cp.is_zero():
                continue
            if cp.is_const():
                goals.append("true")
            elif cp.degree() <= 1:
                goals.append("(not (= (mod %s %d) 0))" % (_smt_term(cp), R_ORDER))
            else:
                return "undecided", "non-linear residual in the scalar inputs: %r" % cp
    if not goals:
        return "ok", None
    if not dom.constraints and "true" in goals:
        return "refuted", {}
    rng = {v: dom.ranges.get(v, (0, TWO256)) for v in inputs}
    for (p, _) in dom.constraints:
        for v in P(p).vars():
            rng.setdefault(v, dom.ranges.get(v, (0, R_ORDER)))
    st, model = z3_query(rng, dom.constraints, ["(or %s)" % " ".join(goals)], timeout)
    if st == "unsat":
        return "ok", None
    if st == "sat":
        return "refuted", model
    return "undecided", "z3: %s" % model


def path_feasible(dom, timeout=30):
    if not dom.constraints:
        return True
    rng = {}
    for (p, _) in dom.constraints:
        for v in P(p).vars():
            rng.setdefault(v, dom.ranges.get(v, (0, TWO256)))
    st, _ = z3_query(rng, dom.constraints, [], timeout)
    return st != "unsat"
