#!/bin/bash
# store_seed6.sh <Xn> <property> <k> : copy a confirmed round-6 seed from /tmp/wt9/<Xn> into /verif/seeded/<property>_r9_<k>/
N=$1; ID=$2; K=$3; SRC=/tmp/wt9/$N; D=/verif/seeded/${ID}_r9_$K
mkdir -p $D
cp $SRC/patch.diff $D/patch.diff
for f in demo.cpp demo.c; do [ -f $SRC/$f ] && cp $SRC/$f $D/$f; done
sed "s#/tmp/wt9/$N#\$W#g" $SRC/demo_cmd.txt > $D/demo_cmd.txt
cp /tmp/seedconf.$N.log $D/confirm.log 2>/dev/null
python3 - "$ID" "$SRC/meta.json" "$D/meta.json" <<'P'
import json,sys
pid, src, dst = sys.argv[1:]
try:
    m = json.load(open(src))
except Exception as e:
    m = {"property": pid, "summary": "(agent meta.json unreadable: %s)" % e}
m["property"] = pid
m["origin"] = "round 9 (fixed targets: C16, C10, C12, C01/C07/C08): independent sub-agent given only the property texts and a scratch worktree"
m["confirmed_by"] = "tools/confirm_seed.sh in a scratch worktree of /repo HEAD: demo passes unpatched, suite (./test and ./test wkdibe) all PASS with the patch, demo fails with the patch (see confirm.log)"
json.dump(m, open(dst, "w"), indent=1)
P
echo stored $D
