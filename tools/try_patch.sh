#!/bin/sh
# try_patch.sh <patch.diff> <property> [extra check args]: run a check against a scratch copy of /repo (HEAD) with the patch applied
set -e
P=$(readlink -f "$1"); PROP=$2; shift 2
D=$(mktemp -d /tmp/jpv.mut.XXXXXX)
git -C /repo archive HEAD | tar -x -C "$D"
( cd "$D" && git init -q . && git apply "$P" ) || { echo "PATCH DOES NOT APPLY"; rm -rf "$D"; exit 3; }
set +e
JPV_REPO="$D" /verif/check "$PROP" --no-evidence "$@"
rc=$?
rm -rf "$D"
exit $rc
