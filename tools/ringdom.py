"""RING back end: a Domain whose leaves are elements of an abstract commutative ring (exact
polynomials over Z), and RingUnit = one real function checked against a spec for every alias
pattern its signature permits and every path through its abstract predicates."""
import re, time, itertools, traceback
from poly import Poly, find_nonzero_point
from symx import Interp, Leaf, Obj, Arr, Cell, Ptr, Path, POISON, SymxError, Finding, explore
from jast import ExtractionError, norm_type
import tower_ref as TR
from bvspec import Q, R as R_ORDER

BIGINT_RE = re.compile(r"^BigInt<(\d+)>$")
RING_LEVEL = {"Fq": 1, "Fq2": 2, "Fq6": 6, "Fq12": 12}


class Ctx:
    """what a spec sees: pre-state leaf values by path, the decisions of the path, the alias pattern"""

    def __init__(self, pre, trace, pattern, scalars=None, dom=None):
        self.pre, self.trace, self.pattern, self.scalars, self.dom = pre, trace, pattern, scalars or {}, dom

    def inp(self, path):
        if path not in self.pre:
            raise KeyError("spec reads unknown input leaf %r (have %s)" % (path, sorted(self.pre)[:12]))
        v = self.pre[path]
        if v is POISON:
            raise SymxError("spec reads uninitialised leaf " + path)
        return v

    def vec(self, prefix, names):
        return [self.inp(prefix + "." + n) for n in names]

    def decided(self, label_prefix):
        for (lab, d) in self.trace:
            if str(lab).startswith(label_prefix):
                return d
        return None

    def truth_of_zero(self, p):
        """the decision the executed path took about `p == 0` (p a Poly); SpecUndetermined if the code never asked"""
        if p.is_zero():
            return True
        if p.is_const():
            return False
        for (lab, d) in self.trace:
            if isinstance(lab, tuple) and lab[0] == "is_zero" and (lab[2] == p or lab[2] == -p):
                return d
        raise SpecUndetermined("the result must depend on whether %s == 0, which this path never tested" % repr(p)[:120])


def _hkey(x):
    """exact memo key (Poly.__repr__ abbreviates long polynomials, so repr() must never be used as a key)"""
    if isinstance(x, Poly):
        return ("poly", frozenset(x.t.items()))
    if isinstance(x, (int, str)):
        return x
    if isinstance(x, (tuple, list)):
        return tuple(_hkey(y) for y in x)
    t = getattr(x, "t", None)
    if isinstance(t, dict):
        try:
            return (type(x).__name__, frozenset((k, _hkey(v)) for k, v in t.items()))
        except TypeError:
            pass
    r = repr(x)
    if "terms)" in r:
        raise SymxError("memo key for an abbreviated repr")
    return r


class SpecUndetermined(Exception):
    pass


class RingDomain:
    def __init__(self, leaf_types, nonres=None, consts=None, obj_contracts=None, free_contracts=None, pow_inline=8):
        self.leaf_types = set(leaf_types)
        self.nonres = nonres or {}
        self.consts = consts
        self.obj_contracts = obj_contracts or {}
        self.free_contracts = free_contracts or {}
        self.relations = []          # (N poly, t symbol name): N * t = 1
        self.findings = []
        self.sym_values = {}         # symbol -> reference value (tower element / int)
        self.uf = {}                 # (fname, key) -> symbol
        self.pow_inline = pow_inline
        self.call_log = []

    # ---- leaves ----
    def is_big(self, t):
        return bool(BIGINT_RE.match(t))

    def zero(self, t):
        return 0 if self.is_big(t) else Poly.const(0)

    def sym(self, fname, *key):
        k = (fname,) + tuple(_hkey(x) for x in key)
        if k not in self.uf:
            self.uf[k] = "%s#%d" % (fname, len(self.uf))
        return Poly.var(self.uf[k])

    def val(self, leaf, what="operand"):
        if not isinstance(leaf, Leaf):
            raise SymxError("%s is not a leaf: %r" % (what, leaf))
        if leaf.val is POISON:
            raise Finding("uninitialised", "read of uninitialised %s (%s)" % (leaf.type, what))
        return leaf.val

    def decide_zero(self, I, p, label):
        if isinstance(p, int):
            return p == 0
        if p.is_zero():
            return True
        if p.is_const():
            return False
        key = _hkey(p)
        nkey = _hkey(-p)
        if nkey in I.path.memo:
            return I.path.memo[nkey]
        return I.path.decide(("is_zero", label, p), (False, True), key=key)

    def truth(self, I, v):
        raise SymxError("truth of %r" % (v,))

    def logical_not(self, I, v):
        raise SymxError("not of %r" % (v,))

    def binop(self, I, op, x, y, ts):
        if isinstance(x, tuple) and x[0] == "sizeof":
            x = self.sizeof(I, x[1])
        if isinstance(y, tuple) and y[0] == "sizeof":
            y = self.sizeof(I, y[1])
        if isinstance(x, int) and isinstance(y, int):
            return I.binop(op, x, y, ts)
        raise SymxError("binop %s on %r, %r" % (op, x, y))

    def sizeof(self, I, ts):
        import cxx2c
        if not hasattr(self, "_em"):
            self._em = cxx2c.Emitter(I.tu, "/tmp")
        return self._em.sizeof(ts)

    def cast(self, I, v, ts):
        return v

    def reinterpret(self, I, v, ts):
        return v

    def call_pointer(self, I, fp, args):
        raise SymxError("call through pointer")

    def leaf_member(self, I, leaf, name):
        raise SymxError("member .%s of abstract %s (layering mismatch)" % (name, leaf.type))

    def leaf_from_init(self, I, t, src):
        if isinstance(src, Leaf):
            return src.val
        raise SymxError("leaf initialiser from %r" % (src,))

    # ---- constants ----
    def global_object(self, I, qn, ts):
        o = I.new_object(ts)
        pv = self.consts.value(qn) if (self.consts is not None and qn in self.consts.raw) else None
        self._fill_global(I, o, pv, qn)
        return o

    def to_ref(self, t, pv):
        if self.is_big(t):
            return pv
        lvl = RING_LEVEL[t]
        if lvl == 1:
            v = pv["val"] if isinstance(pv, dict) else pv
            return TR.fq(v * pow(1 << 384, -1, Q))
        names = ["c0", "c1", "c2"][:3 if lvl == 6 else 2]
        sub = {2: "Fq", 6: "Fq2", 12: "Fq6"}[t if False else {2: 2, 6: 6, 12: 12}[lvl]]
        return TR.E(lvl, [self.to_ref(sub, pv[n]) for n in names])

    def _fill_global(self, I, o, pv, path):
        if isinstance(o, Leaf):
            if pv is None:
                o.val = Poly.var("K:" + path)
                return
            ref = self.to_ref(o.type, pv)
            if self.is_big(o.type):
                o.val = ref
                return
            lvl = ref.lvl
            if ref == TR.zero(lvl):
                o.val = Poly.const(0)
            elif ref == TR.one(lvl):
                o.val = Poly.const(1)
            elif ref == -TR.one(lvl):
                o.val = Poly.const(-1)
            elif lvl == 1 and ref.c[0] < (1 << 16):
                o.val = Poly.const(ref.c[0])
            else:
                s = "K:" + path
                self.sym_values[s] = ref
                o.val = Poly.var(s)
        elif isinstance(o, Obj):
            for k, v in o.f.items():
                self._fill_global(I, v, None if pv is None else pv.get(k), path + "." + k)
        elif isinstance(o, Arr):
            for i, v in enumerate(o.items):
                self._fill_global(I, v, None if pv is None else pv[i], path + "[%d]" % i)
        elif isinstance(o, Cell):
            o.v = pv if pv is not None else POISON

    # ---- contracts ----
    def contract_for(self, I, f, this, args):
        if f.qname in self.obj_contracts:
            spec = self.obj_contracts[f.qname]
            if getattr(spec, "raw", False):
                return spec
            return lambda I_, f_, t_, a_: apply_spec_as_contract(I_, self, f_, t_, a_, spec)
        if isinstance(this, Leaf):
            return self.method
        if this is None:
            leafs = [a for a in args if isinstance(a, Leaf)]
            objs = [a for a in args if isinstance(a, (Obj, Arr))]
            if leafs and not objs:
                return self.free
        return None

    def check_restrict(self, I, f, this, args):
        for i, a in enumerate(args):
            if "__restrict" in f.param_type(i) and this is not None and a is this:
                self.findings.append(("restrict", "%s called with its __restrict parameter %s aliasing the written object" % (f.qname, f.params[i].get("name"))))
        # two outputs? (none in this library)

    def method(self, I, f, this, args):
        self.check_restrict(I, f, this, args)
        n = f.name
        t = this.type
        if self.is_big(t):
            return self.big_method(I, f, this, args)
        A = lambda i: self.val(args[i], "%s arg %d" % (f.qname, i))
        if n == "copy":
            this.val = A(0)
        elif n == "add":
            this.val = A(0) + A(1)
        elif n == "subtract":
            this.val = A(0) - A(1)
        elif n == "multiply":
            this.val = A(0) * A(1)
        elif n == "square":
            x = A(0)
            this.val = x * x
        elif n == "multiply2":
            this.val = A(0) * 2
        elif n == "negate":
            this.val = -A(0)
        elif n == "set_zero":
            this.val = Poly.const(0)
        elif n == "multiply_by_nonresidue":
            this.val = A(0) * self.nonres[t]
        elif n == "multiply_by_c1":
            this.val = A(0) * A(1) * Poly.var("v")
        elif n == "multiply_by_c01":
            this.val = A(0) * (A(1) + A(2) * Poly.var("v"))
        elif n == "inverse":
            x = A(0)
            if x.is_zero():
                this.val = Poly.const(0)
            else:
                tsym = self.sym("inv", x)
                self.relations.append((x, tsym.vars()[0]))
                this.val = tsym
        elif n == "is_zero":
            return 1 if self.decide_zero(I, self.val(this), "is_zero") else 0
        elif n == "is_one":
            return 1 if self.decide_zero(I, self.val(this) - 1, "is_one") else 0
        elif n == "frobenius_map":
            k = I.rv(args[1])
            this.val = self.frob(A(0), k, t)
        elif n == "conjugate":
            this.val = self.sym("conj", A(0))
        elif n == "square_root":
            this.val = self.sym("sqrt", A(0))
        elif n == "legendre":
            return I.path.decide(("legendre", repr(self.val(this))[:60]), (1, 0, -1))
        elif n == "read_big_endian":
            # a function of the bytes only (C02 byte I/O): an opaque value tagged with the source buffer
            this.val = Poly.var("BE(bytes)")
        elif n == "hash_reduce":
            # value reduced below the modulus; the returned flag is the old top bit (C10 BV unit): both abstract here
            this.val = self.sym("hash_reduce", self.val(this))
            return I.path.decide(("hash_reduce", "top bit"), (0, 1))
        else:
            raise SymxError("no ring contract for %s on abstract %s" % (f.qname, t))
        return None

    def frob(self, x, k, t):
        """uninterpreted ring endomorphism F_k on the abstract level (additive & multiplicative not assumed)"""
        if x.is_const():
            return x
        return self.sym("frob%d_%s" % (k, t), x)

    def big_method(self, I, f, this, args):
        n = f.name
        v = self.val(this)
        if n == "bit":
            i = I.rv(args[0])
            if not isinstance(v, int):
                raise SymxError("bit of symbolic scalar")
            return (v >> i) & 1
        if n == "is_zero":
            return 1 if v == 0 else 0
        if n == "is_odd":
            return v & 1
        if n == "copy":
            this.val = self.val(args[0])
            return None
        raise SymxError("no contract for BigInt::" + n)

    def free(self, I, f, this, args):
        n = f.name
        if n in self.free_contracts:
            return self.free_contracts[n](I, self, f, args)
        if n == "fp_inverse":
            x = self.val(args[1])
            if x.is_zero():
                args[0].val = Poly.const(0)
            else:
                tsym = self.sym("inv", x)
                self.relations.append((x, tsym.vars()[0]))
                args[0].val = tsym
            return None
        if n == "equal":
            return 1 if self.decide_zero(I, self.val(args[0]) - self.val(args[1]), "equal") else 0
        if n == "compare":
            d = self.val(args[0]) - self.val(args[1])
            if d.is_zero():
                return 0
            return I.path.decide(("compare", repr(d)[:60]), (1, -1, 0))
        if n in ("exponentiate", "exponentiate_restrict"):
            a, p = self.val(args[1]), self.val(args[2])
            if isinstance(p, int) and p <= self.pow_inline:
                args[0].val = a ** p
            else:
                args[0].val = self.sym("pow", a, p)
            return None
        raise SymxError("no contract for free function %s on abstract leaves" % f.qname)


# ---------------------------------------------------------------------------
def leaves_of(o, prefix, out):
    if isinstance(o, Leaf):
        out[prefix] = o
    elif isinstance(o, Obj):
        for k, v in o.f.items():
            leaves_of(v, prefix + "." + k, out)
    elif isinstance(o, Arr):
        for i, v in enumerate(o.items):
            leaves_of(v, prefix + "[%d]" % i, out)
    elif isinstance(o, Cell):
        out[prefix] = o
    return out


def param_names(f):
    return (["this"] if (f.is_method and not f.is_static) else []) + [p.get("name", "arg%d" % i) for i, p in enumerate(f.params)]


def apply_spec_as_contract(I, dom, f, this, args, spec):
    """callee replaced by its contract: outputs := spec(pre-state of the actual arguments)"""
    dom.check_restrict(I, f, this, args)
    names = param_names(f)
    actual = ([this] if (f.is_method and not f.is_static) else []) + list(args)
    pre, cells = {}, {}
    for nm, o in zip(names, actual):
        for p, lf in leaves_of(o, nm, {}).items():
            cells[p] = lf
            pre[p] = lf.val if isinstance(lf, Leaf) else lf.v
    # alias pattern of the call
    pat = {}
    for i, a in enumerate(names):
        for b in names[:i]:
            if actual[i] is actual[names.index(b)]:
                pat[a] = b
                break
    out = spec(Ctx(pre, [], pat, dom=dom))
    ret = out.pop("return", None)
    for p, v in out.items():
        if p not in cells:
            raise SymxError("contract of %s writes unknown leaf %s" % (f.qname, p))
        if isinstance(cells[p], Leaf):
            cells[p].val = v
        else:
            cells[p].v = v
    dom.call_log.append(f.qname)
    return ret


def path_substitution(trace):
    """hypotheses `v - c == 0` / `v == 0` decided True on this path, as a substitution"""
    env = {}
    for (lab, d) in trace:
        if not (isinstance(lab, tuple) and lab[0] == "is_zero" and d is True):
            continue
        p = lab[2]
        vs = p.vars()
        if len(vs) != 1 or p.degree() != 1:
            continue
        v = vs[0]
        a = p.t.get(((v, 1),), 0)
        c0 = p.t.get((), 0)
        if a in (1, -1) and len(p.t) <= 2:
            env[v] = Poly.const(-c0 * a)
    return env


def reduce_relations(p, relations):
    """p modulo the ideal generated by N*t - 1 for the recorded inverses."""
    for (N, t) in relations:
        # N a single variable z: cancel z^i t^j -> z^(i-m) t^(j-m)
        if len(N.t) == 1 and list(N.t.values()) == [1] and len(list(N.t.keys())[0]) == 1 and list(N.t.keys())[0][0][1] == 1:
            z = list(N.t.keys())[0][0][0]
            q = Poly()
            for m, c in p.t.items():
                d = dict(m)
                k = min(d.get(z, 0), d.get(t, 0))
                if k:
                    for vv in (z, t):
                        d[vv] -= k
                        if d[vv] == 0:
                            del d[vv]
                q = q + Poly({tuple(sorted(d.items())): c})
            p = q
            continue
        tv = Poly.var(t)
        # split p = t*A + B (A, B free of t) ; if t appears with higher degree give up
        A, B = Poly(), Poly()
        for m, c in p.t.items():
            d = dict(m)
            e = d.pop(t, 0)
            rest = tuple(sorted(d.items()))
            if e == 0:
                B = B + Poly({rest: c})
            elif e == 1:
                A = A + Poly({rest: c})
            else:
                return p
        if A.is_zero():
            continue
        # t*A + B  ==  0 (mod N t - 1)  iff  A + B*N == 0 ; more generally t*A = t*(A mod N)... try exact division
        if (A + B * N).is_zero():
            return Poly()
        # try A = N*Cq  =>  t*A = Cq
        # (not needed so far)
    return p


class RingUnit:
    back_end = "RING"
    kind = "proof"
    bound = None
    replace = ()
    bodies = ()

    def __init__(self, target, props, dom_factory, spec, tier="quick", label=None, patterns="auto", note="",
                 in_out=(), max_paths=64, frame=True, contracts_used=(), scalar_args=None, kind="proof", bound=None,
                 path_filter=None, setup=None, allow_findings=(), cases=None):
        self.cases = cases or [("", None)]
        self.target, self.props, self.dom_factory, self.spec = target, props, dom_factory, spec
        self.tier, self.label, self.patterns, self.note = tier, label or target, patterns, note
        self.in_out = set(in_out)
        self.max_paths, self.frame = max_paths, frame
        self.replace = list(contracts_used)
        self.scalar_args = scalar_args or {}
        self.kind, self.bound = kind, bound
        self.path_filter = path_filter
        self.setup = setup
        self.allow_findings = set(allow_findings)
        self.strip_restrict = False

    def name(self):
        return re.sub(r"[^A-Za-z0-9]+", "_", self.label).strip("_")

    # alias patterns permitted by the signature
    def alias_patterns(self, I, f):
        names = param_names(f)
        types = {}
        if f.is_method and not f.is_static:
            types["this"] = I.base_of(I.canon(f.record.qname))[0]
        restrict = set()
        isref = {}
        for i, p in enumerate(f.params):
            nm = p.get("name", "arg%d" % i)
            raw = norm_type(f.param_type(i))
            isref[nm] = raw.rstrip().endswith("&") or raw.rstrip().endswith("__restrict")
            types[nm] = I.base_of(I.canon(raw))[0]
            if "__restrict" in raw:
                restrict.add(nm)
        written = set()
        if f.is_method and not f.is_static and not f.is_const:
            written.add("this")
        for i, p in enumerate(f.params):
            raw = norm_type(f.param_type(i))
            nm = p.get("name", "arg%d" % i)
            if isref.get(nm) and not raw.startswith("const "):
                written.add(nm)
        def same_layout(a, b):
            return self._layout_type(I, types[a]) == self._layout_type(I, types[b])
        cands = [n for n in names if n == "this" or isref.get(n)]
        pats = []
        def rec(i, blocks):
            if i == len(cands):
                pats.append([list(b) for b in blocks])
                return
            n = cands[i]
            for b in blocks:
                if same_layout(b[0], n):
                    # a written object may not share a block with a __restrict operand
                    blk = b + [n]
                    if any(x in written for x in blk) and any(x in restrict for x in blk if x not in written or len([y for y in blk if y in written]) > 1):
                        continue
                    if any(x in written for x in blk) and any((x in restrict) for x in blk):
                        continue
                    b.append(n)
                    rec(i + 1, blocks)
                    b.pop()
            blocks.append([n])
            rec(i + 1, blocks)
            blocks.pop()
        rec(0, [])
        out = []
        for blocks in pats:
            m = {}
            for b in blocks:
                for x in b[1:]:
                    m[x] = b[0]
            out.append(m)
        return out, written

    def _layout_type(self, I, t):
        r = I.tu.records.get(t)
        while r is not None and not r.fields and len(r.bases) == 1:
            t = I.tu.canon(r.bases[0], [r.qname])
            r = I.tu.records.get(t)
        return t

    def run(self, tu, workdir):
        t0 = time.time()
        log = []
        failed, samples = [], []
        n_ob = n_ok = 0
        cx = None
        try:
            f = tu.func(self.target)
            dom0 = self.dom_factory()
            I0 = Interp(tu, dom0)
            pats, written = self.alias_patterns(I0, f)
            if self.patterns != "auto":
                pats = [p for p in pats if self.patterns(p)]
            for pat, (ctag, csetup) in itertools.product(pats, self.cases):
                ptag = (",".join("%s=%s" % kv for kv in sorted(pat.items())) or "distinct") + (("|" + ctag) if ctag else "")

                def one(path, pat=pat, csetup=csetup):
                    dom = self.dom_factory()
                    I = Interp(tu, dom)
                    I.path = path
                    names = param_names(f)
                    objs = {}
                    pre = {}
                    I.scopes = ([f.record.qname] if f.record is not None else [])
                    for nm in names:
                        if nm in pat:
                            objs[nm] = objs[pat[nm]]
                            continue
                        if nm == "this":
                            o = I.new_object(f.record.qname)
                        else:
                            i = names.index(nm) - (1 if names[0] == "this" else 0)
                            raw = norm_type(f.param_type(i))
                            if nm in self.scalar_args:
                                objs[nm] = Cell(self.scalar_args[nm])
                                continue
                            o = I.new_object(raw)
                        is_in = (nm not in written) or (nm in self.in_out) or any(pat.get(x) == nm for x in names)
                        for p, lf in leaves_of(o, nm, {}).items():
                            if isinstance(lf, Leaf):
                                if dom.is_big(lf.type):
                                    lf.val = POISON
                                else:
                                    lf.val = Poly.var(p) if is_in else POISON
                            else:
                                lf.v = POISON
                        objs[nm] = o
                    if self.setup:
                        self.setup(I, objs)
                    if csetup:
                        csetup(I, objs)
                    for nm in names:
                        for p, lf in leaves_of(objs[nm], nm, {}).items():
                            pre[p] = lf.val if isinstance(lf, Leaf) else lf.v
                    this = objs.get("this")
                    args = [objs[nm] for nm in names if nm != "this"]
                    finding = None
                    ret = None
                    try:
                        ret = I.call(f, this, args)
                    except Finding as e:
                        finding = (e.kind, str(e))
                    post = {}
                    for nm in names:
                        for p, lf in leaves_of(objs[nm], nm, {}).items():
                            post[p] = lf.val if isinstance(lf, Leaf) else lf.v
                    return dict(pre=pre, post=post, ret=ret, dom=dom, finding=finding, names=names, objs=objs)

                runs = explore(one, self.max_paths)
                for (trace, r) in runs:
                    if self.path_filter and not self.path_filter(trace):
                        continue
                    ttag = ";".join("%s=%s" % ((l[1] + ":" + repr(l[2])[:40]) if isinstance(l, tuple) and len(l) > 2 else l, d) for l, d in trace)
                    oid = "%s[%s]{%s}" % (self.name(), ptag, ttag)
                    if r["finding"] and r["finding"][0] not in self.allow_findings:
                        n_ob += 1
                        failed.append((oid + ".no-ub", "%s: %s" % r["finding"], "symbolic execution of the real body"))
                        continue
                    for (k, msg) in r["dom"].findings:
                        n_ob += 1
                        if k in self.allow_findings:
                            n_ok += 1
                        else:
                            failed.append((oid + "." + k, msg, "/* restrict */" if k == "restrict" else ""))
                    ctx = Ctx(r["pre"], trace, pat, dom=r["dom"])
                    ctx.case = ctag
                    ctx.post = r["post"]
                    ctx.ret = r["ret"]
                    try:
                        exp = self.spec(ctx)
                    except SpecUndetermined as e:
                        n_ob += 1
                        failed.append((oid + ".determined", str(e), ""))
                        continue
                    if exp is None:
                        continue           # path excluded by the spec's precondition
                    for p, want in exp.items():
                        n_ob += 1
                        sub = path_substitution(trace)
                        if p.startswith("rel:"):
                            d = reduce_relations(want.subs(sub) if sub else want, r["dom"].relations)
                            if d.is_zero():
                                n_ok += 1
                                if len(samples) < 6:
                                    samples.append("%s.%s holds identically" % (oid, p))
                            else:
                                env = find_nonzero_point(d)
                                failed.append((oid + "." + p, "relation violated: %s ; non-zero at %s" % (repr(d)[:200], env), ""))
                            continue
                        got = r["ret"] if p == "return" else r["post"].get(p)
                        if got is POISON or got is None and p != "return":
                            failed.append((oid + "." + p, "output leaf never written", ""))
                            continue
                        if isinstance(want, Poly) or isinstance(got, Poly):
                            d = (got - want) if isinstance(got, Poly) else (Poly.const(got) - want)
                            if sub:
                                d = d.subs(sub)
                            d = reduce_relations(d, r["dom"].relations)
                            if d.is_zero():
                                n_ok += 1
                                if len(samples) < 6:
                                    samples.append("%s.%s == %s" % (oid, p, repr(want)[:100]))
                            else:
                                env = find_nonzero_point(d)
                                failed.append((oid + "." + p, "code - spec = %s ; non-zero at %s" % (repr(d)[:200], env), "spec: " + repr(want)[:160]))
                                if cx is None and isinstance(got, Poly):
                                    lv = {}
                                    for pp, lf in [(q, x) for nm in r["names"] for q, x in leaves_of(r["objs"][nm], nm, {}).items()]:
                                        if isinstance(lf, Leaf) and lf.type in RING_LEVEL:
                                            lv[pp] = RING_LEVEL[lf.type]
                                    cx = dict(obligation=oid + "." + p, pattern=pat, trace=[(str(l), dd) for l, dd in trace], point=env,
                                              code=repr(got)[:400], spec=repr(want)[:400], code_poly=got, spec_poly=want, leaf_path=p,
                                              var_levels=lv, sym_values=dict(r["dom"].sym_values), scalars={k: str(v) for k, v in self.scalar_args.items()})
                        else:
                            if got == want:
                                n_ok += 1
                            else:
                                failed.append((oid + "." + p, "got %r, spec %r" % (got, want), ""))
                    if self.frame:
                        # leaves of objects that are not written (and not aliased with a written one) keep their value
                        for p, v in r["pre"].items():
                            root = p.split(".")[0].split("[")[0]
                            if root in written or pat.get(root) in written or any(pat.get(w) == root for w in written):
                                continue
                            n_ob += 1
                            if r["post"][p] is v or r["post"][p] == v:
                                n_ok += 1
                            else:
                                failed.append((oid + ".frame." + p, "input leaf modified", ""))
        except (SymxError, ExtractionError, KeyError) as e:
            return dict(unit=self, status="undecided", reason="%s: %s" % (type(e).__name__, e), obligations=n_ob, discharged=n_ok, failed=[],
                        wall_s=time.time() - t0, log=traceback.format_exc())
        status = "fail" if failed else ("pass" if n_ob > 0 else "undecided")
        return dict(unit=self, status=status, reason="" if n_ob else "zero obligations", obligations=n_ob, discharged=n_ok, failed=failed,
                    wall_s=time.time() - t0, log="\n".join("%s :: %s :: %s" % x for x in failed), counterexample=cx, samples=samples)
