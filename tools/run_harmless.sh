#!/bin/bash
# run_harmless.sh : every behaviour-preserving patch under /verif/harmless must leave the affected properties' quick checks at exit 0
cd /verif
run() { W=$1; K=$2; shift 2; for p in "$@"; do out=$(tools/try_patch.sh harmless/$W/harmless_$K.diff $p 2>&1); rc=$?; echo "harmless $W/$K property $p -> exit $rc :: $(echo "$out" | grep '^check' | tail -1 | cut -c1-200)"; done; }
run W5 1 C02 C03 C18; run W5 2 C04 C18; run W5 3 C06; run W5 4 C12 C13 C14; run W5 5 C03
run W6 1 C01 C08; run W6 2 C09 C17; run W6 3 C02 C04; run W6 4 C06 C07 C10; run W6 5 C11 C12 C14 C17
# third agent (round 6): patches 1, 3, 4, 5 (and 2 for C15) restructure loops / layouts that carry a contract -> exit 2 (undecided) is expected there, never exit 1
run X6 1 C06; run X6 2 C15; run X6 3 C11 C17; run X6 4 C16; run X6 5 C04 C18; run X6 6 C19
# fourth agent (round 8): six small everyday edits (renames, return -> break, dead counter, casts / argument temporaries, hoisted bound) -> all exit 0
run Z5 1 C11; run Z5 2 C13; run Z5 3 C07 C10; run Z5 4 C03; run Z5 5 C15; run Z5 6 C08
