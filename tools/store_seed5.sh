#!/bin/bash
# store_seed5.sh <Wn> <property> <k> : copy a confirmed round-5 (wildcard) seed from /tmp/wt5/<Wn> into /verif/seeded/<property>_r5_<k>/
N=$1; ID=$2; K=$3; SRC=/tmp/wt5/$N; D=/verif/seeded/${ID}_r5_$K
mkdir -p $D
cp $SRC/patch.diff $D/patch.diff
cp $SRC/demo.cpp $D/demo.cpp
sed "s#/tmp/wt5/$N#\$W#g" $SRC/demo_cmd.txt > $D/demo_cmd.txt
cp /tmp/seedconf.$N.log $D/confirm.log 2>/dev/null
python3 - "$ID" "$SRC/meta.json" "$D/meta.json" <<'P'
import json,sys
pid, src, dst = sys.argv[1:]
try:
    m = json.load(open(src))
except Exception as e:
    m = {"property": pid, "summary": "(agent meta.json unreadable: %s)" % e}
m["property"] = pid
m["origin"] = "round 5 (wildcard): independent sub-agent given only the property texts and a scratch worktree, free to choose the property"
m["confirmed_by"] = "tools/confirm_seed.sh in a scratch worktree of /repo HEAD: demo passes unpatched, suite (./test and ./test wkdibe) all PASS with the patch, demo fails with the patch (see confirm.log)"
json.dump(m, open(dst, "w"), indent=1)
P
echo stored $D
