#!/bin/bash
# store_seed2.sh <dir under /tmp/wt2, e.g. C04_3> : copy a confirmed round-2 seed into /verif/seeded/<ID>_r4_<k>/
N=$1; ID=${N%%_*}; K=${N##*_}; SRC=/tmp/wt4/$N; D=/verif/seeded/${ID}_r4_$K
mkdir -p $D
cp $SRC/patch.diff $D/patch.diff
cp $SRC/demo.cpp $D/demo.cpp
sed "s#/tmp/wt4/$N#\$W#g" $SRC/demo_cmd.txt > $D/demo_cmd.txt
cp /tmp/seedconf.$N.log $D/confirm.log 2>/dev/null
python3 - "$ID" "$SRC/meta.json" "$D/meta.json" <<'P'
import json,sys
pid, src, dst = sys.argv[1:]
try:
    m = json.load(open(src))
except Exception as e:
    m = {"property": pid, "summary": "(agent meta.json unreadable: %s)" % e}
m["property"] = pid
m["origin"] = "round 4: independent sub-agent given only the property text and a scratch worktree"
m["confirmed_by"] = "tools/confirm_seed.sh in a scratch worktree of /repo HEAD: demo passes unpatched, suite (./test and ./test wkdibe) all PASS with the patch, demo fails with the patch (see confirm.log)"
json.dump(m, open(dst, "w"), indent=1)
P
echo stored $D
