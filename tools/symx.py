"""symx: VC generation by symbolic execution of the REAL function bodies (clang JSON AST),
with callee *contracts* applied at the abstraction boundary chosen by a Domain.

 * objects have identity (Python reference) -> alias patterns are real object sharing
 * a Domain declares which C++ types are leaves (abstract values) and gives the contract of
   every operation on leaves (e.g. "Fq2::multiply is multiplication in a commutative ring")
 * everything else (struct plumbing, control flow, integer code) is executed from the AST
 * undecidable abstract predicates fork the path; a path is a list of (label, decision)
"""
import re, copy as _copy
from jast import ExtractionError, norm_type
from poly import Poly

MASK = {"unsigned char": 8, "unsigned short": 16, "unsigned int": 32, "unsigned long": 64, "unsigned long long": 64,
        "uint8_t": 8, "uint16_t": 16, "uint32_t": 32, "uint64_t": 64, "size_t": 64, "unsigned __int128": 128, "bool": 1}
SIGNED = {"char": 8, "signed char": 8, "short": 16, "int": 32, "long": 64, "long long": 64, "int8_t": 8, "int16_t": 16, "int32_t": 32, "int64_t": 64}


class Poison:
    def __repr__(self):
        return "<uninitialised>"


POISON = Poison()


class SymxError(Exception):
    """the interpreter met something outside its subset -> undecided, never a violation"""


class Finding(Exception):
    """definite misbehaviour observed during symbolic execution (uninitialised read, restrict violation ...)"""

    def __init__(self, kind, msg):
        Exception.__init__(self, msg)
        self.kind = kind


class Cell:
    __slots__ = ("v",)

    def __init__(self, v=POISON):
        self.v = v


class Leaf:
    """object of an abstract (leaf) type; val is domain-specific (Poly, int, group element ...)"""
    __slots__ = ("type", "val", "tag")

    def __init__(self, type_, val=POISON, tag=None):
        self.type, self.val, self.tag = type_, val, tag

    def __repr__(self):
        return "Leaf<%s>(%r)" % (self.type, self.val)


class Obj:
    __slots__ = ("type", "f")

    def __init__(self, type_, fields):
        self.type, self.f = type_, fields


class Arr:
    __slots__ = ("etype", "items")

    def __init__(self, etype, items):
        self.etype, self.items = etype, items


class Ptr:
    __slots__ = ("arr", "idx")

    def __init__(self, arr, idx=0):
        self.arr, self.idx = arr, idx

    def deref(self):
        if isinstance(self.arr, Arr):
            if not (0 <= self.idx < len(self.arr.items)):
                raise Finding("out-of-bounds", "pointer dereference at index %d of array of %d" % (self.idx, len(self.arr.items)))
            return self.arr.items[self.idx]
        if self.idx != 0:
            raise Finding("out-of-bounds", "pointer past single object")
        return self.arr

    def same(self, o):
        return isinstance(o, Ptr) and self.arr is o.arr and self.idx == o.idx


class Fork(Exception):
    pass


class Closure:
    """a local lambda: operator() body + the enclosing frame (by-reference captures)"""

    def __init__(self, op_id, params, body, env):
        self.op_id, self.params, self.body, self.env = op_id, params, body, env


class ReturnEx(Exception):
    def __init__(self, v):
        self.v = v


class BreakEx(Exception):
    pass


class ContinueEx(Exception):
    pass


class Path:
    """decision oracle for abstract predicates: replays `choices`, then defaults and records alternatives"""

    def __init__(self, choices):
        self.choices = list(choices)
        self.i = 0
        self.trace = []          # (label, decision)
        self.alternatives = []   # pending choice lists
        self.memo = {}           # same abstract predicate asked twice on one path -> same answer

    def decide(self, label, options=(True, False), key=None):
        if key is not None and key in self.memo:
            return self.memo[key]
        d = self._decide(label, options)
        if key is not None:
            self.memo[key] = d
        return d

    def _decide(self, label, options=(True, False)):
        if self.i < len(self.choices):
            d = self.choices[self.i]
        else:
            d = options[0]
            for o in options[1:]:
                self.alternatives.append([t[1] for t in self.trace] + [o])
        self.i += 1
        self.trace.append((label, d))
        return d


class Interp:
    def __init__(self, tu, domain, max_steps=2000000):
        self.tu = tu
        self.dom = domain
        self.path = None
        self.steps = 0
        self.max_steps = max_steps
        self.scopes = []
        self.calls = []          # trace of abstracted calls (qname, ...) for ghost/schedule obligations
        self.depth = 0
        self._glob = {}
        self.loop_cuts = {}      # loop node id -> handler(I, node, env)

    # ---------------- types / object construction ----------------
    def canon(self, ts):
        return self.tu.canon(ts, self.scopes)

    def tstr(self, n):
        t = n["type"]
        return self.canon(t.get("desugaredQualType", t["qualType"]))

    def base_of(self, ts):
        t = ts
        m = re.match(r"^(.*?)((?:\[\d*\])+)$", t)
        dims = []
        if m:
            t = m.group(1).strip()
            dims = [int(x) for x in re.findall(r"\[(\d+)\]", m.group(2))]
        t = re.sub(r"(\*|&&|&|\b__restrict\b|\bconst\b)", " ", t)
        return " ".join(t.split()), dims

    def leaf_type(self, base):
        """the leaf type name if `base` (or one of its bases) is abstract in this domain"""
        seen = base
        for _ in range(8):
            if seen in self.dom.leaf_types:
                return seen
            r = self.tu.records.get(seen)
            if r is None or r.fields or len(r.bases) != 1:
                return None
            seen = self.tu.canon(r.bases[0], [r.qname] + self._nsscope(r))
        return None

    def _nsscope(self, r):
        sc = [x for x in getattr(r, "ns", []) if x not in ("embedded_pairing", "core", "bls12_381", "")]
        return ["::".join(sc)] if sc else []

    def fields_of(self, r):
        out = []
        for b in r.bases:
            out += self.fields_of(self.tu.records[self.tu.canon(b, [r.qname] + self._nsscope(r))])
        for (fn, ft, _) in r.fields:
            out.append((fn, self.tu.canon(ft, [r.qname] + self._nsscope(r))))
        return out

    def new_object(self, ts, init=POISON):
        ts = self.canon(ts)
        base, dims = self.base_of(ts)
        if dims:
            m_ = re.match(r"^(.*?)\[(\d+)\]((?:\[\d+\])*)$", ts.strip())
            if m_ and "*" in m_.group(1):
                # array of pointers: the element type keeps its pointer-ness
                inner = m_.group(1).strip() + m_.group(3)
            else:
                inner = base + "".join("[%d]" % d for d in dims[1:])
            return Arr(inner, [self.new_object(inner, init) for _ in range(dims[0])])
        if "*" in ts:
            return Cell(init)
        lt = self.leaf_type(base)
        if lt is not None:
            return Leaf(lt, init if init is POISON else self.dom.zero(lt))
        r = self.tu.records.get(base)
        if r is None:
            return Cell(init if init is POISON else 0)
        return Obj(base, {fn: self.new_object(ft, init) for fn, ft in self.fields_of(r)})

    def deep_copy_into(self, dst, src):
        if dst is src:
            return
        if isinstance(dst, Leaf):
            if not isinstance(src, Leaf):
                raise SymxError("copy leaf <- non-leaf")
            dst.val, dst.tag = src.val, src.tag
        elif isinstance(dst, Cell):
            dst.v = src.v
        elif isinstance(dst, Obj):
            if not isinstance(src, Obj):
                raise SymxError("copy obj <- %r" % type(src))
            for k in dst.f:
                self.deep_copy_into(dst.f[k], src.f[k])
        elif isinstance(dst, Arr):
            for a, b in zip(dst.items, src.items):
                self.deep_copy_into(a, b)
        else:
            raise SymxError("copy into " + repr(dst))

    def clone(self, src):
        if isinstance(src, Leaf):
            return Leaf(src.type, src.val, src.tag)
        if isinstance(src, Cell):
            return Cell(src.v)
        if isinstance(src, Obj):
            return Obj(src.type, {k: self.clone(v) for k, v in src.f.items()})
        if isinstance(src, Arr):
            return Arr(src.etype, [self.clone(x) for x in src.items])
        return src

    def zero_fill(self, o):
        if isinstance(o, Leaf):
            o.val = self.dom.zero(o.type)
        elif isinstance(o, Cell):
            o.v = 0
        elif isinstance(o, Obj):
            for v in o.f.values():
                self.zero_fill(v)
        elif isinstance(o, Arr):
            for v in o.items:
                self.zero_fill(v)

    # ---------------- globals ----------------
    def global_value(self, did):
        qn, node = self.tu.globals[did]
        if qn in self._glob:
            return self._glob[qn]
        t = node["type"]
        ts = self.canon(t.get("desugaredQualType", t["qualType"]))
        if ts.rstrip().endswith("&"):
            tgt = self._find_declref(node)
            if tgt is None:
                raise SymxError("reference global " + qn)
            v = self.global_value(tgt)
            self._glob[qn] = v
            return v
        v = self.dom.global_object(self, qn, ts)
        self._glob[qn] = v
        return v

    def _find_declref(self, n):
        for c in n.get("inner", []):
            if c.get("kind") == "DeclRefExpr" and c["referencedDecl"]["id"] in self.tu.globals:
                return c["referencedDecl"]["id"]
            r = self._find_declref(c)
            if r is not None:
                return r
        return None

    # ---------------- calls ----------------
    def call(self, f, this, args, force_body=False):
        self.depth += 1
        if self.depth > 60:
            raise SymxError("call depth")
        try:
            h = None if force_body else self.dom.contract_for(self, f, this, args)
            if h is not None:
                return h(self, f, this, args)
            if f.body is None:
                raise SymxError("no body and no contract for " + str(f.qname))
            saved_scopes = self.scopes
            self.scopes = ([f.record.qname] if f.record is not None else []) + (["::".join(x for x in f.ns if x not in ("embedded_pairing", "core", "bls12_381", ""))] if any(x not in ("embedded_pairing", "core", "bls12_381", "") for x in f.ns) else [])
            saved_env = self.tu.const_env
            self.tu.const_env = {}
            self._scan_consts(f.body)
            env = {"this": this}
            for p, a in zip(f.params, args):
                env[p["id"]] = a
            try:
                self.exec(f.body, env)
                return None
            except ReturnEx as r:
                return r.v
            finally:
                self.scopes = saved_scopes
                self.tu.const_env = saved_env if saved_env is not None else {}
        finally:
            self.depth -= 1

    def _scan_consts(self, n):
        if n.get("kind") == "VarDecl" and n.get("constexpr"):
            from jast import find_value
            v = find_value(n)
            if v is not None and re.fullmatch(r"-?\d+", str(v)):
                self.tu.const_env[n["name"]] = v
        for c in n.get("inner", []):
            self._scan_consts(c)

    def bind_arg(self, ptype, argnode, env):
        """evaluate an argument for a parameter of C++ type ptype"""
        pt = norm_type(ptype)
        v = self.ev(argnode, env)
        if pt.rstrip().endswith("&") or pt.rstrip().endswith("&__restrict") or "&" in pt.split(">")[-1]:
            return v                      # reference: the object itself
        # by value
        if isinstance(v, (Obj, Leaf, Arr)):
            return self.clone(v)
        if isinstance(v, Cell):
            return Cell(v.v)
        return Cell(v)

    # ---------------- statements ----------------
    def exec(self, n, env):
        self.steps += 1
        if self.steps > self.max_steps:
            raise SymxError("step budget exhausted")
        k = n["kind"]
        if k == "CompoundStmt":
            for c in n.get("inner", []):
                self.exec(c, env)
        elif k == "NullStmt":
            pass
        elif k == "DeclStmt":
            for c in n["inner"]:
                if c.get("kind") in ("StaticAssertDecl", "TypedefDecl", "TypeAliasDecl", "UsingDecl"):
                    continue          # compile-time only
                self.vardecl(c, env)
        elif k == "ReturnStmt":
            v = None
            if n.get("inner"):
                v = self.rv(self.ev(n["inner"][0], env))
            raise ReturnEx(v)
        elif k == "BreakStmt":
            raise BreakEx()
        elif k == "ContinueStmt":
            raise ContinueEx()
        elif k == "IfStmt":
            inner = n["inner"]
            c = self.truth(self.rv(self.ev(inner[0], env)), n)
            if c:
                self.exec(inner[1], env)
            elif len(inner) > 2:
                self.exec(inner[2], env)
        elif k in ("ForStmt", "WhileStmt", "DoStmt") and n.get("id") in self.loop_cuts:
            # the loop is cut at its head: a handler checks base / inductive step for an invariant (DESIGN 3.5)
            self.loop_cuts[n["id"]](self, n, env)
        elif k == "ForStmt":
            init, condvar, cond, inc, body = n["inner"]
            if init.get("kind"):
                self.exec(init, env)
            while True:
                if cond.get("kind") and not self.truth(self.rv(self.ev(cond, env)), n):
                    break
                try:
                    self.exec(body, env)
                except BreakEx:
                    break
                except ContinueEx:
                    pass
                if inc.get("kind"):
                    self.ev(inc, env)
        elif k == "WhileStmt":
            cond, body = n["inner"][-2], n["inner"][-1]
            while self.truth(self.rv(self.ev(cond, env)), n):
                try:
                    self.exec(body, env)
                except BreakEx:
                    break
                except ContinueEx:
                    pass
        elif k == "DoStmt":
            body, cond = n["inner"]
            while True:
                try:
                    self.exec(body, env)
                except BreakEx:
                    break
                except ContinueEx:
                    pass
                if not self.truth(self.rv(self.ev(cond, env)), n):
                    break
        elif k == "SwitchStmt":
            cond, body = n["inner"][-2], n["inner"][-1]
            v = self.rv(self.ev(cond, env))
            active = False
            try:
                for c in body.get("inner", []):
                    cc = c
                    while cc["kind"] in ("CaseStmt", "DefaultStmt"):
                        if cc["kind"] == "DefaultStmt" or self.rv(self.ev(cc["inner"][0], env)) == v:
                            active = True
                        cc = cc["inner"][-1]
                    if active:
                        self.exec(cc, env)
            except BreakEx:
                pass
        else:
            self.ev(n, env)

    def truth(self, v, n=None):
        if isinstance(v, Cell):
            v = v.v
        if v is POISON:
            raise Finding("uninitialised", "branch on uninitialised value")
        if isinstance(v, (int, bool)):
            return bool(v)
        if isinstance(v, Ptr) or v is None:
            return v is not None
        return self.dom.truth(self, v)

    def vardecl(self, n, env):
        if n["kind"] != "VarDecl":
            raise SymxError("decl " + n["kind"])
        t = n["type"]
        init = [c for c in n.get("inner", []) if c.get("kind") and not c["kind"].endswith("Attr")]
        raw = norm_type(t.get("desugaredQualType", t["qualType"]))
        lam = init[0] if init else None
        while lam is not None and lam.get("kind") in ("ExprWithCleanups", "ImplicitCastExpr", "MaterializeTemporaryExpr", "CXXBindTemporaryExpr", "CXXConstructExpr") and len(lam.get("inner", [])) == 1:
            lam = lam["inner"][0]
        if lam is not None and lam.get("kind") == "LambdaExpr":
            env[n["id"]] = self.x_LambdaExpr(lam, env)
            return
        isref = raw.rstrip().endswith("&")
        if isref:
            env[n["id"]] = self.ev(init[0], env)
            return
        try:
            ts = self.canon(raw)
        except ExtractionError:
            if not init:
                raise
            ts = self.tstr(init[0])
        if not init:
            env[n["id"]] = self.new_object(ts)
            return
        e = init[0]
        if e["kind"] == "CXXConstructExpr" and not e.get("inner"):
            env[n["id"]] = self.new_object(ts)
            return
        if e["kind"] == "InitListExpr":
            o = self.new_object(ts)
            self.init_list(o, e, env)
            env[n["id"]] = o
            return
        v = self.ev(e, env)
        if isinstance(v, (Obj, Leaf, Arr)):
            env[n["id"]] = self.clone(v)
        elif isinstance(v, Cell):
            env[n["id"]] = Cell(v.v)
        else:
            env[n["id"]] = Cell(v)

    def init_list(self, o, e, env):
        inner = e.get("inner", [])
        if isinstance(o, Leaf):
            lit = self._bigint_literal(e) if re.match(r"^BigInt<\d+>$", o.type) else None
            if lit is not None:
                o.val = lit
                return
            # initialiser of an abstract object: a designated copy from a constant ({{{.val = X}}}) or {0}
            src = self._leaf_init_source(e, env)
            if src is None:
                o.val = self.dom.zero(o.type)
            else:
                o.val = self.dom.leaf_from_init(self, o.type, src)
            return
        if isinstance(o, Obj):
            names = list(o.f.keys())
            flat = self._flatten_bases(e)
            for name, c in zip(names, flat):
                tgt = o.f[name]
                if c["kind"] == "InitListExpr":
                    self.init_list(tgt, c, env)
                elif c["kind"] == "ImplicitValueInitExpr":
                    self.zero_fill(tgt)
                else:
                    v = self.ev(c, env)
                    if isinstance(tgt, Cell):
                        tgt.v = self.rv(v)
                    else:
                        self.deep_copy_into(tgt, v)
            return
        if isinstance(o, Arr):
            for tgt, c in zip(o.items, inner):
                if c["kind"] == "InitListExpr":
                    self.init_list(tgt, c, env)
                else:
                    v = self.ev(c, env)
                    if isinstance(tgt, Cell):
                        tgt.v = self.rv(v)
                    else:
                        self.deep_copy_into(tgt, v)
            for tgt in o.items[len(inner):]:
                self.zero_fill(tgt)
            return
        if isinstance(o, Cell):
            o.v = self.rv(self.ev(inner[0], env)) if inner else 0

    def _bigint_literal(self, e):
        """value of a BigInt initialiser {.std_words = {...}} made of integer literals"""
        fld = e.get("field", {}).get("name")
        if fld is None:
            return None
        esz = {"std_words": 4, "std_dwords": 8, "dwords": 16, "words": 8, "bytes": 1}.get(fld)
        inner = e.get("inner", [])
        if esz is None or not inner:
            return None
        vals = []

        def walk(n):
            if n["kind"] == "IntegerLiteral":
                vals.append(int(n["value"]))
            elif n["kind"] in ("InitListExpr", "ImplicitCastExpr", "ConstantExpr"):
                for c in n.get("inner", []):
                    walk(c)
            elif n["kind"] == "ImplicitValueInitExpr":
                pass
            else:
                raise SymxError("BigInt initialiser element " + n["kind"])
        walk(inner[0])
        return sum(v << (8 * esz * k) for k, v in enumerate(vals))

    def _flatten_bases(self, e):
        """InitListExpr of a derived class nests its base initialiser first; we have flat fields."""
        inner = e.get("inner", [])
        ts = self.tstr(e)
        base, _ = self.base_of(ts)
        r = self.tu.records.get(base)
        out = []
        nb = len(r.bases) if r else 0
        for i, c in enumerate(inner):
            if i < nb and c["kind"] == "InitListExpr":
                out += self._flatten_bases(c)
            else:
                out.append(c)
        return out

    def _leaf_init_source(self, e, env):
        """the object an abstract (leaf) object is initialised from; a list when the initialiser names several components
        (the domain must know how to assemble them, otherwise the extraction is unusable -- never silently the first one)"""
        srcs = []
        for c in e.get("inner", []):
            if c["kind"] == "InitListExpr":
                r = self._leaf_init_source(c, env)
                if r is not None:
                    srcs.append(r)
            elif c["kind"] in ("IntegerLiteral", "ImplicitValueInitExpr"):
                continue
            else:
                srcs.append(self.ev(c, env))
        if not srcs:
            return None
        return srcs[0] if len(srcs) == 1 else srcs

    # ---------------- expressions ----------------
    def rv(self, v):
        if isinstance(v, Cell):
            if v.v is POISON:
                raise Finding("uninitialised", "read of uninitialised scalar")
            return v.v
        return v

    def wrap(self, v, ts):
        if not isinstance(v, int) or isinstance(v, bool) and False:
            return v
        ts = ts.replace("const ", "").strip()
        if ts in MASK:
            if ts == "bool":
                return 1 if v else 0
            return v & ((1 << MASK[ts]) - 1)
        if ts in SIGNED:
            b = SIGNED[ts]
            v &= (1 << b) - 1
            return v - (1 << b) if v >> (b - 1) else v
        return v

    def ev(self, n, env):
        k = n["kind"]
        m = getattr(self, "x_" + k, None)
        if m is None:
            raise SymxError("expression kind " + k)
        return m(n, env)

    def x_ParenExpr(self, n, env):
        return self.ev(n["inner"][0], env)

    x_ConstantExpr = x_ExprWithCleanups = x_MaterializeTemporaryExpr = x_ParenExpr

    def x_SubstNonTypeTemplateParmExpr(self, n, env):
        inner = [c for c in n["inner"] if c.get("kind") != "NonTypeTemplateParmDecl"]
        return self.ev(inner[-1], env)

    def x_IntegerLiteral(self, n, env):
        return int(n["value"])

    def x_CharacterLiteral(self, n, env):
        return int(n["value"])

    def x_CXXBoolLiteralExpr(self, n, env):
        return 1 if n["value"] else 0

    def x_CXXNullPtrLiteralExpr(self, n, env):
        return None

    def x_CXXThisExpr(self, n, env):
        return Ptr(env["this"])

    def x_DeclRefExpr(self, n, env):
        ref = n["referencedDecl"]
        rid = ref["id"]
        if rid in env:
            return env[rid]
        if rid in self.tu.globals:
            return self.global_value(rid)
        if ref["kind"] in ("FunctionDecl", "CXXMethodDecl"):
            return ("fn", rid, ref.get("name"))
        raise SymxError("unbound variable " + ref.get("name", "?"))

    def x_MemberExpr(self, n, env):
        b = self.ev(n["inner"][0], env)
        if n.get("isArrow"):
            b = self.rv(b)
            if not isinstance(b, Ptr):
                raise SymxError("-> on non-pointer")
            b = b.deref()
        rid = n.get("referencedMemberDecl")
        if rid in self.tu.globals:
            return self.global_value(rid)
        name = n["name"]
        if isinstance(b, Leaf):
            return self.dom.leaf_member(self, b, name)
        if not isinstance(b, Obj):
            raise SymxError("member %s of %r" % (name, b))
        if name not in b.f:
            # method reference
            return ("method", b, rid)
        return b.f[name]

    def x_ArraySubscriptExpr(self, n, env):
        a = self.ev(n["inner"][0], env)
        i = self.rv(self.ev(n["inner"][1], env))
        if isinstance(a, Cell):
            a = a.v
        if a is None:
            raise Finding("out-of-bounds", "subscript %s of a null pointer (no element was allocated for it)" % (i,))
        if isinstance(a, Ptr):
            return Ptr(a.arr, a.idx + i).deref()
        if isinstance(a, Arr):
            if not isinstance(i, int):
                raise SymxError("symbolic index")
            if not (0 <= i < len(a.items)):
                raise Finding("out-of-bounds", "index %d into array of %d" % (i, len(a.items)))
            return a.items[i]
        if hasattr(a, "subscript"):
            return a.subscript(self, i)
        raise SymxError("subscript of %r" % a)

    def x_UnaryOperator(self, n, env):
        op = n["opcode"]
        if op == "&":
            v = self.ev(n["inner"][0], env)
            return Ptr(v)
        if op == "*":
            v = self.rv(self.ev(n["inner"][0], env))
            if not isinstance(v, Ptr):
                raise SymxError("deref of non-pointer")
            return v.deref()
        if op in ("++", "--"):
            c = self.ev(n["inner"][0], env)
            old = self.rv(c)
            if isinstance(old, Ptr):
                new = Ptr(old.arr, old.idx + (1 if op == "++" else -1))
            else:
                new = self.wrap(old + (1 if op == "++" else -1), self.tstr(n))
            c.v = new
            return old if n.get("isPostfix") else c
        v = self.rv(self.ev(n["inner"][0], env))
        if op == "!":
            if isinstance(v, int):
                return 0 if v else 1
            if v is None or isinstance(v, Ptr):
                return 1 if v is None else 0
            return self.dom.logical_not(self, v)
        if op == "-":
            return self.wrap(-v, self.tstr(n))
        if op == "~":
            return self.wrap(~v, self.tstr(n))
        if op == "+":
            return v
        raise SymxError("unary " + op)

    def x_BinaryOperator(self, n, env):
        op = n["opcode"]
        a, b = n["inner"]
        if op == "=":
            lhs = self.ev(a, env)
            rhs = self.ev(b, env)
            if isinstance(lhs, Cell):
                lhs.v = self.rv(rhs)
            else:
                self.deep_copy_into(lhs, rhs)
            return lhs
        if op == "&&":
            x = self.truth(self.rv(self.ev(a, env)))
            return 1 if (x and self.truth(self.rv(self.ev(b, env)))) else 0
        if op == "||":
            x = self.truth(self.rv(self.ev(a, env)))
            return 1 if (x or self.truth(self.rv(self.ev(b, env)))) else 0
        if op == ",":
            self.ev(a, env)
            return self.ev(b, env)
        x, y = self.rv(self.ev(a, env)), self.rv(self.ev(b, env))
        return self.binop(op, x, y, self.tstr(n))

    def binop(self, op, x, y, ts):
        if isinstance(x, Ptr) or isinstance(y, Ptr) or x is None or y is None:
            if op == "==":
                return 1 if (x is y or (isinstance(x, Ptr) and x.same(y))) else 0
            if op == "!=":
                return 0 if (x is y or (isinstance(x, Ptr) and x.same(y))) else 1
            if op == "+" and isinstance(x, Ptr):
                return Ptr(x.arr, x.idx + y)
            raise SymxError("pointer op " + op)
        if not isinstance(x, int) or not isinstance(y, int):
            return self.dom.binop(self, op, x, y, ts)
        if op == "+":
            r = x + y
        elif op == "-":
            r = x - y
        elif op == "*":
            r = x * y
        elif op == "/":
            if y == 0:
                raise Finding("div-by-zero", "division by zero")
            r = abs(x) // abs(y) * (1 if (x >= 0) == (y >= 0) else -1)
        elif op == "%":
            if y == 0:
                raise Finding("div-by-zero", "modulo by zero")
            r = abs(x) % abs(y) * (1 if x >= 0 else -1)
        elif op == "<<":
            r = x << y
        elif op == ">>":
            r = x >> y
        elif op == "&":
            r = x & y
        elif op == "|":
            r = x | y
        elif op == "^":
            r = x ^ y
        elif op in ("<", ">", "<=", ">=", "==", "!="):
            return 1 if {"<": x < y, ">": x > y, "<=": x <= y, ">=": x >= y, "==": x == y, "!=": x != y}[op] else 0
        else:
            raise SymxError("binop " + op)
        return self.wrap(r, ts)

    def x_CompoundAssignOperator(self, n, env):
        a, b = n["inner"]
        c = self.ev(a, env)
        y = self.rv(self.ev(b, env))
        op = n["opcode"][:-1]
        c.v = self.binop(op, self.rv(c), y, self.tstr(n))
        return c

    def x_ConditionalOperator(self, n, env):
        c, a, b = n["inner"]
        cv = self.rv(self.ev(c, env))
        if hasattr(self.dom, "select") and not isinstance(cv, (int, Ptr)) and cv is not None and cv is not POISON and self._pure(a) and self._pure(b):
            return self.dom.select(self, cv, lambda: self.rv(self.ev(a, env)), lambda: self.rv(self.ev(b, env)))
        return self.ev(a, env) if self.truth(cv) else self.ev(b, env)

    def _pure(self, n):
        """literal, possibly under casts / parentheses"""
        while n.get("kind") in ("ImplicitCastExpr", "ParenExpr", "CStyleCastExpr", "CXXStaticCastExpr", "CXXFunctionalCastExpr", "ConstantExpr"):
            n = n["inner"][-1]
        return n.get("kind") in ("IntegerLiteral", "CXXBoolLiteralExpr")

    def x_ImplicitCastExpr(self, n, env):
        ck = n["castKind"]
        v = self.ev(n["inner"][0], env)
        if ck == "LValueToRValue":
            if isinstance(v, Cell):
                return self.rv(v)
            return v
        if ck in ("NoOp", "ArrayToPointerDecay", "FunctionToPointerDecay", "DerivedToBase", "UncheckedDerivedToBase", "BitCast"):
            if ck == "ArrayToPointerDecay" and isinstance(v, Arr):
                return Ptr(v, 0)
            return v
        if ck in ("IntegralCast", "IntegralToBoolean", "BooleanToSignedIntegral"):
            v = self.rv(v)
            if isinstance(v, int):
                return self.wrap(v, self.tstr(n))
            return self.dom.cast(self, v, self.tstr(n))
        if ck == "PointerToBoolean":
            v = self.rv(v)
            return 0 if v is None else 1
        if ck == "NullToPointer":
            return None
        raise SymxError("cast " + ck)

    def _xcast(self, n, env):
        v = self.ev(n["inner"][-1], env)
        ts = self.tstr(n)
        if isinstance(v, Cell) and n.get("valueCategory") != "lvalue":
            v = self.rv(v)
        if isinstance(v, int):
            return self.wrap(v, ts)
        if v is None or isinstance(v, (Cell, Obj, Leaf, Arr, Ptr, tuple)) or hasattr(v, "subscript"):
            return v
        return self.dom.cast(self, v, ts)

    x_CStyleCastExpr = x_CXXStaticCastExpr = x_CXXFunctionalCastExpr = x_CXXConstCastExpr = _xcast

    def x_CXXReinterpretCastExpr(self, n, env):
        v = self.ev(n["inner"][-1], env)
        return self.dom.reinterpret(self, v, self.tstr(n))

    def x_UnaryExprOrTypeTraitExpr(self, n, env):
        if "argType" in n:
            t = n["argType"]
            ts = self.canon(t.get("desugaredQualType", t["qualType"]))
        else:
            ts = self.tstr(n["inner"][0])
        return ("sizeof", ts.rstrip("& "))

    def x_CXXConstructExpr(self, n, env):
        args = n.get("inner", [])
        if len(args) == 1:
            return self.ev(args[0], env)
        raise SymxError("ctor")

    def x_InitListExpr(self, n, env):
        o = self.new_object(self.tstr(n))
        self.init_list(o, n, env)
        return o

    def eval_args(self, f, argnodes, env):
        out = []
        for i, a in enumerate(argnodes):
            if a["kind"] == "CXXDefaultArgExpr":
                p = f.params[i]
                dflt = [c for c in p.get("inner", []) if c.get("kind") and not c["kind"].endswith("Attr")]
                out.append(Cell(self.rv(self.ev(dflt[-1], env))))
                continue
            out.append(self.bind_arg(f.param_type(i), a, env))
        return out

    def x_CallExpr(self, n, env):
        callee, args = n["inner"][0], n["inner"][1:]
        c = callee
        while c["kind"] in ("ImplicitCastExpr", "ParenExpr"):
            c = c["inner"][0]
        if c["kind"] == "DeclRefExpr" and c["referencedDecl"]["kind"] in ("FunctionDecl", "CXXMethodDecl"):
            rid = c["referencedDecl"]["id"]
            name = c["referencedDecl"]["name"]
            if name in ("memcpy", "memmove", "memset", "memcmp"):
                return self.libc(name, [self.rv(self.ev(a, env)) for a in args])
            f = self.tu.func_of_decl(rid)
            return self.call(f, None, self.eval_args(f, args, env))
        fp = self.rv(self.ev(callee, env))
        return self.dom.call_pointer(self, fp, [self.rv(self.ev(a, env)) for a in args])

    def x_LambdaExpr(self, n, env):
        """closure of a local lambda.  Only by-reference captures ([&] or [&x]) are modelled: the closure shares the enclosing frame's cells;
        anything captured by copy, init-captures and generic lambdas abort the extraction"""
        rec = [c for c in n.get("inner", []) if c.get("kind") == "CXXRecordDecl"]
        body = [c for c in n.get("inner", []) if c.get("kind") == "CompoundStmt"]
        if len(rec) != 1 or not body:
            raise SymxError("lambda expression shape")
        ops = [c for c in rec[0].get("inner", []) if c.get("kind") == "CXXMethodDecl" and c.get("name") == "operator()"]
        if len(ops) != 1:
            raise SymxError("lambda without a unique operator()")
        for c in rec[0].get("inner", []):
            if c.get("kind") == "FieldDecl" and not c.get("type", {}).get("qualType", "").rstrip().endswith("&"):
                raise SymxError("lambda captures %s by copy" % c.get("type", {}).get("qualType"))
        params = [c for c in ops[0].get("inner", []) if c.get("kind") == "ParmVarDecl"]
        return Closure(ops[0]["id"], params, body[-1], env)

    def call_closure(self, cl, argnodes, env):
        self.depth += 1
        if self.depth > 60:
            raise SymxError("call depth")
        try:
            frame = dict(cl.env)                # by-reference capture: the same cells / objects as the enclosing frame
            for p, a in zip(cl.params, argnodes):
                frame[p["id"]] = self.bind_arg(p["type"].get("desugaredQualType", p["type"]["qualType"]), a, env)
            try:
                self.exec(cl.body, frame)
                return None
            except ReturnEx as r:
                return r.v
        finally:
            self.depth -= 1

    def x_CXXOperatorCallExpr(self, n, env):
        callee, args = n["inner"][0], n["inner"][1:]
        c = callee
        while c["kind"] in ("ImplicitCastExpr", "ParenExpr"):
            c = c["inner"][0]
        if c["kind"] == "DeclRefExpr" and c["referencedDecl"].get("name") == "operator()" and args:
            obj = self.ev(args[0], env)
            if isinstance(obj, Closure) and obj.op_id == c["referencedDecl"]["id"]:
                return self.call_closure(obj, args[1:], env)
        raise SymxError("overloaded operator call " + str(c.get("referencedDecl", {}).get("name")))

    def x_CXXMemberCallExpr(self, n, env):
        me, args = n["inner"][0], n["inner"][1:]
        while me["kind"] == "ParenExpr":
            me = me["inner"][0]
        f = self.tu.func_of_decl(me["referencedMemberDecl"])
        obj = self.ev(me["inner"][0], env)
        if me.get("isArrow"):
            obj = self.rv(obj)
            obj = obj.deref()
        if f.is_static:
            return self.call(f, None, self.eval_args(f, args, env))
        return self.call(f, obj, self.eval_args(f, args, env))

    def libc(self, name, a):
        if name in ("memcpy", "memmove"):
            dst, src, n = a
            if not (isinstance(n, tuple) and n[0] == "sizeof"):
                raise SymxError("memcpy with computed size")
            self.deep_copy_into(dst.deref() if isinstance(dst, Ptr) else dst, src.deref() if isinstance(src, Ptr) else src)
            return dst
        if name == "memset":
            dst, val, n = a
            if val != 0 or not (isinstance(n, tuple) and n[0] == "sizeof"):
                raise SymxError("memset pattern")
            self.zero_fill(dst.deref() if isinstance(dst, Ptr) else dst)
            return dst
        raise SymxError("libc " + name)


# ---------------------------------------------------------------------------
def explore(make_run, max_paths=256, stop_on=None):
    """make_run(path) -> result ; explores every decision sequence. Returns [(trace, result)].
    stop_on(result) -> True ends the exploration early (a refuted obligation has been found: the remaining paths cannot un-refute it)."""
    todo = [[]]
    out = []
    while todo:
        ch = todo.pop()
        p = Path(ch)
        res = make_run(p)
        out.append((list(p.trace), res))
        if stop_on is not None and stop_on(res):
            return out
        todo += p.alternatives
        if len(out) + len(todo) > max_paths:
            raise SymxError("too many paths (%d explored, %d pending)" % (len(out), len(todo)))
    return out


# ---------------------------------------------------------------------------
# loop cuts
class CutDone(Exception):
    """raised by a loop-cut handler when the obligations of this run have been collected"""

    def __init__(self, obs):
        Exception.__init__(self, "cut")
        self.obs = obs


def loops_of(f):
    """loop statement nodes of a function body in syntactic order (ordinal 1, 2, ...)"""
    out = []

    def walk(n):
        if n.get("kind") in ("ForStmt", "WhileStmt", "DoStmt"):
            out.append(n)
        for c in n.get("inner", []):
            walk(c)
    walk(f.body)
    return out


def locals_of(f):
    """name -> decl id of the parameters and local variables of a function"""
    out = {}
    for p in f.params:
        out[p.get("name")] = p["id"]

    def walk(n):
        if n.get("kind") == "VarDecl":
            out.setdefault(n["name"], n["id"])
        for c in n.get("inner", []):
            walk(c)
    walk(f.body)
    return out


def loop_var(n):
    """decl id of the variable declared in a for-loop's init statement"""
    init = n["inner"][0]
    for c in init.get("inner", []):
        if c.get("kind") == "VarDecl":
            return c["id"]
    raise SymxError("loop has no induction variable declaration")


def for_parts(n):
    if n["kind"] == "ForStmt":
        init, condvar, cond, inc, body = n["inner"]
        return init, cond, inc, body
    if n["kind"] == "WhileStmt":
        return {}, n["inner"][-2], {}, n["inner"][-1]
    raise SymxError("loop cut on " + n["kind"])


def run_iteration(I, n, env):
    """evaluate the loop condition in the current state; if it holds run body and increment once. Returns False if the guard is false."""
    init, cond, inc, body = for_parts(n)
    if cond.get("kind") and not I.truth(I.rv(I.ev(cond, env)), n):
        return False
    try:
        I.exec(body, env)
    except ContinueEx:
        pass
    if inc.get("kind"):
        I.ev(inc, env)
    return True
