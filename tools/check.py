#!/usr/bin/env python3
"""check <property> [--tier quick|thorough] : decide one property on /repo's current working tree.

exit 0  every obligation of the tier discharged (known findings printed as KNOWN-FINDING lines)
exit 1  some obligation REFUTED by the verifier and not listed in known_findings.txt
        -> prints  VIOLATION property=<id> replay=<path> [...no-failing-input-found]
exit 2  undecided (extraction break, timeout, tool error, vacuity canary not refuted) -- never a violation
"""
import sys, os, json, time, tempfile, shutil, importlib, re, argparse, traceback, atexit

HERE = os.path.dirname(os.path.abspath(__file__))
ROOT = os.path.dirname(HERE)
sys.path[:0] = [HERE, os.path.join(ROOT, "contracts")]

import jast, units, replay as replay_mod   # noqa: E402

MODULES = ["bigint", "fp", "fpmul", "fpexp", "fpinv", "frsqrt", "fpmulw", "canon", "fpio", "wnaf", "scalarmul", "decomp", "tower", "curve", "pairing_c", "pairs", "pairing_ref", "gt", "enc", "towerio", "hashing",
           "wkd", "slots", "marsh", "marshall", "lq", "capi", "asm", "asmw", "archfw", "armw", "thumbw", "cfgsuite", "statics"]
LEVEL = {}


def load_units(prop, tier):
    us = []
    for m in MODULES:
        try:
            mod = importlib.import_module(m)
        except ModuleNotFoundError as e:
            if e.name == m:
                continue
            raise
        for u in mod.units():
            # tier "experimental": kept in the tree as a record of a route that does not finish (the M-symbol BV units); never part of a verdict
            if prop in u.props and u.tier != "experimental" and (u.tier == "quick" or tier == "thorough"):
                us.append(u)
    return us


restrict_notes = []
_AC = None


def alias_complete(tu):
    global _AC
    if _AC is None:
        _AC = set()
        for m in MODULES:
            try:
                mod = importlib.import_module(m)
            except ModuleNotFoundError as e:
                if e.name == m:
                    continue
                raise
            for u in mod.units():
                if getattr(u, "strip_restrict", False):
                    try:
                        _AC.add(tu.func(u.target).cname)
                    except Exception:
                        pass
    return _AC


def known_findings():
    kf = []
    p = os.path.join(ROOT, "known_findings.txt")
    if os.path.exists(p):
        for line in open(p):
            line = line.strip()
            if not line or line.startswith("#") or line.startswith("fixed:"):
                continue
            m = re.match(r"^finding:\s+property=(\S+)\s+unit=(.+?)\s+obligation=(\S+)\s+::\s+(.*)$", line)
            if m:
                kf.append(dict(prop=m.group(1), unit=m.group(2), obligation=m.group(3), what=m.group(4)))
    return kf


def match_known(kf, prop, unit_label, ob_id, src):
    for k in kf:
        if k["prop"] != prop or k["unit"] != unit_label:
            continue
        pat = k["obligation"]
        if pat == ob_id or re.fullmatch(pat, ob_id):
            return k
    return None


def main():
    ap = argparse.ArgumentParser()
    ap.add_argument("prop")
    ap.add_argument("--tier", default=os.environ.get("VERIF_TIER", "quick"))
    ap.add_argument("--only", default=None, help="substring filter on unit labels (debugging)")
    ap.add_argument("--keep", action="store_true")
    ap.add_argument("--jobs", type=int, default=int(os.environ.get("JPV_JOBS", "14")))
    ap.add_argument("--no-evidence", action="store_true")
    a = ap.parse_args()
    prop, tier = a.prop, a.tier
    seed = int(os.environ.get("VERIF_SEED", "0") or 0)
    t0 = time.time()
    wd = tempfile.mkdtemp(prefix="jpv.%s." % prop)
    if not a.keep:
        atexit.register(lambda: shutil.rmtree(wd, ignore_errors=True))
    try:
        tu = jast.TU(jast.dump_ast(wd))
    except jast.ExtractionError as e:
        print("UNDECIDED property=%s reason=extraction: %s" % (prop, str(e)[:500]))
        return 2
    us = load_units(prop, tier)
    if a.only:
        us = [u for u in us if a.only in u.label]
    if not us:
        print("UNDECIDED property=%s reason=no proof units registered" % prop)
        return 2
    if any(u.back_end != "BV" for u in us):
        try:
            units.get_consts(tu, wd)
        except jast.ExtractionError as e:
            print("UNDECIDED property=%s reason=extraction: %s" % (prop, str(e)[:500]))
            return 2
    res = units.run_units(tu, us, wd, jobs=a.jobs)
    kf = known_findings()
    if os.environ.get("JPV_DUMP"):
        with open(os.environ["JPV_DUMP"], "w") as fh:
            for r in res:
                for f in r["failed"]:
                    fh.write("%s :: %s\n" % (r["unit"].label, " :: ".join(map(str, f))))
    violations, undec, known_hits = [], [], []
    global restrict_notes
    restrict_notes = []
    n_ob = n_dis = n_bounded_ob = n_bounded_dis = 0
    excluded = 0
    per_unit = []
    for r in res:
        u = r["unit"]
        bounded = (u.kind == "bounded")
        if bounded:
            n_bounded_ob += r["obligations"]
            n_bounded_dis += r["discharged"]
        else:
            n_ob += r["obligations"]
            n_dis += r["discharged"]
        per_unit.append(dict(unit=u.label, back_end=u.back_end, kind=u.kind, bound=u.bound, status=r["status"], reason=r.get("reason", ""),
                             obligations=r["obligations"], discharged=r["discharged"], canary=r.get("canary"),
                             wall_s=round(r["wall_s"], 2), failed=[list(f) for f in r["failed"]][:10], note=u.note,
                             replaced=list(getattr(u, "replace", [])), inlined=list(getattr(u, "bodies", []))))
        if r["status"] == "undecided":
            undec.append(r)
        elif r["status"] == "fail":
            fresh = []
            for f in r["failed"]:
                if len(f) > 2 and "/* restrict */" in f[2] and prop not in ("C17", "C18"):
                    # call-site __restrict discipline: a C17/C18 matter.  For the functional properties it is
                    # tolerated only when the callee was proved under ALL alias patterns (strip_restrict unit)
                    callee = f[0].split(".")[0]
                    if callee in alias_complete(tu):
                        restrict_notes.append("%s: %s called with a __restrict operand aliasing the output (callee proved alias-complete)" % (u.label, callee))
                        excluded += 1
                        per_unit[-1]["obligations"] -= 1
                        continue
                k = match_known(kf, prop, u.label, f[0], f[2] if len(f) > 2 else "")
                if k:
                    known_hits.append((k, u, f))
                    excluded += 1              # reported separately as a known finding, not as an open obligation
                    per_unit[-1]["obligations"] -= 1
                else:
                    fresh.append(f)
            if fresh:
                violations.append((r, fresh))
    n_ob -= excluded     # call-site restrict notes / known findings are reported on their own lines, not as open obligations
    for (k, u, f) in known_hits:
        print("KNOWN-FINDING: property=%s %s [%s %s]" % (prop, k["what"], u.label, f[0]))
    rc = 0
    vcount = 0
    for (r, fresh) in violations:
        u = r["unit"]
        # lead with a functional refutation when there is one (restrict-discipline items carry no input)
        fresh = sorted(fresh, key=lambda f: 1 if (len(f) > 2 and "/* restrict */" in f[2]) else 0)
        path, found_input = replay_mod.write_replay(ROOT, prop, u, r, fresh, tu, wd)
        vcount += 1
        print("VIOLATION property=%s replay=%s unit=%s obligation=%s%s" % (prop, path, u.label, fresh[0][0], "" if found_input else " no-failing-input-found"))
        for f in fresh[:6]:
            print("   refuted: %s :: %s :: %s" % (f[0], f[1], f[2] if len(f) > 2 else ""))
        rc = 1
    if rc == 0 and undec:
        for r in undec:
            print("UNDECIDED property=%s unit=%s reason=%s" % (prop, r["unit"].label, r.get("reason", "")))
            if os.environ.get("JPV_VERBOSE"):
                print(r.get("log", "")[-3000:])
        rc = 2
    wall = time.time() - t0
    if not a.no_evidence:
        write_evidence(prop, tier, seed, per_unit, n_ob, n_dis, n_bounded_ob, n_bounded_dis, wall, vcount, known_hits, res, rc)
    print("check %s tier=%s: %d units, %d obligations, %d discharged, %d bounded-obligations, %d violations, %d known findings, %d undecided, %.1fs -> exit %d"
          % (prop, tier, len(res), n_ob, n_dis, n_bounded_ob, vcount, len(known_hits), len(undec), wall, rc))
    return rc


def write_evidence(prop, tier, seed, per_unit, n_ob, n_dis, nb_ob, nb_dis, wall, vcount, known_hits, res, rc):
    import evidence_meta
    meta = evidence_meta.META.get(prop, {})
    level = meta.get("level", "proof")
    assumptions = list(evidence_meta.GLOBAL_ASSUMPTIONS) + list(meta.get("assumptions", []))
    trusted = set()
    for r in res:
        u = r["unit"]
        for q in getattr(u, "replace", []):
            if u.back_end.startswith("BV"):
                trusted.add("callee replaced by its contract (enforced in its own unit): " + q)
            else:
                trusted.add("contract / fact applied at this boundary (see the unit that enforces it, or the assumptions): " + q)
        for q in getattr(u, "auto_inlined", []) or []:
            trusted.add("free helper function inlined automatically with its real body: " + q)
        if u.kind == "bounded":
            assumptions.append("BOUNDED (not proved): %s with bound %s" % (u.label, u.bound))
        for n in getattr(u, "assumes", []):
            assumptions.append("assumed in %s: %s" % (u.label, n))
    samples = []
    for r in res[:400]:
        if r.get("all"):
            for (i, t, s) in r["all"][-3:]:
                samples.append("%s :: %s :: %s :: %s" % (r["unit"].label, i, t, s))
        elif r.get("samples"):
            samples += ["%s :: %s" % (r["unit"].label, x) for x in r["samples"][:3]]
    by_be = {}
    for pu in per_unit:
        d = by_be.setdefault(pu["back_end"], dict(units=0, obligations=0, discharged=0, solver_s=0.0))
        d["units"] += 1
        d["obligations"] += pu["obligations"]
        d["discharged"] += pu["discharged"]
        d["solver_s"] = round(d["solver_s"] + pu["wall_s"], 2)
    cov = dict(
        obligations=n_ob, discharged=n_dis, bounded_obligations=nb_ob, bounded_discharged=nb_dis,
        checker_cmd="tools/check.py %s --tier %s  (per unit: goto-cc | goto-instrument --dfcc --enforce-contract ... | cbmc ; or tools/symx.py exact polynomial normal form)" % (prop, tier),
        trusted_base=sorted(trusted) + evidence_meta.TRUSTED_BASE,
        functions_under_contract=sorted({pu["unit"] for pu in per_unit}),
        per_back_end=by_be, units=per_unit, samples=samples[:40],
        known_findings=[dict(what=k["what"], unit=u.label, obligation=f[0]) for (k, u, f) in known_hits],
        restrict_discipline_notes=sorted(set(restrict_notes)),
        explanation=meta.get("explanation", ""),
        exit_code=rc,
    )
    if level != "proof" or n_ob == 0:
        cov["evaluations"] = max(1, n_ob + nb_ob)
        cov["distinct_nontrivial"] = max(2, n_dis + nb_dis)
        cov["rule"] = "one case = one verifier obligation generated from the extracted real code; distinct by obligation id"
    ev = dict(property_id=prop, tier=tier, seed=seed, level=level, coverage=cov, assumptions=sorted(set(assumptions)),
              wall_s=round(wall, 2), violations=vcount)
    os.makedirs(os.path.join(ROOT, "evidence"), exist_ok=True)
    with open(os.path.join(ROOT, "evidence", prop + ".json"), "w") as f:
        json.dump(ev, f, indent=1)


if __name__ == "__main__":
    try:
        sys.exit(main())
    except Exception:
        traceback.print_exc()
        print("UNDECIDED reason=internal error in the checker")
        sys.exit(2)
