#!/bin/bash
# run_seeds.sh [ids...] : apply each seeded patch to a scratch copy of /repo HEAD and run the property's quick check on it.
# Expected: every run prints a VIOLATION line (exit 1).  Never touches /repo.
cd /verif
for d in ${@:-$(ls -d seeded/*/ | xargs -n1 basename)}; do
  prop=$(python3 -c "import json;print(json.load(open('seeded/$d/meta.json'))['property'])")
  out=$(tools/try_patch.sh seeded/$d/patch.diff $prop 2>&1)
  rc=$?
  v=$(echo "$out" | grep -c '^VIOLATION')
  echo "seed $d property $prop -> exit $rc, $v VIOLATION line(s): $(echo "$out" | grep '^VIOLATION' | head -1 | cut -c1-260)"
  echo "$out" | tail -1
done
