#!/bin/bash
# confirm_seed.sh <id> <patch.diff> <demo.cpp> <demo_cmd.txt> [outdir]
# Confirms a seeded change in a scratch worktree of /repo HEAD: (1) the demo passes on the unchanged tree,
# (2) with the patch the library builds and the pinned suite (./test and ./test wkdibe) prints only PASS lines,
# (3) with the patch the demo fails.  Writes a log and prints CONFIRMED / NOT-CONFIRMED.  Removes the worktree.
ID=$1; PATCH=$(readlink -f "$2"); DEMO=$(readlink -f "$3"); CMD=$(readlink -f "$4"); OUT=${5:-/tmp/seedconf.$ID.log}
W=$(mktemp -d /tmp/seedconf.XXXXXX)
git -C /repo worktree add -q --detach "$W/r" HEAD || exit 3
R="$W/r"
orig=$(grep -o '/tmp/wt[0-9]*/[A-Za-z0-9_]*' "$CMD" | head -1)
cmd=$(head -1 "$CMD" | sed "s#$orig#$R#g")
cp "$DEMO" "$R/$(basename "$DEMO")"
clean() { rm -rf "$R/_demo" "$R/demo_build" "$R/demo_bin" "$R/bin" "$R/pairing.a" "$R/tests/bin" "$R/tests/pairing.a" "$R/tests/test" "$R/demo"; }
{
echo "== seed $ID; repo HEAD $(git -C /repo rev-parse --short HEAD)"
echo "== demo command: $cmd"
clean
echo "== [1] demo on the unchanged tree"
( cd "$R" && make -j8 >/dev/null 2>&1; bash -c "$cmd" ) > "$W/demo0.txt" 2>&1; rc0=$?
tail -5 "$W/demo0.txt"; echo "exit $rc0"
echo "== [2] apply patch, rebuild, pinned suite"
( cd "$R" && git apply "$PATCH" ) || { echo "PATCH DOES NOT APPLY"; rc_apply=1; }
clean
( cd "$R/tests" && make -j8 >/dev/null 2>&1 && ./test > "$W/t1.txt" 2>&1; echo "exit $?" >> "$W/t1.txt"; ./test wkdibe > "$W/t2.txt" 2>&1; echo "exit $?" >> "$W/t2.txt" )
np=$(cat "$W/t1.txt" "$W/t2.txt" | grep -c PASS); nf=$(cat "$W/t1.txt" "$W/t2.txt" | grep -c FAIL)
echo "suite: $np PASS lines, $nf FAIL lines; $(tail -1 $W/t1.txt) / $(tail -1 $W/t2.txt)"
echo "== [3] demo with the patch"
( cd "$R" && make -j8 >/dev/null 2>&1; bash -c "$cmd" ) > "$W/demo1.txt" 2>&1; rc1=$?
tail -5 "$W/demo1.txt"; echo "exit $rc1"
if [ -z "$rc_apply" ] && [ $rc0 -eq 0 ] && [ $rc1 -ne 0 ] && [ $nf -eq 0 ] && [ $np -ge 70 ]; then echo "CONFIRMED $ID"; else echo "NOT-CONFIRMED $ID (demo0=$rc0 demo1=$rc1 pass=$np fail=$nf apply=${rc_apply:-0})"; fi
} > "$OUT" 2>&1
git -C /repo worktree remove --force "$R"; rm -rf "$W"
tail -1 "$OUT"
